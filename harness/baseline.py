"""Run pyorbital's pinned test suite and compare with BASELINE.json's stable_pass list."""
import json, subprocess, sys, tempfile, os, xml.etree.ElementTree as ET
base = json.load(open('/root/.vp/BASELINE.json'))
with tempfile.TemporaryDirectory() as td:
    x = os.path.join(td, 'j.xml')
    env = dict(os.environ); env.pop('PYORBITAL_VERIF', None)
    p = subprocess.run(['/venv/bin/python','-m','pytest','-ra','-q','-p','no:cacheprovider','--timeout=900',
                        '--continue-on-collection-errors','--junitxml='+x], cwd='/repo', env=env,
                       stdout=subprocess.PIPE, stderr=subprocess.STDOUT)
    passed = set()
    for tc in ET.parse(x).getroot().iter('testcase'):
        if not any(c.tag in ('failure','error','skipped') for c in tc):
            passed.add(tc.get('classname') + '::' + tc.get('name'))
missing = [t for t in base['stable_pass'] if t not in passed]
print('passed %d, baseline %d, baseline tests not passing: %d' % (len(passed), len(base['stable_pass']), len(missing)))
for m in missing: print('  MISSING', m)
sys.exit(1 if missing else 0)
