"""Shared generators of (Orbital, time) cases for the numeric properties."""
import datetime as dt

import numpy as np

import tlegen


def make_orbitals(ctx, n, regimes=("near", "leo"), real=True, max_bstar=None):
    """Orbital objects that construct and answer at epoch. Returns list of (line1, line2, Orbital)."""
    from pyorbital import orbital
    tl = [(a, b) for (_, a, b) in tlegen.REAL_TLES] if real else []
    out = []
    tries = 0
    while len(out) < n and tries < 50 * n + 100:
        tries += 1
        if tl:
            a, b = tl.pop(0)
        elif out and tries % 5 == 0:
            # a different element set with the catalogue number and epoch of the previous one (re-issued set)
            a, b = tlegen.twin_of(ctx.rng, out[-1][0], out[-1][1], ctx.rng.choice(list(regimes)))
        else:
            _, a, b = tlegen.random_tle(ctx.rng, ctx.rng.choice(list(regimes)))
        try:
            o = orbital.Orbital("x", line1=a, line2=b)
            o.get_position(o.tle.epoch)
        except Exception:  # noqa  refusals are C13's subject
            continue
        if max_bstar is not None and abs(o.tle.bstar) > max_bstar:
            continue
        out.append((a, b, o))
    return out


def rand_time(ctx, o, days=2.0):
    us = ctx.rng.randrange(int(-days * 86400 * 10 ** 6), int(days * 86400 * 10 ** 6))
    return o.tle.epoch.astype(dt.datetime) + dt.timedelta(microseconds=us)


def answers(o, t):
    """True when the propagator answers at t (no decay / refusal exception)."""
    try:
        o.get_position(t, normalize=False)
        return True
    except Exception:  # noqa
        return False


def rand_times(ctx, o, k, days=2.0):
    out = []
    tries = 0
    while len(out) < k and tries < 5 * k + 10:
        tries += 1
        t = rand_time(ctx, o, days)
        if answers(o, t):
            out.append(t)
    return out
