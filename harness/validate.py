import json, sys, glob, jsonschema
jsonschema.validate(json.load(open('MANIFEST.json')), json.load(open('/root/.vp/MANIFEST.schema.json')))
sch = json.load(open('/root/.vp/EVIDENCE.schema.json'))
for f in sorted(glob.glob('evidence/*.json')):
    jsonschema.validate(json.load(open(f)), sch)
print('manifest + %d evidence files valid' % len(glob.glob('evidence/*.json')))
