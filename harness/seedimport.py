"""Import candidate changes written by an independent sub-agent (/tmp/wt-mNN/out/<k>/) into /verif/seeded/<ID>-<k>/.

    python harness/seedimport.py C02 /tmp/wt-m02
Only copies files and writes meta.json; harness/seedrun.py then confirms (demo fails with / passes without, test suite
unchanged) and runs the checks.
"""
import json
import os
import shutil
import sys

ROOT = os.path.dirname(os.path.dirname(os.path.abspath(__file__)))


def main():
    pid, wt = sys.argv[1], sys.argv[2]
    out = os.path.join(wt, "out")
    for k in sorted(os.listdir(out)):
        src = os.path.join(out, k)
        if not os.path.exists(os.path.join(src, "patch.diff")):
            continue
        name = "%s-%s" % (pid, k) if len(sys.argv) < 4 else "%s-%s%s" % (pid, sys.argv[3], k)
        dst = os.path.join(ROOT, "seeded", name)
        os.makedirs(dst, exist_ok=True)
        for f in ("patch.diff", "demo.py", "notes.md"):
            if os.path.exists(os.path.join(src, f)):
                shutil.copy(os.path.join(src, f), os.path.join(dst, f))
        notes = open(os.path.join(dst, "notes.md")).read() if os.path.exists(os.path.join(dst, "notes.md")) else ""
        meta = {"property": pid, "origin": "independent sub-agent given only the property text and a scratch worktree",
                "needs_to_manifest": notes.strip().split("\n\n")[0][:1200],
                "ran": ["git apply patch.diff on a scratch copy of /repo", "pytest pyorbital/tests (84 passed required)",
                        "demo.py with and without the change", "./check %s --tier quick against the changed copy" % pid,
                        "./check %s --replay <replay> against changed and unchanged copy" % pid]}
        json.dump(meta, open(os.path.join(dst, "meta.json"), "w"), indent=1)
        print("imported", name)


if __name__ == "__main__":
    main()
