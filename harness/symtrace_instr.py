"""T-C for the instrument scan definitions (C19): regenerate lean/PV/Generated/KernelsInstr.lean by tracing the
current source of pyorbital/geoloc_instrument_definitions.py and of geoloc.ScanGeometry.__init__ / .times.

Extends harness/symtrace.py (same symbolic scalars `Sym`, expression DAG, literal policy).  The numpy code of the
definition functions -- `(scan_points / 1023.5 - 1) * np.deg2rad(-scan_angle)`, `np.vstack`, `np.tile`, `np.repeat`,
`np.dstack`, `.T`, `np.expand_dims`, `times += offset` -- runs on OBJECT arrays that hold symbolic scalars: every
definition is called with a small concrete number of scan lines (1, 2, 3) and a SYMBOLIC selection of scan positions
`scan_points = [p, q]`, and the two arrays handed to `ScanGeometry(...)` are read off as nested lists of expressions in
p and q (the shape is the nesting).  PV/Equiv/Instr.lean proves, for all real p and q, that they are the arrays of the
hand-written model PV.Model.Instruments (its per-point angle / time formulas mapped over the selection, replicated /
offset over the lines).

How the source is run (everything else is the unmodified code):

  * LITERALS.  The module is compiled from its current source text with one mechanical change: every float literal
    `c` becomes the symbolic literal `lit c` (int literals, which also size arrays, stay ints), and a true division
    whose two operands are integers at run time (`8 / 3`) becomes the exact symbolic quotient.  Local constants and
    defaults (`scan_rate = 8 / 3.`, `sampling_interval = abs(scan_rate) / scan_len`, `frequency=1 / 6.0`,
    `np.deg2rad(-scan_angle)`, `np.arctan2(11.87 / 2, 824.0)`) are therefore expressions over the literals of the
    source text and not doubles (DESIGN 2.4: the real-number reading of a literal is the number written in the
    source).  A double that still reaches the tracer (a numpy function of an int, say) is emitted as the decimal its
    shortest repr denotes or, when it is the value of a constant sub-expression of the source, as that expression
    (symtrace.collect_folded); if that is not the intended real number the Lean proof fails, it cannot pass wrongly.
  * CUT POINTS (numpy library calls that leave the `Num` signature):
      `np.linspace(a, b, n)`            -> the array of opaque nodes `linspaceK a b n i` (defined in the generated
                                           file after numpy's algorithm); indexing it with symbolic points gives
                                           `linspaceK a b n p` with `p : Nat`           (atms, olci, slstr_nadir, ascat)
      `np.max(scan_points)`             -> the symbol `mx` (ascat; `float(mx + 1)` stays symbolic)
      `np.arange(chn_pixels)[sel]`      -> the symbolic points themselves when `sel` is the symbolic selection
                                           (viirs: `np.arange(n)[i] = i`), `.astype("int")` of them is the identity
      `np.concatenate(...)[symbolic]`   -> not expressible: ascat's angles are traced for the full concrete selection
      `ScanGeometry(fovs, times)`       -> records the two arrays (the constructor itself is traced separately)
  * `ScanGeometry.__init__` / `.times` (geoloc.py, unmodified function objects): `np.timedelta64(1000000000, "ns")`
    is a marker carrying count and unit; the traced kernel is the float product `t * 1000000000` BEFORE numpy's cast to
    integer nanoseconds (the cast = truncation is outside the `Num` signature: it is `Instr.toNs`'s floor, see
    PV/Equiv/Instr.lean); a unit other than "ns" fails the generation.

Any failure raises; extract.regenerate() then writes an unbuildable file.
"""
import ast
import os
import sys

HERE = os.path.dirname(os.path.abspath(__file__))
if HERE not in sys.path:
    sys.path.insert(0, HERE)
import symtrace as st  # noqa: E402
from symtrace import Expr, Sym, E, TraceError  # noqa: E402

REPO = st.REPO
LEAN_GEN = st.LEAN_GEN
OUT_NAME = "KernelsInstr.lean"
SRC = os.path.join(REPO, "pyorbital", "geoloc_instrument_definitions.py")


# ------------------------------------------------------------------ literal lifting
class _LiftFloats(ast.NodeTransformer):
    """`c` -> `__pv_lit(c)` for float literals; `a / b` -> `__pv_div(a, b)` (symbolic only when both sides are integers)."""

    def visit_Constant(self, node):
        if type(node.value) is float:
            return ast.copy_location(ast.Call(func=ast.Name(id="__pv_lit", ctx=ast.Load()),
                                              args=[ast.Constant(node.value)], keywords=[]), node)
        return node

    def visit_BinOp(self, node):
        self.generic_visit(node)
        if isinstance(node.op, ast.Div):
            return ast.copy_location(ast.Call(func=ast.Name(id="__pv_div", ctx=ast.Load()),
                                              args=[node.left, node.right], keywords=[]), node)
        return node


def _lit(x):
    return Sym(Expr("lit", float(x)))


def _is_int(x):
    import numpy as np
    if isinstance(x, bool):
        return False
    if isinstance(x, (int, np.integer)):
        return True
    return isinstance(x, np.ndarray) and x.dtype.kind in "iu"


def _div(a, b):
    """True division.  Integer / integer is the one way the source makes an inexact double without a float literal
    (`8 / 3`, `np.arange(n) / 31`): it stays an exact symbolic quotient.  Everything else is the ordinary `/`."""
    import numpy as np
    if _is_int(a) and _is_int(b):
        if isinstance(a, np.ndarray) or isinstance(b, np.ndarray):
            bc = np.broadcast(a, b)
            out = np.empty(bc.shape, dtype=object)
            for idx in np.ndindex(bc.shape):
                out[idx] = Sym(Expr("div", E(np.broadcast_to(a, bc.shape)[idx]), E(np.broadcast_to(b, bc.shape)[idx])))
            return out
        return Sym(Expr("div", E(a), E(b)))
    return a / b


# ------------------------------------------------------------------ arrays that can be indexed symbolically
def _has_sym(x):
    import numpy as np
    if isinstance(x, Sym):
        return True
    if isinstance(x, np.ndarray) and x.dtype == object:
        return any(isinstance(v, Sym) for v in x.ravel().tolist())
    if isinstance(x, (list, tuple)):
        return any(_has_sym(v) for v in x)
    return False


def _is_var(v):
    return isinstance(v, Sym) and v.e.op == "var"


def _classes():
    import numpy as np

    class SymSel:
        """A symbolic selection of scan positions (viirs `scan_indices`)."""

        def __init__(self, syms):
            self.syms = list(syms)

    class PtsArr(np.ndarray):
        """Object array of symbolic scan points; `.astype("int")` is the identity on points."""

        def astype(self, dtype, *a, **k):
            return self

    class IdxArr(np.ndarray):
        """`np.arange(n)`: a plain integer array, except that the symbolic selection picks the symbolic points."""

        def __getitem__(self, key):
            if isinstance(key, SymSel):
                return pts(key.syms)
            r = np.ndarray.__getitem__(self, key)
            return r.view(np.ndarray) if isinstance(r, np.ndarray) else r

    class SymArr(np.ndarray):
        """Object array returned by a cut point; `lin = (a, b, n)` when it is a complete np.linspace."""
        lin = None

        def __array_finalize__(self, obj):
            self.lin = None

        def __getitem__(self, key):
            if isinstance(key, np.ndarray) and key.dtype == object and _has_sym(key):
                out = np.empty(key.shape, dtype=object)
                for idx in np.ndindex(key.shape):
                    k = key[idx]
                    if self.lin is not None and _is_var(k):
                        a, b, n = self.lin
                        out[idx] = Sym(Expr("linspace", a, b, n, k.e))
                    else:
                        out[idx] = Sym(Expr("index", id(self), E(k)))      # not emittable (ascat, symbolic run)
                return out
            r = np.ndarray.__getitem__(self, key)
            return r.view(np.ndarray) if isinstance(r, np.ndarray) else r

    def pts(syms):
        a = np.empty((len(syms),), dtype=object)
        for i, s in enumerate(syms):
            a[i] = s
        return a.view(PtsArr)

    return SymSel, PtsArr, IdxArr, SymArr, pts


class _Rec:
    """What a definition function hands to ScanGeometry."""

    def __init__(self, fovs, times, attitude=(0, 0, 0)):
        self.fovs = fovs
        self.times = times


def _np_proxy(SymArr, IdxArr):
    import numpy as np

    class NpProxy:
        def __getattr__(self, name):
            return getattr(np, name)

        @staticmethod
        def arange(*a, **k):
            return np.arange(*a, **k).view(IdxArr)

        @staticmethod
        def max(x, *a, **k):
            if _has_sym(x):
                if a or k:
                    raise TraceError("np.max with options on symbolic points")
                return Sym.var("mx")
            return np.max(x, *a, **k)

        @staticmethod
        def linspace(a, b, n, *rest, **k):
            if rest or k:
                raise TraceError("np.linspace with options is not modelled")
            if isinstance(n, Sym) or int(n) != n or int(n) < 1:
                raise TraceError("np.linspace: the number of samples must be a concrete positive integer")
            n = int(n)
            ea, eb = E(a), E(b)
            arr = np.empty((n,), dtype=object)
            for i in range(n):
                arr[i] = Sym(Expr("linspace", ea, eb, n, i))
            out = arr.view(SymArr)
            out.lin = (ea, eb, n)
            return out

        @staticmethod
        def concatenate(seq, *a, **k):
            r = np.concatenate([np.asarray(x) for x in seq], *a, **k)
            return r.view(SymArr) if r.dtype == object else r

    return NpProxy()


def _sym_float(x):
    return x if isinstance(x, Sym) else float(x)


def load_definitions():
    """The instrument module compiled from its current source with float literals lifted; returns its namespace."""
    import numpy as np
    Sym.dtype = np.dtype("float64")
    if REPO not in sys.path:
        sys.path.insert(0, REPO)
    src = open(SRC).read()
    tree = ast.fix_missing_locations(_LiftFloats().visit(ast.parse(src)))
    ns = {"__name__": "pv_traced_geoloc_instrument_definitions", "__pv_lit": _lit, "__pv_div": _div}
    exec(compile(tree, SRC, "exec"), ns)
    SymSel, PtsArr, IdxArr, SymArr, pts = _classes()
    ns["np"] = _np_proxy(SymArr, IdxArr)
    ns["ScanGeometry"] = _Rec
    ns["float"] = _sym_float
    return ns, SymSel, pts


# ------------------------------------------------------------------ emission
class _Emitter(st.Emitter):
    def term(self, e, cnt, lets, indent):
        if e.op == "linspace":
            a = self.term(e.args[0], cnt, lets, indent)
            b = self.term(e.args[1], cnt, lets, indent)
            i = e.args[3]
            if isinstance(i, Expr):
                if i.op != "var":
                    raise TraceError("np.linspace indexed by a computed value")
                i = i.args[0]
            return "(linspaceK %s %s %d %s)" % (a, b, e.args[2], i)
        if e.op == "index":
            raise TraceError("symbolic index into an array that is not a complete np.linspace")
        return st.Emitter.term(self, e, cnt, lets, indent)


def _vars(e, acc, nat):
    """Free variables of e in order of first occurrence; `nat` collects those used as a linspace index."""
    seen = set()

    def go(x):
        if x.id in seen:
            return
        seen.add(x.id)
        if x.op == "var":
            if x.args[0] not in acc:
                acc.append(x.args[0])
            return
        if x.op == "linspace" and isinstance(x.args[3], Expr) and x.args[3].op == "var":
            nat.add(x.args[3].args[0])
            if x.args[3].args[0] not in acc:
                acc.append(x.args[3].args[0])
            go(x.args[0])
            go(x.args[1])
            return
        for a in x.args:
            if isinstance(a, Expr):
                go(a)
    go(e)


def _nested(arr):
    """numpy array (object or numeric) -> nested lists of Expr (the nesting is the shape)."""
    import numpy as np
    arr = np.asarray(arr)
    if arr.ndim == 0:
        return E(arr.item() if arr.dtype != object else arr[()])
    return [_nested(arr[i]) for i in range(arr.shape[0])]


def _lean_type(depth):
    t = "α"
    for _ in range(depth):
        t = "List %s" % (t if t == "α" else "(%s)" % t)
    return t


def emit_array(name, doc, params, arr, out):
    """One definition `name params : List (List .. α)`; params = names in signature order (must cover the free variables)."""
    import numpy as np
    arr = np.asarray(arr)
    nest = _nested(arr)
    em = _Emitter()
    free, natv, realv = [], set(), set()

    def walk(x):
        if isinstance(x, list):
            for y in x:
                walk(y)
        else:
            _vars(x, free, natv)
    walk(nest)

    def real_uses(x):
        # variables used outside a linspace index
        seen = set()

        def go(e):
            if e.id in seen:
                return
            seen.add(e.id)
            if e.op == "var":
                realv.add(e.args[0])
                return
            if e.op == "linspace":
                go(e.args[0])
                go(e.args[1])
                return
            for a in e.args:
                if isinstance(a, Expr):
                    go(a)
        if isinstance(x, list):
            for y in x:
                real_uses(y)
        else:
            go(x)
    real_uses(nest)
    both = natv & realv
    if both:
        raise TraceError("%s: %s used both as an array index and as a number" % (name, sorted(both)))
    missing = [v for v in free if v not in params]
    if missing:
        raise TraceError("%s: free variables %s are not parameters" % (name, missing))

    def show(x, ind):
        if isinstance(x, list):
            if x and not isinstance(x[0], list):
                return "[" + ", ".join(em.term(e, {}, [], ind) for e in x) + "]"
            inner = [show(y, ind + " ") for y in x]
            return "[" + (",\n" + ind + " ").join(inner) + "]"
        return em.term(x, {}, [], ind)
    sig = "".join(" (%s : %s)" % (p, "Nat" if p in natv else "α") for p in params)
    out.append("/-- %s; shape %s -/" % (doc, tuple(int(s) for s in arr.shape)))
    out.append("def %s%s : %s :=" % (name, sig, _lean_type(arr.ndim)))
    out.append("  " + show(nest, "  "))
    out.append("")


# ------------------------------------------------------------------ the traces
RAMP = ["avhrr", "avhrr_gac", "amsua", "mhs", "hirs4", "mwhs2", "atms"]
LINES = (1, 2, 3)
VIIRS_SCANS = (1, 2)
RESAMP = [("olci", "olci"), ("slstr_nadir", "slstr")]
RESAMP_SHAPES = ((2, 1), (1, 2), (2, 3))        # (lines, number of positions)


def generate():
    import numpy as np
    import datetime
    Expr.reset()
    st.FOLDED.clear()
    st.collect_folded(SRC, {})
    ns, SymSel, pts = load_definitions()
    V = Sym.var
    out = ["/- GENERATED by harness/symtrace_instr.py by tracing the current source of "
           "/repo/pyorbital/geoloc_instrument_definitions.py and geoloc.ScanGeometry on symbolic scan positions — do not edit. -/",
           "import PV.Num", "set_option linter.unusedVariables false", "namespace PV.Gen.KI",
           "variable {α : Type} [Num α]", "open PV", "",
           "/-- cut point `np.linspace(a, b, n)[i]` (i < n), numpy's algorithm: `arange(n) * step + a` with",
           "    `step = (b - a) / (n - 1)`, last element overwritten by `b`; `arange(1) * (b - a) + a` for n = 1 -/",
           "def linspaceK (a b : α) (n i : Nat) : α :=",
           "  if n ≤ 1 then Num.ofNat i * (b - a) + a",
           "  else if i + 1 = n then b",
           "  else Num.ofNat i * ((b - a) / Num.ofNat (n - 1)) + a", ""]

    def two():
        return pts([V("p"), V("q")])

    # ---- line scanners: symbolic positions [p, q], 1..3 lines
    for name in RAMP:
        for n in LINES:
            g = ns[name](n, two())
            emit_array("%s_fovs_n%d" % (name, n), "traced: `%s(%d, [p, q])` -> fovs" % (name, n), ["p", "q"], g.fovs, out)
            emit_array("%s_times_n%d" % (name, n), "traced: `%s(%d, [p, q])` -> times (seconds)" % (name, n), ["p", "q"],
                       g.times, out)
    # ---- ascat: times with symbolic positions (mx = np.max(scan_points)); angles for the full concrete selection
    for n in LINES:
        g = ns["ascat"](n, two())
        emit_array("ascat_times_n%d" % n, "traced: `ascat(%d, [p, q])` -> times (seconds); mx = np.max(scan_points)" % n,
                   ["mx", "p", "q"], g.times, out)
    for n in (1, 2):
        g = ns["ascat"](n)
        emit_array("ascat_fovs_full_n%d" % n, "traced: `ascat(%d)` (all positions) -> fovs" % n, [], g.fovs, out)
    # ---- olci / slstr_nadir: only the NUMBER of positions matters (np.linspace over len(scan_points))
    for name, short in RESAMP:
        for n, m in RESAMP_SHAPES:
            names = ["p", "q", "r"][:m]
            g = ns[name](n, pts([V(x) for x in names]))
            emit_array("%s_fovs_n%d_m%d" % (short, n, m), "traced: `%s(%d, [%s])` -> fovs" % (name, n, ", ".join(names)),
                       names, g.fovs, out)
            emit_array("%s_times_n%d_m%d" % (short, n, m), "traced: `%s(%d, [%s])` -> times" % (name, n, ", ".join(names)),
                       names, g.times, out)
    # ---- viirs: symbolic selection [p, q] of the 6400 pixels, 1 and 2 scans of 32 detector lines
    for n in VIIRS_SCANS:
        g = ns["viirs"](n, SymSel([V("p"), V("q")]))
        emit_array("viirs_fovs_n%d" % n, "traced: `viirs(%d, [p, q])` -> fovs" % n, ["p", "q"], g.fovs, out)
        emit_array("viirs_times_n%d" % n, "traced: `viirs(%d, [p, q])` -> times (seconds)" % n, ["p", "q"], g.times, out)
    # ---- geoloc.ScanGeometry.__init__ / .times (unmodified function objects)
    from pyorbital import geoloc

    class TD:
        def __init__(self, count, unit=None):
            self.count, self.unit = count, unit

    def sym_mul(self, o, _base=Sym.__mul__):
        if isinstance(o, TD):
            if o.unit != "ns" or not isinstance(o.count, int):
                raise TraceError("ScanGeometry.__init__: times are no longer multiplied by an integer number of ns")
            return Sym(Expr("mul", self.e, Expr("lit", o.count)))
        return _base(self, o)

    class GNp:
        def __getattr__(self, name):
            return getattr(np, name)

        timedelta64 = staticmethod(lambda count, unit=None: TD(count, unit))
        datetime64 = staticmethod(lambda x, *a: x)

    P = st.Patches()
    try:
        P.set(Sym, "__mul__", sym_mul)
        P.set(geoloc, "np", GNp())
        f = np.empty((2, 1, 1), dtype=object)
        f[0, 0, 0], f[1, 0, 0] = V("fx"), V("fy")
        t = np.empty((1, 2), dtype=object)
        t[0, 0], t[0, 1] = V("t"), V("u")
        sg = geoloc.ScanGeometry(f, t)
        emit_array("scan_geometry_fovs", "traced: `ScanGeometry(fovs, times).fovs`", ["fx", "fy"], sg.fovs, out)
        emit_array("scan_geometry_ns", "traced: `ScanGeometry(fovs, [[t, u]])._times`, the float product before numpy's "
                   "cast to integer nanoseconds (truncation)", ["t", "u"], sg._times, out)
        sg._times = np.empty((1, 2), dtype=object)
        sg._times[0, 0], sg._times[0, 1] = V("a"), V("b")
        emit_array("scan_geometry_times", "traced: `ScanGeometry.times(start)` from `_times = [[a, b]]` (integer ns)",
                   ["a", "b", "start"], sg.times(V("start")), out)
    finally:
        P.restore()
    out.append("end PV.Gen.KI")
    return "\n".join(out) + "\n"


# ------------------------------------------------------------------ proof obligations (static list)
# T-C obligations of C19: `EQUIV = dict(symtrace_instr.EQUIV_INSTR)` in props/c19.py
EQUIV_INSTR = {
    'PV.Equiv.Instr': [
        'fovs_structure', 'times_structure', 'timesNs_structure', 'fovsOf_succ', 'fovsOf_line', 'timesOf_succ',
        'timesOf_line', 'viirsFovs_structure', 'viirsTimes_structure', 'viirsOf_line', 'resamp_length_only', 'linspaceK_eq',
        'avhrr_fovs_n1', 'avhrr_fovs_n2', 'avhrr_fovs_n3', 'avhrr_times_n1', 'avhrr_times_n2', 'avhrr_times_n3',
        'avhrr_arrays', 'avhrr_gac_fovs_n1', 'avhrr_gac_fovs_n2', 'avhrr_gac_fovs_n3', 'avhrr_gac_times_n1',
        'avhrr_gac_times_n2', 'avhrr_gac_times_n3', 'avhrr_gac_arrays', 'amsua_fovs_n1', 'amsua_fovs_n2', 'amsua_fovs_n3',
        'amsua_times_n1', 'amsua_times_n2', 'amsua_times_n3', 'amsua_arrays', 'mhs_fovs_n1', 'mhs_fovs_n2', 'mhs_fovs_n3',
        'mhs_times_n1', 'mhs_times_n2', 'mhs_times_n3', 'mhs_arrays', 'hirs4_fovs_n1', 'hirs4_fovs_n2', 'hirs4_fovs_n3',
        'hirs4_times_n1', 'hirs4_times_n2', 'hirs4_times_n3', 'hirs4_arrays', 'mwhs2_fovs_n1', 'mwhs2_fovs_n2',
        'mwhs2_fovs_n3', 'mwhs2_times_n1', 'mwhs2_times_n2', 'mwhs2_times_n3', 'mwhs2_arrays', 'atms_fovs_n1',
        'atms_fovs_n2', 'atms_fovs_n3', 'atms_times_n1', 'atms_times_n2', 'atms_times_n3', 'atms_arrays', 'ascat_times_n1',
        'ascat_times_n2', 'ascat_times_n3', 'ascat_fovs_full_n1', 'ascat_fovs_full_n2', 'ascat_arrays', 'olci_fovs_n2_m1',
        'olci_fovs_n1_m2', 'olci_fovs_n2_m3', 'olci_times_n2_m1', 'olci_times_n1_m2', 'olci_times_n2_m3',
        'slstr_fovs_n2_m1', 'slstr_fovs_n1_m2', 'slstr_fovs_n2_m3', 'slstr_times_n2_m1', 'slstr_times_n1_m2',
        'slstr_times_n2_m3', 'viirs_fovs_n1', 'viirs_fovs_n2', 'viirs_times_n1', 'viirs_times_n2', 'viirs_arrays',
        'scan_geometry_fovs', 'scan_geometry_ns_floor', 'scan_geometry_times'],
}


if __name__ == "__main__":
    text = generate()
    if len(sys.argv) > 1 and sys.argv[1] == "--write":
        import extract
        print(extract.write_if_changed(os.path.join(LEAN_GEN, OUT_NAME), text))
    else:
        print(text)
