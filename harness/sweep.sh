#!/bin/bash
# Self-test: every registered quick check with several seeds on the unchanged tree (must all exit 0).
# usage: harness/sweep.sh "1 2 3 4 5" [jobs]
cd "$(dirname "$0")/.."
seeds=${1:-"1 2 3"}; jobs=${2:-4}
ids=$(python3 -c "import json; print(' '.join(c['property_id'] for c in json.load(open('MANIFEST.json'))['checks']))")
(cd lean && lake build PV pvdriver >/dev/null 2>&1)
for s in $seeds; do for id in $ids; do echo "$s $id"; done; done | xargs -P $jobs -L 1 bash -c 'out=$(VERIF_SEED=$0 PV_EVIDENCE_DIR=/tmp/pv-sweep-evidence ./check $1 --tier quick 2>&1 | tail -1); echo "seed=$0 $out"'
