"""Independent geodesy helpers for the oracles (WGS-84, IAU-1982 GMST), not using pyorbital."""
import math

import numpy as np

from props import c12

A_WGS84 = 6378.137
F_WGS84 = 1 / 298.257223563
E2 = F_WGS84 * (2 - F_WGS84)
OMEGA_E = 7.292115e-5


def gmst_ref(t):
    """IAU-1982 GMST in radians for a naive UTC datetime (UT1 = UTC), 60-digit arithmetic."""
    return float(c12.iau82_gmst(c12.exact_jd(t)))


def geodetic_to_eci(lon_deg, lat_deg, alt_km, theta_g):
    phi = math.radians(lat_deg)
    th = theta_g + math.radians(lon_deg)
    n = A_WGS84 / math.sqrt(1 - E2 * math.sin(phi) ** 2)
    x = (n + alt_km) * math.cos(phi) * math.cos(th)
    y = (n + alt_km) * math.cos(phi) * math.sin(th)
    z = (n * (1 - E2) + alt_km) * math.sin(phi)
    return np.array([x, y, z])


def enu(lon_deg, lat_deg, theta_g):
    phi = math.radians(lat_deg)
    th = theta_g + math.radians(lon_deg)
    e = np.array([-math.sin(th), math.cos(th), 0.0])
    n = np.array([-math.sin(phi) * math.cos(th), -math.sin(phi) * math.sin(th), math.cos(phi)])
    u = np.array([math.cos(phi) * math.cos(th), math.cos(phi) * math.sin(th), math.sin(phi)])
    return e, n, u


def look_ref(sat_eci, lon_deg, lat_deg, alt_km, theta_g):
    """(azimuth deg clockwise from north in [0,360), elevation deg) of the observer->satellite vector."""
    o = geodetic_to_eci(lon_deg, lat_deg, alt_km, theta_g)
    d = np.asarray(sat_eci, dtype=float) - o
    e, n, u = enu(lon_deg, lat_deg, theta_g)
    az = math.degrees(math.atan2(float(d @ e), float(d @ n))) % 360.0
    el = math.degrees(math.asin(max(-1.0, min(1.0, float(d @ u) / float(np.linalg.norm(d))))))
    return az, el


def random_unit(rng):
    while True:
        v = np.array([rng.gauss(0, 1) for _ in range(3)])
        n = np.linalg.norm(v)
        if n > 1e-6:
            return v / n
