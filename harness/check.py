"""Entry point: ./check <ID> --tier quick|thorough [--replay <file>]

Exit 0: property held on everything explored (KNOWN-FINDING lines possible).
Exit 1: `VIOLATION property=<ID> replay=<path>[ no-failing-input-found]`.
Exit 2: infrastructure failure (no verdict).
"""
import argparse
import hashlib
import importlib
import json
import os
import sys
import time
import traceback

sys.path.insert(0, os.path.dirname(os.path.abspath(__file__)))
import lib  # noqa: E402
import extract  # noqa: E402


def write_replay(ctx, name, payload):
    os.makedirs(lib.REPLAY_DIR, exist_ok=True)
    h = hashlib.sha1(json.dumps(payload, sort_keys=True, default=str).encode()).hexdigest()[:10]
    path = os.path.join(lib.REPLAY_DIR, "%s-%s-%s.json" % (ctx.pid, name, h))
    with open(path, "w") as f:
        json.dump(lib.jsonable(payload), f, indent=1, sort_keys=True)
    return os.path.relpath(path, lib.ROOT)


def write_evidence(ctx, mod, verdict):
    os.makedirs(lib.EVIDENCE_DIR, exist_ok=True)
    n_obl = len(ctx.obligations)
    n_dis = len(ctx.discharged)
    evaluations = sum(v for k, v in ctx.counts.items() if k.startswith("eval"))
    cov = {
        "obligations": n_obl,
        "discharged": n_dis,
        "checker_cmd": "cd lean && lake build %s && lake env lean <audit: #print axioms of each theorem>%s" % (
            " ".join(mod.LEAN_TARGETS), " && lake env leanchecker" if ctx.tier == "thorough" else ""),
        "trusted_base": [
            "Lean 4.33.0 kernel", "Mathlib v4.33.0 definitions (Real, Complex.arg, Int.floor ...)",
            "axioms used: " + ", ".join(sorted(set().union(*[a for a in ctx.axioms.values() if a]) if ctx.axioms else [])),
            "harness/extract.py (constants and tables regenerated from the source AST)",
            "harness correspondence check (model driver vs pyorbital in-process) and its generators",
        ] + list(getattr(mod, "TRUSTED", [])),
        "theorems": [{"name": n, "axioms": sorted(ctx.axioms.get(n) or []) if ctx.axioms.get(n) is not None else None,
                      "ok": n in ctx.discharged} for n in ctx.obligations],
        "evaluations": max(evaluations, 0),
        "distinct_nontrivial": len(ctx.nontrivial),
        "rule": ctx.rule or getattr(mod, "RULE", ""),
        "samples": ctx.samples[:8] if ctx.samples else [],
        "counts": ctx.counts,
        "histograms": ctx.hist,
        "correspondence_disagreements": len(ctx.disagreements),
        "ties_broken": ctx.ties_broken[:10],
        "intensified_search": ctx.intensified,
        "notes": ctx.notes[:20],
        "process_time_zone": getattr(ctx, "process_tz", None),
        "interpreter_optimize_flag": sys.flags.optimize,
    }
    if ctx.exhaustive is not None:
        cov["exhaustive"] = bool(ctx.exhaustive)
    ev = {
        "property_id": ctx.pid,
        "tier": ctx.tier,
        "seed": ctx.seed,
        "level": "proof",
        "coverage": lib.jsonable(cov),
        "assumptions": list(getattr(mod, "ASSUMPTIONS", [])) + ctx.assumptions,
        "wall_s": round(time.time() - ctx.t0, 2),
        "violations": verdict["violations"],
        "verdict": verdict,
    }
    with open(os.path.join(lib.EVIDENCE_DIR, ctx.pid + ".json"), "w") as f:
        json.dump(ev, f, indent=1, sort_keys=True)


def stage(ctx, name, fn):
    """Run a stage; an unexpected exception in the harness breaks the tie, it is not a verdict by itself."""
    try:
        return fn()
    except lib.DriverError as e:
        ctx.tie_broken(name, "driver: %s" % e)
    except Exception as e:  # noqa
        ctx.tie_broken(name, "exception: %s\n%s" % (e, traceback.format_exc()[-1500:]))
    return None


# The whole check runs under a NON-UTC process time zone (chosen by the seed; seed 0 = +05:45 / +06:45 with daylight-saving switches).  pyorbital's
# answers must not depend on the host's zone; code that converts naive or aware datetimes through the local zone
# (`astimezone()` without argument, `time.mktime`, `datetime.fromtimestamp`) is invisible on a UTC host and visible here.
# seed 0: +05:45 in winter, +06:45 in summer (a fractional offset AND daylight-saving switches)
PROCESS_ZONES = ["XST-5:45XDT-6:45,M3.5.0/2,M10.5.0/3", "XYZ4", "CET-1CEST,M3.5.0,M10.5.0/3", "<-0930>9:30", "UTC0", "JST-9",
                 "<+0545>-5:45", "PST8PDT,M3.2.0,M11.1.0"]


# The checks run the implementation under `python -O` (./check passes -O; child interpreters inherit PYTHONOPTIMIZE):
# a guard written as an `assert` disappears there, so it is not a guard (seeds C09-d1, C13-d1).  The harness itself uses
# no assert statements.
os.environ.setdefault("PYTHONOPTIMIZE", "1")


def set_process_zone(seed, zone=None):
    import time
    zone = zone or os.environ.get("PV_TZ") or PROCESS_ZONES[seed % len(PROCESS_ZONES)]
    os.environ["TZ"] = zone
    time.tzset()
    return zone


def main():
    ap = argparse.ArgumentParser()
    ap.add_argument("pid")
    ap.add_argument("--tier", default=os.environ.get("VERIF_TIER", "quick"), choices=["quick", "thorough"])
    ap.add_argument("--replay")
    ap.add_argument("--no-build", action="store_true", help="debug: skip A-C")
    args = ap.parse_args()
    pid = args.pid.upper()
    seed = int(os.environ.get("VERIF_SEED", "0") or 0)
    if args.replay:
        try:
            _c = json.load(open(args.replay if os.path.isabs(args.replay) else os.path.join(lib.ROOT, args.replay)))
            zone = set_process_zone(int(_c.get("seed", seed)), _c.get("process_tz"))
        except Exception:  # noqa
            zone = set_process_zone(seed)
    else:
        zone = set_process_zone(seed)
    ctx = lib.Ctx(pid, args.tier, seed)
    ctx.process_tz = zone
    try:
        mod = importlib.import_module("props." + pid.lower())
    except ImportError as e:
        print("no check for %s: %s" % (pid, e))
        return 2

    if args.replay:
        case = json.load(open(args.replay if os.path.isabs(args.replay) else os.path.join(lib.ROOT, args.replay)))
        rc = 0
        if not case.get("no_failing_input_found"):
            try:
                rc = mod.replay(ctx, case)
            except Exception:  # noqa
                traceback.print_exc()
                rc = 0
        if rc == 0 and "seed" in case and not os.environ.get("PV_REPLAY_NO_RERUN"):
            # the recorded input alone does not fail: the violation depended on the history of the run (a cache, shared
            # state, an operation sequence) or no single input was found.  The run is deterministic in (seed, tier):
            # re-run it.
            print("replay: recorded input alone does not reproduce; re-running the check with seed=%s tier=%s" % (
                case["seed"], case.get("tier", "quick")))
            env = dict(os.environ, VERIF_SEED=str(case["seed"]), PV_TZ=zone, PV_EVIDENCE_DIR=os.path.join(lib.ROOT, "replays", "_rerun_evidence"),
                       PV_REPLAY_DIR=os.path.join(lib.ROOT, "replays", "_rerun"))
            # (a full run: the generated files and the driver are rebuilt from the tree as it is now)
            cmd = [sys.executable, os.path.abspath(__file__), pid, "--tier", case.get("tier", "quick")]
            import subprocess
            p = subprocess.run(cmd, env=env, stdout=subprocess.PIPE, stderr=subprocess.STDOUT)
            out = p.stdout.decode(errors="replace")
            print(out[-1500:])
            rc = 1 if p.returncode == 1 else 0
        return rc

    props_file = os.path.join(lib.LEAN, "PV", "Props", pid + ".lean")
    props_module = "PV.Props." + pid

    if not args.no_build:
        # A regenerate
        try:
            changed = extract.regenerate()
            if changed:
                ctx.note("regenerated: " + ", ".join(changed))
        except Exception as e:  # noqa
            ctx.tie_broken("regenerate", "extract failed: %s\n%s" % (e, traceback.format_exc()[-800:]))
        # B build (driver first: it does not depend on the proofs)
        try:
            ok_d, log_d = lib.lake_build(["pvdriver"])
            if not ok_d:
                ctx.tie_broken("build-driver", log_d[-1500:])
                if os.path.exists(lib.LASTGOOD):
                    # the model no longer builds against the source (e.g. a regenerated constant disappeared): the last driver
                    # that did build still is the published model the oracle compares with, and shows where model and code part
                    lib.USE_LASTGOOD[0] = True
                    ctx.note("driver not buildable from the current tree: using the last good driver for the search")
                else:
                    ctx.driver_ok = False
            else:
                lib.remember_good_driver()
            equiv = dict(getattr(mod, "EQUIV", {}))     # T-C: {module: [theorem names]} generated kernel = model
            for m in getattr(mod, "EXTRA_PROPS", []):   # further files holding only property theorems (all are obligations)
                names = lib.theorems_of(os.path.join(lib.LEAN, m.replace(".", "/") + ".lean"))
                equiv[m] = [n[len(m) + 1:] if n.startswith(m + ".") else "::" + n for n in names]
            ok_p, log_p = lib.lake_build(list(mod.LEAN_TARGETS) + sorted(equiv))
        except Exception as e:  # noqa
            print("infrastructure failure: %s" % e)
            return 2
        ctx.obligations = lib.theorems_of(props_file)
        equiv_names = {m: [(n[2:] if n.startswith("::") else "%s.%s" % (m, n)) for n in names] for m, names in equiv.items()}
        for m in sorted(equiv_names):
            ctx.obligations += equiv_names[m]
        failed = []
        if not ok_p:
            errs = [l for l in log_p.split("\n") if "error" in l][:12]
            ctx.tie_broken("build-proofs", "\n".join(errs) or log_p[-1500:])
        # C audit
        if ok_p:
            res = stage(ctx, "audit", lambda: lib.audit_axioms([props_module] + sorted(equiv), ctx.obligations))
            if res:
                axioms, out = res
                ctx.axioms = axioms
                for n in ctx.obligations:
                    ax = axioms.get(n)
                    if ax is None:
                        failed.append(n + " (not found by #print axioms)")
                    elif not ax <= lib.ALLOWED_AXIOMS:
                        failed.append(n + " uses " + ", ".join(sorted(ax - lib.ALLOWED_AXIOMS)))
                    else:
                        ctx.discharged.append(n)
                if failed:
                    ctx.tie_broken("audit", "; ".join(failed))
            deps = set(lib.lean_deps(props_module))
            for m in equiv:
                deps |= lib.lean_deps(m)
            deps = sorted(deps)
            hits = lib.forbidden_tokens(deps)
            if hits:
                ctx.tie_broken("audit-grep", "; ".join(hits[:10]))
                ctx.discharged = []
            if args.tier == "thorough" and getattr(mod, "LEANCHECKER", True):
                def _lc():
                    import subprocess
                    with lib.lake_lock():
                        p = subprocess.run(["lake", "env", "leanchecker"] + deps, cwd=lib.LEAN, stdout=subprocess.PIPE,
                                           stderr=subprocess.STDOUT, timeout=3000)
                    ctx.note("leanchecker rc=%d on %d modules" % (p.returncode, len(deps)))
                    if p.returncode < 0 or p.returncode in (137, 143):
                        # killed by a signal (the machine ran out of memory: leanchecker replays every module): the second
                        # opinion is missing in this run, which is recorded; it is not a statement about the proofs
                        ctx.note("leanchecker was killed by the system (rc=%d): no second opinion in this run" % p.returncode)
                        ctx.assumptions.append("leanchecker did not complete in this run (killed, rc=%d)" % p.returncode)
                    elif p.returncode != 0:
                        ctx.tie_broken("leanchecker", p.stdout.decode(errors="replace")[-800:])
                stage(ctx, "leanchecker", _lc)
    else:
        ctx.obligations = lib.theorems_of(props_file)
        ctx.discharged = list(ctx.obligations)

    # D correspondence
    if ctx.driver_ok:
        stage(ctx, "correspondence", lambda: mod.correspond(ctx))
        if ctx.disagreements:
            ctx.tie_broken("correspondence", "%d disagreement(s); first: %s" % (
                len(ctx.disagreements), json.dumps(lib.jsonable(ctx.disagreements[0]))[:600]))
    # E oracle on the implementation
    stage(ctx, "oracle", lambda: mod.oracle(ctx))
    # F intensified search
    known = lib.load_known()
    def unknown_violations():
        out = []
        for v in ctx.violations:
            k = match_known(mod, known, v)
            if k is None:
                out.append(v)
        return out
    if ctx.ties_broken and not unknown_violations():
        ctx.intensified = True
        stage(ctx, "search", lambda: (mod.search(ctx) if hasattr(mod, "search") else mod.oracle(ctx)))

    # G classify
    new = unknown_violations()
    known_hit = {}
    for v in ctx.violations:
        k = match_known(mod, known, v)
        if k is not None:
            known_hit.setdefault(k["id"], (k, []))[1].append(v)
    for kid, (k, vs) in sorted(known_hit.items()):
        print("KNOWN-FINDING: property=%s %s [%s; %d case(s) this run]" % (pid, k["what"], kid, len(vs)))
    verdict = {"violations": len(new), "known_findings_hit": sorted(known_hit), "ties_broken": len(ctx.ties_broken),
               "no_failing_input_found": False}
    rc = 0
    if new:
        v0 = new[0]
        path = write_replay(ctx, "violation", {
            "property": pid, "kind": v0["kind"], "site": v0["site"], "input": v0["case"], "observed": v0["observed"],
            "required": v0["required"], "more": new[1:6], "ties_broken": ctx.ties_broken[:5], "seed": seed, "tier": args.tier, "process_tz": zone,
            "replay_cmd": "./check %s --replay <this file>" % pid})
        print("VIOLATION property=%s replay=%s" % (pid, path))
        rc = 1
    elif ctx.ties_broken:
        path = write_replay(ctx, "tie", {
            "property": pid, "no_failing_input_found": True, "seed": seed, "tier": args.tier, "process_tz": zone,
            "broken": ctx.ties_broken[:8],
            "first_disagreements": ctx.disagreements[:5],
            "theorems_registered": ctx.obligations, "theorems_discharged": ctx.discharged,
            "searched": {"counts": ctx.counts, "intensified": ctx.intensified}})
        verdict["no_failing_input_found"] = True
        verdict["violations"] = 1
        print("VIOLATION property=%s replay=%s no-failing-input-found" % (pid, path))
        rc = 1
    write_evidence(ctx, mod, verdict)
    print("%s %s tier=%s seed=%d theorems=%d/%d evals=%s ties_broken=%d wall=%.1fs" % (
        pid, "OK" if rc == 0 else "FAIL", ctx.tier, seed, len(ctx.discharged), len(ctx.obligations),
        sum(v for k, v in ctx.counts.items() if k.startswith("eval")), len(ctx.ties_broken), time.time() - ctx.t0))
    return rc


def match_known(mod, known, v):
    for k in known.get("known", []):
        if k.get("property") != mod.ID:
            continue
        try:
            if mod.match_known(k, v):
                return k
        except Exception:  # noqa
            continue
    return None


if __name__ == "__main__":
    try:
        rc = main()
    except KeyboardInterrupt:
        rc = 2
    except Exception:  # noqa  infrastructure failure: no verdict
        traceback.print_exc()
        rc = 2
    sys.exit(rc)
