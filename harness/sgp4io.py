"""Implementation-side and model-side traces of the SGP4 computation, and their comparison."""
import math
import warnings

import numpy as np

import lib

PARAM_NAMES = ["cosIO", "sinIO", "x3thm1", "x1mth2", "x7thm1", "xnodp", "aodp", "perigee", "apogee", "period",
               "c1", "c2", "c3", "c4", "c5", "omgcof", "xmdot", "omgdot", "xnodot", "xmcof", "xnodcf", "t2cof",
               "xlcof", "aycof", "cosXMO", "sinXMO", "delmo", "d2", "d3", "d4", "t3cof", "t4cof", "t5cof", "eta"]
PARAM_PRIVATE = {"betao": "_betao", "betao2": "_betao2", "xhdot1": "_xhdot1"}
KEP_ATTRS = {"xmp": "_xmp", "xnode": "_xnode", "tempe": "_tempe", "templ": "_templ", "a": "_a", "axn": "_axn", "ayn": "_ayn",
             "xlt": "_xlt", "elsq": "_elsq", "pl": "_pl", "r": "_r", "u": "_u", "rk": "rk"}
KEP_DICT = ["ecc", "radius", "theta", "eqinc", "ascn", "argp", "smjaxs", "rdotk", "rfdotk"]
ANGLES = {"theta", "ascn", "argp", "xmp", "xnode", "xlt", "capu", "epw", "u", "eqinc", "omega"}

MODE_NAMES = {2: "nearSimp", 3: "nearNorm", 1: "deep", 0: "zeroEcc"}


def classify_init_exc(e):
    from pyorbital import orbital
    if isinstance(e, orbital.OrbitalError):
        s = str(e)
        if s.startswith("Eccentricity"):
            return "eccRange"
        if s.startswith("Mean motion"):
            return "mmRange"
        if s.startswith("Inclination"):
            return "inclRange"
        return "OrbitalError?"
    if isinstance(e, NotImplementedError):
        return "deepSpace"
    return "exc:" + type(e).__name__


def classify_prop_exc(e):
    if isinstance(e, NotImplementedError):
        return "notImplemented"
    s = str(e.args[0]) if e.args else ""
    if isinstance(e, ValueError) and "eccentricity too low" in s:
        return "eccLow"
    if type(e) is Exception and s.startswith("Satellite crashed"):
        return "crashed"
    if type(e) is Exception and s.startswith("e**2 >= 1"):
        return "elsqGe1"
    return "exc:" + type(e).__name__


def tle_nums(tle):
    return [tle.excentricity, tle.inclination, tle.right_ascension, tle.arg_perigee, tle.mean_anomaly,
            tle.mean_motion, tle.bstar]


def impl_trace(l1, l2, ts_list, normalize=False, force=False):
    """Run the real code; ts_list are minutes since epoch (floats). Returns dict."""
    from pyorbital import orbital, tlefile
    out = {"elements": None, "init": None, "params": None, "steps": []}
    tle = tlefile.Tle("x", line1=l1, line2=l2)
    out["tle_nums"] = tle_nums(tle)
    with warnings.catch_warnings():
        warnings.simplefilter("ignore")
        with np.errstate(all="ignore"):
            try:
                oe = orbital.OrbitElements(tle)
            except Exception as e:  # noqa
                out["init"] = classify_init_exc(e) if isinstance(e, orbital.OrbitalError) else "exc-elements:" + type(e).__name__
                return out
            out["elements"] = {"eo": oe.excentricity, "xincl": oe.inclination, "xnodeo": oe.right_ascension,
                               "omegao": oe.arg_perigee, "xmo": oe.mean_anomaly, "xn_0": oe.mean_motion,
                               "xno": oe.original_mean_motion, "bstar": oe.bstar, "oe_sma": oe.semi_major_axis,
                               "oe_period": oe.period, "oe_perigee": oe.perigee}
            try:
                sg = orbital._SGDP4(oe)
            except Exception as e:  # noqa
                out["init"] = classify_init_exc(e)
                return out
            out["init"] = "ok"
            p = sg._params
            d = {n: getattr(p, n) for n in PARAM_NAMES}
            for k, a in PARAM_PRIVATE.items():
                d[k] = getattr(p, a)
            d["mode"] = MODE_NAMES.get(p.mode, str(p.mode))
            out["params"] = d
            epoch = oe.epoch
            for ts in ts_list:
                # the instant whose minutes-since-epoch is exactly ts (µs resolution handled by caller)
                step = {}
                try:
                    if force:
                        kepobj = orbital._Keplerians(p)
                        kepobj._utc_time = None
                        kepobj._get_timedelta_in_minutes = lambda: None
                        kepobj._ts = np.float64(ts)
                        kep = _calc_with_ts(kepobj, ts)
                    else:
                        if sg.mode != orbital.SGDP4_NEAR_NORM:
                            sg.propagate(epoch)   # raises
                        kepobj = orbital._Keplerians(p)
                        kep = _calc_with_ts(kepobj, ts)
                    step["prop"] = "ok"
                    for k in KEP_DICT:
                        step[k] = float(kep[k])
                    for k, a in KEP_ATTRS.items():
                        step[k] = float(getattr(kepobj, a))
                    pos, vel = orbital.kep2xyz(kep)
                    if normalize:
                        pos = pos / orbital.XKMPER
                        vel = vel / (orbital.XKMPER * orbital.XMNPDA / orbital.SECDAY)
                    step.update(px=float(pos[0]), py=float(pos[1]), pz=float(pos[2]),
                                vx=float(vel[0]), vy=float(vel[1]), vz=float(vel[2]))
                except Exception as e:  # noqa
                    step["prop"] = classify_prop_exc(e)
                out["steps"].append(step)
    return out


def _calc_with_ts(kepobj, ts):
    """_Keplerians.calculate with the time-difference step replaced by a given ts (the rest is the real code)."""
    kepobj._get_timedelta_in_minutes = lambda: setattr(kepobj, "_ts", np.float64(ts))
    return kepobj.calculate(None)


def model_line(nums, ts_list, normalize=False, force=False):
    return "sgp4 " + " ".join(lib.f2h(x) for x in nums) + (" 1" if normalize else " 0") + (" 1" if force else " 0") + \
        "".join(" " + lib.f2h(t) for t in ts_list)


def parse_model(line):
    parts = line.split(" | ")
    head = parts[0].split()
    out = {"elements": {}, "init": None, "params": {}, "steps": []}
    seen_init = False
    for tok in head:
        k, v = tok.split("=", 1)
        if k == "init":
            out["init"] = v
            seen_init = True
        elif k == "mode":
            out["params"]["mode"] = v
        elif not seen_init:
            out["elements"][k] = lib.h2f(v)
        else:
            out["params"][k] = lib.h2f(v)
    for p in parts[1:]:
        st = {}
        for tok in p.split():
            k, v = tok.split("=", 1)
            if k in ("prop",):
                st[k] = v
            elif k == "nrIters":
                st[k] = int(v)
            else:
                st[k] = lib.h2f(v)
        out["steps"].append(st)
    return out


def cmp_val(name, a, b, scale=1.0, rel=1e-11):
    if name in ANGLES:
        return lib.angle_close(a, b, max(1e-10, 10 * rel * max(1.0, abs(a)))) or lib.close(a, b, scale, rel)
    return lib.close(a, b, scale, rel)


def compare(impl, model, loose=False):
    """Returns list of (where, name, impl, model) disagreements."""
    bad = []
    rel = 1e-9 if loose else 1e-11
    if impl["elements"] is not None:
        for k, v in impl["elements"].items():
            if k in model["elements"] and not cmp_val(k, float(v), model["elements"][k], rel=rel):
                bad.append(("elements", k, float(v), model["elements"][k]))
    mi = model["init"]
    ii = impl["init"]
    if ii != mi:
        bad.append(("init", "outcome", ii, mi))
        return bad
    if ii != "ok":
        return bad
    for k, v in impl["params"].items():
        if k == "mode":
            if v != model["params"].get("mode"):
                bad.append(("params", "mode", v, model["params"].get("mode")))
            continue
        if v is None:
            continue
        mv = model["params"].get(k)
        if mv is None:
            continue
        if not cmp_val(k, float(v), mv, rel=rel):
            bad.append(("params", k, float(v), mv))
    for i, (si, sm) in enumerate(zip(impl["steps"], model["steps"])):
        pi, pm = si["prop"], sm["prop"]
        pm_c = "crashed" if pm in ("crashedA", "crashedRk") else pm
        if pi != pm_c:
            bad.append(("step%d" % i, "outcome", pi, pm))
            continue
        if pi != "ok":
            continue
        # where the drag polynomial has diverged (semi-major axis beyond a factor four of its epoch value: the statement
        # claims nothing beyond a factor two) the state is astronomically large or small and ill-conditioned: only the
        # outcome class is compared there
        aodp = model["params"].get("aodp")
        if aodp and sm.get("a") is not None and not (0.25 <= sm["a"] / aodp <= 4.0):
            continue
        # huge secular angles (diverged drag polynomial far from epoch) amplify ulp differences of sin/cos arguments
        big = max(abs(sm.get("xlt", 0.0)), abs(sm.get("xnode", 0.0)), abs(sm.get("xmp", 0.0)), 1.0)
        rel_s = rel * max(1.0, big / 1.0e3)
        for k, v in si.items():
            if k == "prop" or k not in sm:
                continue
            scale = 1.0
            if k in ("px", "py", "pz"):
                scale = math.sqrt(sm["px"] ** 2 + sm["py"] ** 2 + sm["pz"] ** 2)
            if k in ("vx", "vy", "vz"):
                scale = math.sqrt(sm["vx"] ** 2 + sm["vy"] ** 2 + sm["vz"] ** 2)
            if not cmp_val(k, v, sm[k], scale, rel=rel_s):
                bad.append(("step%d" % i, k, v, sm[k]))
    return bad
