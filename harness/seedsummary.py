"""Render seeded/SUMMARY.md from seeded/*/meta.json and result.json."""
import json
import os

ROOT = os.path.dirname(os.path.dirname(os.path.abspath(__file__)))
S = os.path.join(ROOT, "seeded")
rows = []
for n in sorted(os.listdir(S)):
    d = os.path.join(S, n)
    if not os.path.exists(os.path.join(d, "meta.json")):
        continue
    m = json.load(open(os.path.join(d, "meta.json")))
    r = json.load(open(os.path.join(d, "result.json"))) if os.path.exists(os.path.join(d, "result.json")) else {}
    first = ""
    notes = os.path.join(d, "notes.md")
    if os.path.exists(notes):
        for line in open(notes):
            line = line.strip().lstrip("#").strip()
            if line:
                first = line[:110]
                break
    stage = "proof obligation / correspondence only" if r.get("caught") and not r.get("with_failing_input") else \
        ("failing input" if r.get("caught") else "MISSED")
    ties = ",".join(sorted(set(t for t in r.get("ties_broken", []) if t)))
    rows.append("| %s | %s | %s | %s | %s | %s/%s | %s/%s |" % (
        n, m["property"], first.replace("|", "/"), stage, ties or "-", r.get("replay_on_changed_rc"), r.get("replay_on_unchanged_rc"),
        r.get("demo_on_changed_rc"), r.get("demo_on_unchanged_rc")))
out = ["# Seeded changes (written by independent sub-agents from the property text only) and what the checks report",
       "",
       "Each directory holds patch.diff, demo.py (fails with the change, passes without), notes.md, meta.json, result.json (last",
       "`harness/seedrun.py` run: quick tier of the property's check against a scratch copy of /repo with the patch applied) and",
       "replay.json (the replay the check wrote).  `ties` = which tie broke as well (build-proofs = a Lean obligation, incl. the",
       "T-C kernel equivalences; correspondence = model vs code).  replay = exit code of `./check <ID> --replay` on the changed /",
       "unchanged tree (1/0 wanted).",
       "",
       "| change | property | what | detected by | ties broken | replay changed/unchanged | demo changed/unchanged |",
       "|---|---|---|---|---|---|---|"] + rows
open(os.path.join(S, "SUMMARY.md"), "w").write("\n".join(out) + "\n")
print("\n".join(out[-len(rows):]))
