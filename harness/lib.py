"""Shared machinery of the pyorbital Lean-4 verification checks.

Protocol (DESIGN.md section 3):
  A regenerate   extract constants / tables from /repo's working tree -> lean/PV/Generated
  B build        lake build PV.Props.<ID> (+ the Mathlib-free driver)
  C audit        #print axioms of every theorem of Props/<ID>.lean, forbidden-token grep
  D correspond   model (Lean driver) vs implementation (pyorbital in-process)
  E oracle       the property itself evaluated on the implementation
  F intensify    larger search if a tie (A-D) broke and E found nothing
  G classify     violations against known_findings.json, verdict, evidence
"""
import fcntl
import hashlib
import json
import os
import random
import re
import struct
import subprocess
import sys
import time
import traceback

ROOT = os.path.dirname(os.path.dirname(os.path.abspath(__file__)))
LEAN = os.environ.get("PV_LEAN_DIR") or os.path.join(ROOT, "lean")
REPO = os.environ.get("PV_REPO", "/repo")
EVIDENCE_DIR = os.environ.get("PV_EVIDENCE_DIR") or os.path.join(ROOT, "evidence")  # override: mutation trials only
REPLAY_DIR = os.environ.get("PV_REPLAY_DIR") or os.path.join(ROOT, "replays")
CORPUS_DIR = os.path.join(ROOT, "corpus")
KNOWN_FILE = os.path.join(ROOT, "known_findings.json")
DRIVER = os.path.join(LEAN, ".lake", "build", "bin", "pvdriver")
ALLOWED_AXIOMS = {"propext", "Classical.choice", "Quot.sound"}
FORBIDDEN = re.compile(r"\b(sorry|admit|native_decide|bv_decide|implemented_by|unsafe)\b|^\s*axiom\s|maxHeartbeats\s+0\b")

os.environ.setdefault("PYORBITAL_VERIF", "1")
if REPO not in sys.path:
    sys.path.insert(0, REPO)


# ---------------------------------------------------------------- float codec
def f2h(x):
    return struct.pack(">d", float(x)).hex()


def h2f(s):
    return struct.unpack(">d", bytes.fromhex(s))[0]


def s2h(s):
    return s.encode("utf-8").hex() if s else "-"


def h2s(h):
    return "" if h == "-" else bytes.fromhex(h).decode("utf-8")


# ---------------------------------------------------------------- driver
class DriverError(Exception):
    pass


_PRIVATE_DRIVER = [None]
USE_LASTGOOD = [False]     # set by check.py when the driver cannot be built from the tree as it is now
LASTGOOD = DRIVER + ".lastgood"


def remember_good_driver():
    """After a successful build: keep a copy, so that the oracle still has the published model to compare with when a later
    source change makes the model (whose constants are regenerated from the source) unbuildable."""
    import shutil
    with lake_lock():
        if os.path.exists(DRIVER):
            try:
                if not os.path.exists(LASTGOOD) or os.path.getmtime(LASTGOOD) < os.path.getmtime(DRIVER):
                    shutil.copy2(DRIVER, LASTGOOD + ".tmp")
                    os.replace(LASTGOOD + ".tmp", LASTGOOD)
            except OSError:
                pass


def private_driver():
    """A per-process copy of the driver binary, taken under the lake lock: a concurrent check that relinks the driver
    (after a source change regenerated a model constant) cannot pull the binary away from under a running check."""
    if _PRIVATE_DRIVER[0] and os.path.exists(_PRIVATE_DRIVER[0]):
        return _PRIVATE_DRIVER[0]
    import atexit
    import shutil
    with lake_lock():
        src = DRIVER
        if USE_LASTGOOD[0]:
            src = LASTGOOD
        elif not os.path.exists(DRIVER):
            subprocess.run(["lake", "build", "pvdriver"], cwd=LEAN, stdout=subprocess.PIPE, stderr=subprocess.STDOUT, timeout=3000)
        if not os.path.exists(src):
            raise DriverError("driver binary missing: " + src)
        dst = DRIVER + ".run.%d" % os.getpid()
        shutil.copy2(src, dst)
    _PRIVATE_DRIVER[0] = dst
    atexit.register(lambda: os.path.exists(dst) and os.unlink(dst))
    return dst


class Driver:
    """Batch interface to the Lean model driver (line protocol)."""

    def __init__(self):
        self.path = private_driver()

    def run(self, lines, timeout=600):
        """Send all lines, return list of output lines (same length)."""
        if not lines:
            return []
        data = ("\n".join(lines) + "\n").encode()
        p = subprocess.run([self.path], input=data, stdout=subprocess.PIPE, stderr=subprocess.PIPE, timeout=timeout)
        out = p.stdout.decode().split("\n")
        if out and out[-1] == "":
            out.pop()
        if p.returncode != 0 or len(out) != len(lines):
            raise DriverError("driver failed rc=%s out=%d/%d stderr=%s" % (p.returncode, len(out), len(lines), p.stderr.decode()[-500:]))
        return out

    def run_parallel(self, lines, jobs=None, timeout=1800):
        """Split over processes for large batches."""
        jobs = jobs or min(16, os.cpu_count() or 4)
        if len(lines) < 2000 or jobs <= 1:
            return self.run(lines, timeout)
        from concurrent.futures import ThreadPoolExecutor
        chunk = (len(lines) + jobs - 1) // jobs
        parts = [lines[i:i + chunk] for i in range(0, len(lines), chunk)]
        with ThreadPoolExecutor(jobs) as ex:
            res = list(ex.map(lambda p: self.run(p, timeout), parts))
        return [x for r in res for x in r]


# ---------------------------------------------------------------- lake
class _Lock:
    def __init__(self, path):
        self.path = path

    def __enter__(self):
        self.f = open(self.path, "w")
        fcntl.flock(self.f, fcntl.LOCK_EX)
        return self

    def __exit__(self, *a):
        fcntl.flock(self.f, fcntl.LOCK_UN)
        self.f.close()


def lake_lock():
    os.makedirs(os.path.join(LEAN, ".lake"), exist_ok=True)
    return _Lock(os.path.join(LEAN, ".lake", "pv.lock"))


def lake_build(targets, timeout=3000):
    """Returns (ok, log)."""
    with lake_lock():
        p = subprocess.run(["lake", "build"] + list(targets), cwd=LEAN, stdout=subprocess.PIPE, stderr=subprocess.STDOUT, timeout=timeout)
    return p.returncode == 0, p.stdout.decode(errors="replace")


def theorems_of(path):
    """Names (fully qualified where a namespace line is present) of theorems in a Props file."""
    if not os.path.exists(path):
        return []
    src = open(path).read()
    src_nc = strip_lean_comments(src)
    ns = []
    names = []
    for line in src_nc.split("\n"):
        m = re.match(r"\s*namespace\s+(\S+)", line)
        if m:
            ns.append(m.group(1))
            continue
        m = re.match(r"\s*end\s+(\S+)", line)
        if m and ns and ns[-1].split(".")[-1] == m.group(1).split(".")[-1]:
            ns.pop()
            continue
        m = re.match(r"\s*(?:@\[[^\]]*\]\s*)?(?:private\s+|protected\s+)?theorem\s+([^\s:({\[]+)", line)
        if m:
            names.append(".".join(ns + [m.group(1)]))
    return names


def strip_lean_comments(src):
    out = []
    i = 0
    depth = 0
    n = len(src)
    while i < n:
        if src.startswith("/-", i):
            depth += 1
            i += 2
            continue
        if depth and src.startswith("-/", i):
            depth -= 1
            i += 2
            continue
        if depth:
            if src[i] == "\n":
                out.append("\n")
            i += 1
            continue
        if src.startswith("--", i):
            while i < n and src[i] != "\n":
                i += 1
            continue
        out.append(src[i])
        i += 1
    return "".join(out)


def lean_deps(module, seen=None):
    """Transitive PV.* imports of a module (source-level)."""
    seen = seen if seen is not None else set()
    if module in seen:
        return seen
    seen.add(module)
    path = os.path.join(LEAN, module.replace(".", "/") + ".lean")
    if not os.path.exists(path):
        return seen
    for line in open(path):
        m = re.match(r"\s*import\s+(PV\.\S+)", line)
        if m:
            lean_deps(m.group(1), seen)
    return seen


def forbidden_tokens(modules):
    hits = []
    for mod in modules:
        path = os.path.join(LEAN, mod.replace(".", "/") + ".lean")
        if not os.path.exists(path):
            continue
        src = strip_lean_comments(open(path).read())
        for ln, line in enumerate(src.split("\n"), 1):
            if FORBIDDEN.search(line):
                hits.append("%s:%d: %s" % (mod, ln, line.strip()[:100]))
    return hits


def audit_axioms(module, names, timeout=900):
    """#print axioms for each theorem; returns dict name -> set(axioms) or None when it failed."""
    if not names:
        return {}, ""
    modules = [module] if isinstance(module, str) else list(module)
    tmp = os.path.join(LEAN, ".lake", "audit_%s_%d.lean" % (modules[0].replace(".", "_"), os.getpid()))
    with open(tmp, "w") as f:
        for m in modules:
            f.write("import %s\n" % m)
        for n in names:
            f.write("#print axioms %s\n" % n)
    try:
        p = subprocess.run(["lake", "env", "lean", tmp], cwd=LEAN, stdout=subprocess.PIPE, stderr=subprocess.STDOUT, timeout=timeout)
        out = p.stdout.decode(errors="replace")
    finally:
        try:
            os.unlink(tmp)
        except OSError:
            pass
    res = {n: None for n in names}
    # output: "'name' depends on axioms: [a, b]" (possibly wrapped) or "'name' does not depend on any axioms"
    flat = re.sub(r"\n\s+", " ", out)
    for line in flat.split("\n"):
        m = re.match(r"^'(.+)' depends on axioms: \[([^\]]*)\]", line)
        if m:
            res[m.group(1)] = set(x.strip() for x in m.group(2).split(",") if x.strip())
            continue
        m = re.match(r"^'(.+)' does not depend on any axioms", line)
        if m:
            res[m.group(1)] = set()
    return res, out


# ---------------------------------------------------------------- findings
def known_match(mod, v):
    """The `known` entry of known_findings.json that lists the violation v = {"kind", "case", ...} of property mod.ID, or None
    (used by replays: a replay fails only for a violation the file does not list, like the check itself)."""
    for k in load_known().get("known", []):
        if k.get("property") != mod.ID:
            continue
        try:
            if mod.match_known(k, v):
                return k
        except Exception:  # noqa
            continue
    return None


def load_known():
    if not os.path.exists(KNOWN_FILE):
        return {"known": [], "fixed": []}
    return json.load(open(KNOWN_FILE))


# ---------------------------------------------------------------- context
class Ctx:
    def __init__(self, pid, tier, seed):
        self.pid = pid
        self.tier = tier
        self.seed = seed
        self.rng = random.Random((seed * 1000003) ^ int(hashlib.sha1(pid.encode()).hexdigest()[:8], 16))
        self.t0 = time.time()
        self.ties_broken = []      # list of dicts {stage, detail}
        self.disagreements = []    # correspondence disagreements (samples)
        self.violations = []       # property violations on the implementation
        self.counts = {}
        self.samples = []
        self.nontrivial = set()
        self.hist = {}
        self.obligations = []
        self.discharged = []
        self.axioms = {}
        self.assumptions = []
        self.notes = []
        self.exhaustive = None
        self.rule = ""
        self.intensified = False
        self._driver = None
        self.driver_ok = True

    # sizes
    def size(self, quick, thorough):
        n = thorough if self.tier == "thorough" else quick
        if self.intensified and self.tier != "thorough":
            n = max(n, min(thorough, quick * 8))
        return n

    def driver(self):
        if self._driver is None:
            self._driver = Driver()
        return self._driver

    def count(self, key, n=1):
        self.counts[key] = self.counts.get(key, 0) + n

    def bump(self, hist, key, n=1):
        h = self.hist.setdefault(hist, {})
        h[str(key)] = h.get(str(key), 0) + n

    def sample(self, case, limit=6):
        if len(self.samples) < limit:
            self.samples.append(case)

    def distinct(self, key):
        self.nontrivial.add(key if isinstance(key, (str, int, float, tuple)) else json.dumps(key, sort_keys=True, default=str))

    def tie_broken(self, stage, detail):
        self.ties_broken.append({"stage": stage, "detail": detail})

    def disagree(self, op, case, py, model, note=""):
        self.disagreements.append({"op": op, "case": case, "implementation": py, "model": model, "note": note})

    def violation(self, kind, case, observed, required, site=""):
        self.violations.append({"kind": kind, "case": case, "observed": observed, "required": required, "site": site})

    def note(self, s):
        self.notes.append(s)


def close(a, b, scale=1.0, rel=1e-11, abs_=1e-13):
    """Correspondence tolerance for float intermediates (DESIGN 2.3)."""
    import math
    if isinstance(a, float) and isinstance(b, float):
        if math.isnan(a) or math.isnan(b):
            return math.isnan(a) and math.isnan(b)
        if math.isinf(a) or math.isinf(b):
            return a == b
    return abs(a - b) <= rel * max(abs(scale), abs(a), abs(b)) * 1.0 + abs_


def angle_close(a, b, tol=1e-11):
    import math
    d = math.fmod(a - b, 2 * math.pi)
    if d > math.pi:
        d -= 2 * math.pi
    if d < -math.pi:
        d += 2 * math.pi
    return abs(d) <= tol


def jsonable(x):
    try:
        import numpy as np
        if isinstance(x, np.ndarray):
            return x.tolist()
        if isinstance(x, (np.floating,)):
            return float(x)
        if isinstance(x, (np.integer,)):
            return int(x)
        if isinstance(x, np.datetime64):
            return str(x)
    except ImportError:
        pass
    import datetime
    if isinstance(x, (datetime.datetime, datetime.date, datetime.timedelta)):
        return str(x)
    if isinstance(x, dict):
        return {str(k): jsonable(v) for k, v in x.items()}
    if isinstance(x, (list, tuple, set)):
        return [jsonable(v) for v in x]
    if isinstance(x, float):
        if x != x:
            return "nan"
        if x in (float("inf"), float("-inf")):
            return str(x)
        return x
    if isinstance(x, (str, int, bool)) or x is None:
        return x
    return repr(x)
