"""T-D ("translated source"): translate whitelisted *discrete* functions of the current source of /repo/pyorbital,
statement by statement, into Lean 4 `do` blocks over the hand-written prelude lean/PV/Py/Prelude.lean.

  lean/PV/Generated/PyUnicode.lean   character classes of the running interpreter's `unicodedata` (gen_unicode)
  lean/PV/Generated/Translated.lean  one Lean definition per whitelisted function (gen_translated)

lean/PV/Equiv/Translated*.lean prove, for all inputs, that each translated definition is the hand-written model function
the property theorems are about.  A source edit changes the generated definition; the proof then either still goes through
(a harmless rewrite) or the build fails (the protocol then searches for a failing input).

The translator REFUSES (raises TransError; harness/extract.regenerate then writes a stub that cannot be built) every
construct it has no rule for.  It never guesses.  Only `ast` is used: nothing of /repo is imported or run.

What is translated (one rule per construct, `e_*` / `s_*` methods of FnTrans):
  expressions  int / str / bool / None literals; names; `self.attr`; list and tuple literals; `{}` and str->str dict literals;
               `s[i]`, `s[a:b]` (negative and omitted bounds; no step); `+` on int / str / list; `-`, `*`, `%`, `//` on int;
               `==`, `!=`, `<`, `<=`, `>`, `>=`, `in`, `not in`, `is None`, `is not None`; `and` / `or` / `not` as truth values
               with short-circuit evaluation; `int(str)`, `len`, `str(str)`, `next(it)`, `isinstance(x, io.StringIO | str)`,
               `max(xs, key=os.path.getctime)`; the str methods strip / upper / isdigit / startswith / split() /
               split(<one character>) / join; dict `get`, `d[k]`, `k in d`; calls of other translated functions (a function
               is translated once per constant it is specialised to: `only_first=True/False`); `int * 10 ** -7` on floats
               through the uninterpreted operations of `FloatOps`
  statements   assignment (names, `self.attr`, `d[k]`, tuple unpacking of a tuple or of a 2-list), augmented assignment,
               `list.append`, if / elif / else, for over a str / list / dict / iterator (with `next` on the same iterator in
               the body), continue, break, return (also inside loops), raise of a builtin or module-defined exception,
               `try: <one statement> except <Class>:`, `with <declared context manager> as name:`, nested def, pass,
               logging calls (their arguments are evaluated, nothing else), docstrings
  typing       parameters, instance attributes and externals are typed in SPEC / CLASSES / EXTERNALS (by position);
               locals get the type of their first value; a value of another type is refused (at the top level of a
               function a name may be rebound to another type: a new Lean variable).  `Optional[T]` is `Option T`; an
               operation that needs the value unwraps with `Py.need` (TypeError) / `Py.needAttr` (AttributeError).
  cut points   everything taken from outside the subset is a PARAMETER of the Lean definition (EXTERNALS, GLOBALS, CUTS,
               CUT_CALLS, CONTEXT_MANAGERS, ABS_METHODS, KEYFUNCS); the generated header lists them per function.

Second wave (pyorbital/orbital.py and the sqlite archive of tlefile.py):
  while loops  `while cond: body` gets a fuel parameter `fuel_k : Nat` per loop: at most `fuel_k` passes; the condition is
               evaluated as often as Python evaluates it on the passes made; if it still holds afterwards the result is the
               marker `Exc.outOfFuel` (not a Python exception).  Equivalence theorems quantify over all fuels.
  unbound      a local declared `maybe_unbound` (read after a loop that may assign it zero times) is an `Option`; reading it
               unassigned is `UnboundLocalError`
  objects      attributes of a shared sub-object that may be absent (`self.orbit_elements.an_time`): a heap of optional
               slots with the trace of loads / stores in program order (monad `MS heap`: an exception does not undo what was
               done to the heap); a store (`self.db`, a sqlite3 connection): an abstract heap `DB` whose operations are
               stateful parameters; `with self.db:` is a transaction (the heap is restored when an exception leaves it)
  try          a body of several assignments to locals is accepted when the handler assigns every one of them again
  numbers      float literals (the decimal written in the source), `+ - * /`, `** n`, comparisons, `abs`, `max` / `min`,
               `int(x)` through the uninterpreted classes `FloatOps` / `FloatArith`; datetime64 / timedelta64 arithmetic
               through `TimeOps`; a name rebound to a value of another type at the top level is a new Lean variable; an int
               is never silently turned into a float by an assignment

Third wave (time representations: pyorbital/__init__.py, astronomy.py; `_get_max_parab`):
  tagged       a parameter typed `npval` is a tagged numpy / datetime value `Np.Val F` of the prelude (datetime naive / aware,
  values       datetime64 / timedelta64 scalar or array of a unit with its tick counts, float / int scalars and arrays,
               dask arrays, object arrays, memoryview).  `isinstance(x, float | dt.datetime)`, `hasattr(x, "<literal>")`,
               `np.datetime64(x)`, `np.datetime64("<literal>")`, `x.astype("<literal>")`, `np.asanyarray(x, dtype=np.timedelta64)`,
               `np.datetime_data(x.dtype)[0]`, `np.timedelta64(k, "<unit>")`, `-`, `/`, `+`, `type(t)(x)`, `t.__class__(x)`,
               `x.data`, `np.asarray(x, like=t)`, `x.tzinfo`, `x.replace(tzinfo=None)`, `dt.timezone.utc` are the prelude's
               INTERPRETED operations (NP_PATTERNS; not parameters; checked against the running numpy by
               harness/pytrans_selftest_np.py); an operation on a kind of value with no recorded behaviour is `Exc.unmodelled`
  expressions  `a if c else b` (only the chosen operand is evaluated); `x in (<string literals>)`; `float(<float>)`; a call
               of a parameter that is a callable (`fun(x)`: typed `fn`, may raise); a translated function of another module
               (the name must be bound by exactly one `from pyorbital[.mod] import name`)
  statements   `try: return e  except K: ...`; `while True:` (fuel; leaves only by return / raise; then `Exc.outOfFuel`);
               `with np.errstate(invalid="raise"):` — every float `+ - * / **` inside the block goes through `Fp.*`:
               FloatingPointError when the uninterpreted predicate `FloatInvalid` says numpy signals `invalid`
               (comparisons, abs, min, max do not signal); `except FloatingPointError`

Fourth wave (`SQLiteTLE.write_tle_txt`, `fetch_tles.run`):
  files        `with open(name, "w") as fid:` / `fid.write(text)`: the function's result carries the list of (file, text) per
               `write`, in order (`files__`; `[]`: nothing was opened); creating / truncating / closing the file is the
               parameter `open_write`
  loops        `for k, v in d.items():` over a dict the body does not change
  store        `self.db.execute(sql).fetchone()` (a stateful parameter: first row or None); `a, b = row` on an Optional row
               (TypeError on None); an f-string is accepted only as a declared cut point (the SQL text as a function of its hole)
  objects      a module-level function working on ONE stateful object (`FnSpec(heap=...)`): its constructor and methods are
               stateful parameters over an abstract state (`db = SQLiteTLE(...)`, `db.update_db(...)`)
  dispatch     `isinstance(x, dict)` on what a downloader method delivered (`Fetched`: dict source -> entries, or list): inside
               each branch the name holds the value of that kind; `getattr(obj, name)` as a parameter returning a callable

Fifth wave (the bulk readers behind `Downloader`, `get_equatorial_crossing_time`):
  expressions  `[e for x in xs]` (one `for`, no `if`): `mapM` — the first exception ends it; `Cls(args)` for a class of the
               same module whose `__init__` is translated: a new object (the value of the translated `__init__`); `sep.join`
               of items that may be None (TypeError)
  closures     a nested `def` that reads locals of the enclosing function is translated with those locals (and `self`) as
               leading parameters (`FnSpec(captured=...)`); its name used as a value is the closure over their current values
               (assigning a captured local afterwards is refused); a parameter that takes such a closure and works on the
               object's slots is declared `stateful="@Cls"`
  statements   `warnings.warn(msg, stacklevel=k)` (not kept; the message is evaluated); a test `param == "literal"` on a
               parameter the translation is specialised to prunes the dead branch; a hoisted local may be rebound to another
               type at the top level

Sixth wave (`Tle.__str__`):
  expressions  `[e for a, b in pairs if c]` (`filterMapM`); `dict(pairs)`: a NEW dict (`Py.dictOfPairs`); `io.StringIO()`: a
               local text stream (its content so far); `stream.getvalue()`; `list(self.__dict__.items())` is a cut point
               handing `self` (read-only) to a parameter — any other use of `self.__dict__` is refused
  statements   `import pprint` inside a function; `pprint.pprint(d, stream)` appends the parameter `pprint_text d`

Guards that keep the value semantics of the translation equal to Python's reference semantics (refusal otherwise):
  a local that may be unbound where it is read; a container that is changed in place while reachable under two names; a
  container parameter changed in place; a loop body that changes what the loop iterates over; a `try` body of more than
  one statement (assignments made before the exception would have to survive it); an `except K` where the body can raise a
  proper subclass of K; an `elif` test that may raise is nested into the else branch (a nested action in `else if` would be
  evaluated too early; likewise the right operand of `and` / `or` when it contains an action); default arguments that are
  not literals; `*args` / `**kwargs`, decorators, lambda, comprehensions, chained comparisons, slices with a step,
  `while ... else`, `global`, `del`, `yield`, classes.
Not kept: exception messages (their argument expressions are still evaluated), what logging prints, closing of files /
sessions at the end of a `with` block.
"""
import ast
import builtins
import os
import re
import sys

HERE = os.path.dirname(os.path.abspath(__file__))
REPO = os.environ.get("PV_REPO", "/repo")


class TransError(Exception):
    pass


# ------------------------------------------------------------------------------------------------ types
# 'str' 'char' 'int' 'bool' 'unit' 'none' 'fnref' 'filearg' 'msg'
# ('abs', name)  ('opt', t)  ('list', t)  ('tuple', (t, ...))  ('dict', k, v)  ('iter', t)  ('float',) = abstract F
F = ("abs", "F")
T64 = ("abs", "T")
TD = ("abs", "TD")
VEC = ("abs", "Vec")
UTC = ("abs", "UTC")
FN = ("abs", "Fn")
FFN = ("fn", (F,), F)    # a callable argument `fun`: float -> float, may raise
NPV = "npval"          # a tagged numpy / datetime value: `Np.Val F` of the prelude


def opt(t):
    return ("opt", t)


def lst(t):
    return ("list", t)


def lean_type(t):
    if t == "str":
        return "Str"
    if t == "char":
        return "Char"
    if t == "int":
        return "Int"
    if t == "bool":
        return "Bool"
    if t == "unit":
        return "Unit"
    if t == "fnref":
        return "FnRef"
    if t == "filearg":
        return "(FileArg IO)"
    if t == "response":
        return "Response"
    if isinstance(t, tuple) and t[0] == "fetched":
        return "(Fetched %s)" % lean_type(t[1])
    if t == "wstream":
        return "Str"
    if t == NPV:
        return "(Np.Val F)"
    if t == "tz":
        return "Np.Tz"
    if isinstance(t, tuple):
        if t[0] == "abs":
            return t[1]
        if t[0] == "fn":
            return "(" + " → ".join([lean_type(x) for x in t[1]] + ["M " + lean_type(t[2])]) + ")"
        if t[0] == "fnms":
            return "(" + " → ".join([lean_type(x) for x in t[1]] + ["MS %s %s" % (HEAP_TYPES[t[3]], lean_type(t[2]))]) + ")"
        if t[0] == "opt":
            return "(Option %s)" % lean_type(t[1])
        if t[0] == "list":
            return "(List %s)" % lean_type(t[1])
        if t[0] == "iter":
            return "(Iter %s)" % lean_type(t[1])
        if t[0] == "tuple":
            return "(" + " × ".join(lean_type(x) for x in t[1]) + ")"
        if t[0] == "dict":
            return "(Dict %s %s)" % (lean_type(t[1]), lean_type(t[2]))
        if t[0] == "self":
            return SELF_TYPES[t[1]]
    raise TransError("no Lean type for %r" % (t,))


SELF_TYPES = {}
INHABITED_NEEDED = set()      # type variables for which a hoisted declaration needs a placeholder value


def type_vars(t, acc):
    if t == "filearg":
        acc.add("IO")
    if t == NPV:
        acc.add("F")
    if isinstance(t, tuple):
        if t[0] == "abs":
            acc.add(t[1])
        elif t[0] == "tuple":
            for x in t[1]:
                type_vars(x, acc)
        elif t[0] == "self":
            for v in SELF_TVARS[t[1]]:
                acc.add(v)
        elif t[0] in ("fn", "fnms"):
            for x in t[1]:
                type_vars(x, acc)
            type_vars(t[2], acc)
            if t[0] == "fnms":
                for v in HEAP_TVARS[t[3]]:
                    acc.add(v)
        else:
            for x in t[1:]:
                type_vars(x, acc)
    return acc


SELF_TVARS = {}


def placeholder(t):
    """value of a hoisted declaration; the definite-assignment check guarantees it is never read"""
    if t in ("str",):
        return "([] : Str)"
    if t == "int":
        return "(0 : Int)"
    if t == "bool":
        return "false"
    if t == "filearg":
        return "FileArg.none"
    if t == NPV:
        return "(Np.Val.memoryview : Np.Val F)"
    if t == "tz":
        return "Np.Tz.utc"
    if isinstance(t, tuple):
        if t[0] in ("list", "dict", "iter"):
            return "([] : %s)" % lean_type(t)
        if t[0] == "opt":
            return "(none : %s)" % lean_type(t)
        if t[0] == "tuple":
            return "(" + ", ".join(placeholder(x) for x in t[1]) + ")"
    if t == "fnref":
        return "(default : FnRef)"
    if t == "response":
        return "(default : Response)"
    if isinstance(t, tuple) and t[0] == "abs":
        INHABITED_NEEDED.add(t[1])
        return "(default : %s)" % t[1]
    raise TransError("a variable of type %s is first assigned inside a branch and used after it; no placeholder" % (t,))


LEAN_KEYWORDS = {"at", "from", "fun", "open", "with", "end", "do", "then", "else", "if", "in", "let", "have", "show", "by",
                 "match", "return", "where", "for", "mut", "try", "catch", "finally", "break", "continue", "unless", "namespace",
                 "section", "def", "theorem", "instance", "class", "structure", "inductive", "import", "local", "private",
                 "protected", "variable", "universe", "set_option", "deriving", "extends", "macro", "syntax", "notation",
                 "prefix", "infix", "postfix", "Type", "Prop", "Sort", "true", "false", "some", "none", "pure", "throw", "using",
                 "default", "abbrev", "example", "attribute", "export", "mutual", "partial", "termination_by", "nomatch", "nofun",
                 "calc", "exists", "forall", "λ", "self_", "id", "not", "repeat", "while"}


def lname(n):
    if not re.fullmatch(r"[A-Za-z_][A-Za-z0-9_]*", n):
        raise TransError("identifier %r" % n)
    if n in LEAN_KEYWORDS or n == "_":
        return n + "_py"
    return n


def char_lit(c):
    o = ord(c)
    if c == "'":
        return "'\\''"
    if c == "\\":
        return "'\\\\'"
    if c == "\n":
        return "'\\n'"
    if c == "\t":
        return "'\\t'"
    if 32 <= o < 127:
        return "'%s'" % c
    if 0xD800 <= o < 0xE000:
        raise TransError("a lone surrogate in a string literal")
    return "(Char.ofNat %d)" % o


def str_lit(s):
    if s == "":
        return "([] : Str)"
    return "[" + ", ".join(char_lit(c) for c in s) + "]"


BUILTIN_EXC = {"ValueError", "IndexError", "KeyError", "TypeError", "AttributeError", "StopIteration", "OSError",
               "ZeroDivisionError"}
# what the prelude's own operations raise
PRELUDE_RAISES = {"ValueError", "IndexError", "KeyError", "TypeError", "AttributeError", "StopIteration", "ZeroDivisionError"}


class E:
    """a translated expression: Lean code, Python-side type, monadic (of type `M t`) or pure"""
    __slots__ = ("code", "ty", "mon")

    def __init__(self, code, ty, mon=False):
        self.code, self.ty, self.mon = code, ty, mon

    def sub(self):
        return "(← %s)" % self.code if self.mon else self.code


def paren(code):
    if re.fullmatch(r"[A-Za-z_][A-Za-z0-9_.']*", code) or (code[0] in "([" and _balanced_whole(code)):
        return code
    return "(" + code + ")"


def _balanced_whole(code):
    depth = 0
    for i, ch in enumerate(code):
        if ch in "([":
            depth += 1
        elif ch in ")]":
            depth -= 1
            if depth == 0 and i != len(code) - 1:
                return False
    return depth == 0


# ------------------------------------------------------------------------------------------------ the whitelist
class Ext:
    """an external callable / global: becomes a parameter of every translated function that (transitively) uses it"""

    def __init__(self, param, args, ret, raises=(), doc="", kwargs=None, argnames=None, none_typeerror=False,
                 stateful=None):
        self.stateful = stateful     # name of the heap type variable: the external reads / changes the object's store
        self.param, self.args, self.ret, self.raises, self.doc = param, list(args), ret, tuple(raises), doc
        self.argnames = argnames     # parameter names of the external, so that keyword arguments can be bound
        self.none_typeerror = none_typeerror   # passing None raises TypeError (checked against CPython for this callable)
        self.kwargs = kwargs or {}     # keyword arguments that must be present with exactly this source text

    @property
    def mon(self):
        return bool(self.raises) or bool(self.stateful)

    def lean_sig(self):
        ret = lean_type(self.ret)
        if self.stateful and self.stateful.startswith("@"):
            ret = "MS %s %s" % (HEAP_TYPES[self.stateful[1:]], ret)
        elif self.stateful:
            ret = "MS %s %s" % (self.stateful, ret)
        elif self.mon:
            ret = "M " + ret
        if not self.args:
            return ret
        return " → ".join([lean_type(a) for a in self.args] + [ret])


# externals by the dotted name of the callee as written in the source
EXTERNALS = {
    "float": Ext("float_", ["str"], F, ["ValueError"], "builtin `float(str)`"),
    "int@field": Ext("int_", ["str"], "int", ["ValueError"], "builtin `int(str)` on a TLE field (cut point)"),
    "_decode": Ext("decode_", [("abs", "Raw")], "str", ["UnicodeDecodeError"], "`_decode(itm)`: a line as `str` (bytes are decoded as UTF-8)"),
    "requests.get": Ext("requests_get", ["str"], "response",
                        ["requests.exceptions.Timeout", "requests.exceptions.RequestException"],
                        "`requests.get(uri, timeout=15)`; `requests.exceptions.Timeout` stands for that class and its subclasses",
                        kwargs={"timeout": "15"}),
    "_Keplerians": Ext("new_Keplerians", [("abs", "Params")], ("abs", "Keplerians"), [],
                       "`_Keplerians(params)`: a NEW object holding `params` (its other attributes start as None)"),
    "vec[]": Ext("vec_get", [VEC, "int"], F, [], "`v[i]` on a position / velocity array"),
    "np.datetime64": Ext("np_datetime64", [("abs", "TimeArg")], T64, ["ValueError"], "`np.datetime64(x)` of a caller-supplied time"),
    "astronomy._days": Ext("astronomy_days", [TD], F, [], "`astronomy._days(td)`: a timedelta64 as a float number of days"),
    "os.path.join": Ext("os_path_join", ["str", "str"], "str", [], "`os.path.join(a, b)`"),
    "os.path.isfile": Ext("os_path_isfile", ["str"], "bool", [], "`os.path.isfile(p)`"),
    "os.path.exists": Ext("os_path_exists", ["str"], "bool", [], "`os.path.exists(p)`"),
    "glob.glob": Ext("glob_glob", ["str"], lst("str"), [], "`glob.glob(pattern)`", none_typeerror=True),
    "io.StringIO": Ext("io_StringIO", ["str"], ("abs", "IO"), [], "`io.StringIO(text)`"),
    "read_tle_from_mmam_xml_file": Ext("read_tle_from_mmam_xml_file", ["str"], "str", ["OSError", "xml.ParseError", "AttributeError"],
                                       "`read_tle_from_mmam_xml_file(fname)` (XML parsing)"),
}
CUT_CALLS = {
    "_get_uris_and_open_func": Ext("get_uris_and_open_func", ["filearg"], ("tuple", (("abs", "U"), ("abs", "O"))),
                                   ["ValueError", "OSError", "xml.ParseError", "AttributeError", "TypeError"],
                                   "`_get_uris_and_open_func(tle_file)` (cut point; tied separately)", argnames=["tle_file"]),
    "_get_first_tle": Ext("get_first_tle", [("abs", "U"), ("abs", "O"), "str"], "str",
                          ["StopIteration", "KeyError", "OSError", "UnicodeDecodeError"],
                          "`_get_first_tle(uris, open_func, platform)` (cut point; tied separately)",
                          argnames=["uris", "open_func", "platform"]),
}
CUT_CALLS["_get_min_bounded"] = Ext("get_min_bounded", [FFN, F, F, F], F, ["Exception"],
                                     "`_get_min_bounded(fun, start, end, tol)` (scipy's bounded Brent minimiser)",
                                     argnames=["fun", "start", "end", "tol"])
ABS_METHODS = {
    ("Keplerians", "calculate"): Ext("keplerians_calculate", [("abs", "Keplerians"), ("abs", "TimeArg")], ("abs", "Kep"), ["Exception"],
                                     "`kep.calculate(utc_time)` on the `_Keplerians` object created for this call (the kernel: T-C)",
                                     argnames=["self", "utc_time"]),
    ("Session", "post"): Ext("session_post", [("abs", "Session"), "str", ("dict", "str", "str")], "response",
                             ["requests.exceptions.RequestException"], "`session.post(url, data=credentials)`",
                             argnames=["self", "url", "data"]),
    ("Session", "get"): Ext("session_get", [("abs", "Session"), "str"], "response",
                            ["requests.exceptions.RequestException"], "`session.get(url)`", argnames=["self", "url"]),
}
SQLERR = ["sqlite3.IntegrityError", "sqlite3.OperationalError"]
# operations on the store (`self.db`) of an object: (class, method / function, argument types) -> external
STORE_METHODS = {
    ("SQLiteTLE", "execute", ("str",)): Ext("db_execute", ["str"], "unit", SQLERR, "`self.db.execute(sql)`", stateful="DB"),
    ("SQLiteTLE", "execute", ("str", "int", "str")): Ext("db_execute_int_str", ["str", "int", "str"], "unit", SQLERR,
                                                         "`self.db.execute(sql, (int, str))`", stateful="DB"),
    ("SQLiteTLE", "execute", ("str", "str", "str", "str", "str")): Ext(
        "db_execute_str4", ["str", "str", "str", "str", "str"], "unit", SQLERR, "`self.db.execute(sql, (str, str, str, str))`",
        stateful="DB"),
    ("SQLiteTLE", "table_exists", ("int",)): Ext("table_exists_int", ["int"], "bool", [], "`table_exists(self.db, <int>)`",
                                                 stateful="DB"),
    ("SQLiteTLE", "table_exists", ("str",)): Ext("table_exists_str", ["str"], "bool", [], "`table_exists(self.db, <str>)`",
                                                 stateful="DB"),
}
STORE_FETCHONE = {
    "SQLiteTLE": Ext("db_fetchone_str2", ["str"], ("opt", ("tuple", ("str", "str"))), SQLERR,
                     "`self.db.execute(sql).fetchone()` for a query of two text columns: the first row, or None", stateful="DB"),
}
HEAP_OPENERS = {
    "sqlite3.connect": Ext("sqlite3_connect", ["str"], "unit", ["sqlite3.OperationalError"],
                           "`self.db = sqlite3.connect(path)`: from here on the store is the database in that file", stateful="DB"),
}
# attributes of argument objects: read through an accessor parameter
OBJ_ATTRS = {
    ("TleObj", "satnumber"): Ext("tle_satnumber", [("abs", "TleObj")], "str", [], "`tle.satnumber`"),
    ("TleObj", "line1"): Ext("tle_line1", [("abs", "TleObj")], "str", [], "`tle.line1`"),
    ("TleObj", "line2"): Ext("tle_line2", [("abs", "TleObj")], "str", [], "`tle.line2`"),
}
# attributes SET on argument objects that the translated code never reads: the store is not kept
OBJ_ATTRS_NOT_KEPT = {("TleObj", "platform_name")}
SELF_METHOD_EXTS = {
    ("Orbital", "get_position"): Ext("get_position", [T64], ("tuple", (VEC, VEC)), ["Exception"],
                                     "`self.get_position(t, normalize=False)`: (position, velocity) in km, km/s (the SGP4 kernel, "
                                     "tied by T-C); as a parameter it does not touch the cache slots", kwargs={"normalize": "False"}),
    ("Orbital", "get_lonlatalt"): Ext("get_lonlatalt", [UTC], ("tuple", (F, F, F)), ["Exception"],
                                      "`self.get_lonlatalt(utc_time)`: (longitude, latitude in degrees, altitude in km) (the "
                                      "kernel: T-C)"),
    ("Orbital", "get_last_an_time"): Ext("get_last_an_time", [T64], T64, ["Exception"],
                                         "`self.get_last_an_time(t)` (cut point; tied separately); does not touch the cache slots"),
}
OPEN_W = Ext("open_write", ["str"], ("abs", "WFile"), ["OSError"],
             "`with open(fname, \"w\") as fid`: the file created / truncated for writing (closing it on exit is not kept)")
CONTEXT_MANAGERS = {
    "requests.Session": Ext("requests_Session", [], ("abs", "Session"), [],
                            "`with requests.Session() as session` (closing the session on exit is not kept)"),
    "open": Ext("open_text_lines", ["str"], lst("str"), ["OSError", "UnicodeDecodeError"],
                "`with open(filename, \"r\") as fid`: the lines the text file yields, line ends included (universal newlines); "
                "a decoding error while iterating is not kept", kwargs={"#1": "'r'"}),
    "_uri_open": Ext("uri_open", ["filearg", "fnref"], ("iter", ("abs", "Raw")),
                     ["OSError", "urllib.error.URLError", "ValueError"],
                     "`with _uri_open(uri, open_func) as fid`: the iterator over the lines of the opened source "
                     "(closing it on exit is not kept)"),
}
# module globals / environment read by name
GLOBALS = {
    "SATELLITES": Ext("SATELLITES", [], ("dict", "str", "str"), [], "module global `SATELLITES` (read from platforms.txt at import)"),
    "PKG_CONFIG_DIR": Ext("PKG_CONFIG_DIR", [], "str", [], "module global `PKG_CONFIG_DIR`"),
    "TLE_URLS": Ext("TLE_URLS", [], lst("str"), [], "module global `TLE_URLS`"),
    "os.environ": Ext("os_environ", [], ("dict", "str", "str"), [], "`os.environ`"),
}
# expression cut points: an expression of exactly this shape (holes `_A`, `_B`, ... in source order) is one external call
CUTS = [
    ("np.datetime64(dt.datetime.strptime(_A, '%y') + dt.timedelta(days=_B - 1), 'us')",
     Ext("epoch_of_year_and_day", ["str", F], T64, ["ValueError", "OverflowError"],
         "the expression `np.datetime64(dt.datetime.strptime(A, \"%y\") + dt.timedelta(days=B - 1), \"us\")` as a function of (A, B)")),
]
CUTS += [
    ("'fetch_plain_tle' in _A['downloaders']",
     Ext("config_has_fetch_plain_tle", [("abs", "Config")], "bool", ["KeyError", "TypeError"],
         "the expression `\"fetch_plain_tle\" in config[\"downloaders\"]`")),
    ("_A['downloaders']['fetch_plain_tle']",
     Ext("config_fetch_plain_tle", [("abs", "Config")], ("dict", "str", lst("str")), ["KeyError", "TypeError"],
         "the expression `config[\"downloaders\"][\"fetch_plain_tle\"]`: source name -> list of URIs, in dict order")),
    ("_parse_tles_for_downloader((_A,), io.StringIO)",
     Ext("parse_tles_text", ["str"], lst(("abs", "E")), ["ChecksumError", "ValueError", "IndexError", "KeyError", "StopIteration"],
         "the expression `_parse_tles_for_downloader((text,), io.StringIO)` (C10's subject) as a function of the text")),
]
CUTS += [
    ("_B % ','.join([str(key) for key in _A['platforms']])",
     Ext("spacetrack_query_url", [("abs", "Config"), "str"], "str", ["KeyError", "TypeError"],
         "the expression `template % \",\".join([str(key) for key in config[\"platforms\"]])` as a function of (config, template)")),
    ("_A['downloaders']['fetch_spacetrack']['user']",
     Ext("config_spacetrack_user", [("abs", "Config")], "str", ["KeyError", "TypeError"],
         "the expression `config[\"downloaders\"][\"fetch_spacetrack\"][\"user\"]`")),
    ("_A['downloaders']['fetch_spacetrack']['password']",
     Ext("config_spacetrack_password", [("abs", "Config")], "str", ["KeyError", "TypeError"],
         "the expression `config[\"downloaders\"][\"fetch_spacetrack\"][\"password\"]`")),
]
CUTS += [
    # --- Orbital.get_next_passes: the numeric kernels, at the granularity of lean/PV/Model/Passes.lean
    ("_A + np.array([dt.timedelta(minutes=minutes) for minutes in range(_B * 60)])",
     Ext("minute_grid", [UTC, "int"], ("abs", "Times"), [], "`utc_time + np.array([timedelta(minutes=m) for m in range(length * 60)])`")),
    ("self.get_observer_look(_A, _B, _C, _D)[1] - _E",
     Ext("elevation_samples", [("abs", "Times"), F, F, F, F], lst(F), ["Exception"],
         "`self.get_observer_look(times, lon, lat, alt)[1] - horizon`: the elevation samples minus the horizon")),
    ("np.where(np.diff(np.sign(_A)))[0]",
     Ext("sign_changes", [lst(F)], lst("int"), [], "`np.where(np.diff(np.sign(elev)))[0]`: the indices i where sign(elev[i+1]) != sign(elev[i])")),
    ("partial(self._elevation, _A, _B, _C, _D, _E)",
     Ext("elevation_fn", [UTC, F, F, F, F], FN, [], "`partial(self._elevation, utc_time, lon, lat, alt, horizon)`")),
    ("partial(self._elevation_inv, _A, _B, _C, _D, _E)",
     Ext("elevation_inv_fn", [UTC, F, F, F, F], FN, [], "`partial(self._elevation_inv, utc_time, lon, lat, alt, horizon)`")),
    ("_get_root(_A, _B, _C + 1.0, tol=_D / 60.0)",
     Ext("get_root", [FN, "int", "int", F], F, ["Exception"],
         "`_get_root(f, g, g' + 1.0, tol=tol / 60.0)` (brentq on [g, g' + 1])")),
    ("_get_max_parab(_A, _B, _C, tol=_D / 60.0)",
     Ext("get_max_parab", [FN, F, F, F], F, ["Exception"], "`_get_max_parab(f, start, end, tol=tol / 60.0)`")),
    ("_A + dt.timedelta(minutes=_B)",
     Ext("add_minutes", [UTC, F], UTC, ["OverflowError", "ValueError"], "`t + dt.timedelta(minutes=m)`")),
    ("int(np.floor(_A))", Ext("int_floor", [F], "int", ["ValueError", "OverflowError"], "`int(np.floor(x))`")),
    ("int(np.ceil(_A) + 1)", Ext("int_ceil_plus_1", [F], "int", ["ValueError", "OverflowError"], "`int(np.ceil(x) + 1)`")),
    ("np.argmax(_A)", Ext("np_argmax", [lst(F)], "int", ["ValueError"], "`np.argmax(xs)`: index of the first maximum (ValueError on an empty array)")),
]
CUTS += [
    ("_A + dt.timedelta(hours=_B)",
     Ext("add_hours", [UTC, F], UTC, ["OverflowError", "ValueError"], "`t + dt.timedelta(hours=h)`")),
]
CUTS += [
    ("np.datetime64(_get_tz_unaware_utctime(_A)) + np.timedelta64(0, 'us')",
     Ext("lift_time_to_us", [("abs", "TimeArg")], T64, ["ValueError"],
         "`np.datetime64(_get_tz_unaware_utctime(t)) + np.timedelta64(0, \"us\")`: the instant at (at least) microsecond resolution")),
]
CUTS += [
    ("_A.epoch.item().isoformat()", Ext("tle_epoch_isoformat", [("abs", "TleObj")], "str", [], "`tle.epoch.item().isoformat()`")),
    ("_utcnow().isoformat()", Ext("utcnow_isoformat", [], "str", ["OSError"], "`_utcnow().isoformat()` (the wall clock)")),
    ("SATID_TABLE.format(_A)", Ext("satid_table_text", ["int"], "str", [], "`SATID_TABLE.format(num)` (SQL text)")),
    ("SATID_VALUES.format(_A)", Ext("satid_values_text", ["int"], "str", [], "`SATID_VALUES.format(num)` (SQL text)")),
]
WC = ("abs", "WriterConfig")
CUTS += [
    ("_A.get('write_always', False)", Ext("writer_config_write_always", [WC], "bool", [],
                                          "the truth value of `writer_config.get(\"write_always\", False)`")),
    ("_A.get('write_name', False)", Ext("writer_config_write_name", [WC], "bool", [],
                                        "the truth value of `writer_config.get(\"write_name\", False)`")),
    ("_A['output_dir']", Ext("writer_config_output_dir", [WC], "str", ["KeyError"], "`writer_config[\"output_dir\"]`")),
    ("_A['filename_pattern']", Ext("writer_config_filename_pattern", [WC], "str", ["KeyError"],
                                   "`writer_config[\"filename_pattern\"]`")),
    ("f\"SELECT epoch, tle FROM '{_A:d}' ORDER BY epoch DESC LIMIT 1\"",
     Ext("select_newest_text", ["int"], "str", [],
         "the f-string `SELECT epoch, tle FROM '{satid:d}' ORDER BY epoch DESC LIMIT 1` as a function of satid (SQL text)")),
    ("(_utcnow() - _A).total_seconds() / 3600.0",
     Ext("age_hours", [("abs", "DateTime")], F, [], "`(_utcnow() - d).total_seconds() / 3600.` (the wall clock; only logged)")),
]
EXTERNALS["_utcnow"] = Ext("utcnow", [], ("abs", "Now"), [], "`_utcnow()`: the wall clock read for the file name")
EXTERNALS["os.path.dirname"] = Ext("os_path_dirname", ["str"], "str", [], "`os.path.dirname(p)`")
EXTERNALS["os.makedirs"] = Ext("os_makedirs", ["str"], "unit", ["OSError"],
                               "`os.makedirs(p)`: only whether it raises is kept (the directory it creates is not)")
EXTERNALS["dt.datetime.fromisoformat"] = Ext("datetime_fromisoformat", ["str"], ("abs", "DateTime"), ["ValueError"],
                                             "`dt.datetime.fromisoformat(text)`")
ABS_METHODS[("Now", "strftime")] = Ext("now_strftime", [("abs", "Now"), "str"], "str", ["ValueError"],
                                       "`now.strftime(pattern)`", argnames=["self", "format"])
CFG = ("abs", "Config")
ARCH = ("abs", "Archive")
CUTS += [
    ("read_config(sys.argv[1])", Ext("read_config_argv", [], CFG, ["IndexError", "OSError", "yaml.YAMLError"],
                                     "`read_config(sys.argv[1])`: the parsed configuration file named on the command line")),
    ("'logging' in _A", Ext("config_has_logging", [CFG], "bool", ["TypeError"], "`\"logging\" in config`")),
    ("logging.config.dictConfig(_A['logging'])", Ext("logging_dictConfig", [CFG], "unit", ["ValueError", "KeyError", "TypeError"],
                                                      "`logging.config.dictConfig(config[\"logging\"])` (what it configures is not kept)")),
    ("logging.basicConfig(level=logging.INFO)", Ext("logging_basicConfig", [], "unit", [], "`logging.basicConfig(level=logging.INFO)` (not kept)")),
    ("SQLiteTLE(_A['database']['path'], _B['platforms'], _C['text_writer'])",
     Ext("open_archive", [CFG, CFG, CFG], ARCH, ["KeyError", "TypeError", "sqlite3.OperationalError"],
         "`SQLiteTLE(a[\"database\"][\"path\"], b[\"platforms\"], c[\"text_writer\"])`: the archive object; from here on the "
         "state is this object's", stateful="AS")),
    ("_A['downloaders']", Ext("config_downloaders", [CFG], lst("str"), ["KeyError", "TypeError"],
                              "`config[\"downloaders\"]`: the names it yields when iterated, in order")),
]
EXTERNALS["Downloader"] = Ext("new_Downloader", [CFG], ("abs", "DownloaderObj"), ["Exception"], "`Downloader(config)`")
EXTERNALS["getattr"] = Ext("downloader_getattr", [("abs", "DownloaderObj"), "str"], ("fn", (), ("fetched", ("abs", "E"))),
                           ["AttributeError"], "`getattr(downloader, name)`: the bound method; calling it delivers a dict "
                           "source -> entries or a list of entries (or raises)")
ABS_METHODS[("Archive", "update_db")] = Ext("archive_update_db", [ARCH, ("abs", "E"), "str"], "unit", ["Exception"],
                                            "`db.update_db(tle, source)`", argnames=["self", "tle", "source"], stateful="AS")
ABS_METHODS[("Archive", "write_tle_txt")] = Ext("archive_write_tle_txt", [ARCH], "unit", ["Exception"], "`db.write_tle_txt()`",
                                                argnames=["self"], stateful="AS")
ABS_METHODS[("Archive", "close")] = Ext("archive_close", [ARCH], "unit", ["Exception"], "`db.close()`", argnames=["self"],
                                        stateful="AS")
XE = ("abs", "XmlElem")
CUTS += [
    ("_A['downloaders']['read_tle_files']['paths']",
     Ext("config_read_tle_files_paths", [("abs", "Config")], lst("str"), ["KeyError", "TypeError"],
         "`config[\"downloaders\"][\"read_tle_files\"][\"paths\"]`")),
    ("_A['downloaders']['read_xml_admin_messages']['paths']",
     Ext("config_read_xml_admin_messages_paths", [("abs", "Config")], lst("str"), ["KeyError", "TypeError"],
         "`config[\"downloaders\"][\"read_xml_admin_messages\"][\"paths\"]`")),
    ("_group_iterable_to_chunks(2, _A)",
     Ext("group_chunks_2", [lst("str")], lst(lst(opt("str"))), [],
         "`_group_iterable_to_chunks(2, data)` (zip_longest): consecutive pairs, the last one filled with None")),
    ("_A.find(_B).text", Ext("xml_find_text", [XE, "str"], opt("str"), ["AttributeError"],
                             "`elem.find(path).text`: the text (None for an empty element); AttributeError when nothing is found")),
]
EXTERNALS["ET.parse"] = Ext("ET_parse", ["str"], ("abs", "XmlTree"), ["OSError", "xml.ParseError"], "`ET.parse(fname)`")
ABS_METHODS[("XmlTree", "getroot")] = Ext("xml_getroot", [("abs", "XmlTree")], XE, [], "`tree.getroot()`", argnames=["self"])
ABS_METHODS[("XmlElem", "findall")] = Ext("xml_findall", [XE, "str"], lst(XE), [], "`elem.findall(path)`: in document order",
                                          argnames=["self", "path"])
TA = ("abs", "TimeArg")
CUTS += [
    ("np.datetime64(int(_A), _B).astype(dt.datetime)",
     Ext("datetime_of_ticks", [F, "str"], UTC, ["OverflowError", "ValueError"],
         "`np.datetime64(int(x), unit).astype(dt.datetime)`: the datetime of a tick count")),
    ("np.datetime64(int(_A), _B)", Ext("datetime64_of_ticks", [F, "str"], TA, ["OverflowError", "ValueError"],
                                        "`np.datetime64(int(x), unit)`: the datetime64 of a tick count")),
    ("optimize.bisect(_A, a=np.datetime64(_B, time_unit).astype(np.int64), b=np.datetime64(_C, time_unit).astype(np.int64), rtol=_D)",
     Ext("bisect_ticks", [("fnms", (F,), F, "Orbital"), TA, TA, F], F, ["ValueError"],
         "`optimize.bisect(f, a=np.datetime64(tstart, \"us\").astype(np.int64), b=np.datetime64(tend, \"us\").astype(np.int64), "
         "rtol=rtol)`: scipy's bisection on the tick interval; it calls `f` (which works on the cached node of the object); "
         "ValueError when `f` has the same sign at both ends", stateful="@Orbital")),
]
CUTS += [
    ("list(_A.__dict__.items())",
     Ext("self_dict_items", [("self", "Tle")], lst(("tuple", ("str", ("abs", "PyObj")))), [],
         "`list(self.__dict__.items())`: the attributes of the object as (name, value) pairs, a NEW list, in `__dict__` order")),
]
GLOBALS["SGDP4_ZERO_ECC"] = Ext("SGDP4_ZERO_ECC", [], "int", [], "module constant `SGDP4_ZERO_ECC`")
GLOBALS["SGDP4_NEAR_NORM"] = Ext("SGDP4_NEAR_NORM", [], "int", [], "module constant `SGDP4_NEAR_NORM`")
GLOBALS["PLATFORM_VALUES"] = Ext("PLATFORM_VALUES", [], "str", [], "module constant `PLATFORM_VALUES` (SQL text)")
GLOBALS["PLATFORM_NAMES_TABLE"] = Ext("PLATFORM_NAMES_TABLE", [], "str", [], "module constant `PLATFORM_NAMES_TABLE` (SQL text)")
# operations of the prelude on tagged numpy / datetime values (`Np.Val F`): an expression of exactly this shape whose holes
# have the listed types is the prelude function (not a parameter: its meaning is defined in PV/Py/Prelude.lean)
NP_PATTERNS = [
    ("np.datetime_data(_A.dtype)[0]", "Np.datetimeUnit", [NPV], "str", True, ""),
    ("np.asanyarray(_A, dtype=np.timedelta64)", "Np.asanyarrayTimedelta", [NPV], NPV, True, ""),
    ("np.asarray(_A, like=_B)", "Np.asarrayLike", [NPV, NPV], NPV, True, ""),
    ("type(_A)(_B)", "Np.callType", [NPV, NPV], NPV, True, ""),
    ("_A.__class__(_B)", "Np.callType", [NPV, NPV], NPV, True, ""),
    ("_A.replace(tzinfo=None)", "Np.replaceTzinfoNone", [NPV], NPV, True, ""),
    ("_A.tzinfo", "Np.tzinfo", [NPV], ("opt", "tz"), True, ""),
    ("_A.data", "Np.attrData", [NPV], NPV, True, ""),
    ("dt.timezone.utc", "Np.Tz.utc", [], "tz", False, ""),
    ("isinstance(_A, float)", "Np.isinstanceFloat", [NPV], "bool", False, ""),
    ("isinstance(_A, dt.datetime)", "Np.isinstanceDatetime", [NPV], "bool", False, ""),
    ("np.datetime64(_A)", "Np.datetime64", [NPV], NPV, True, ""),
]
# key functions accepted for max(..., key=<name>)
KEYFUNCS = {
    "os.path.getctime": Ext("os_path_getctime", ["str"], ("abs", "K"), [], "`os.path.getctime(p)` (a number; only compared)"),
}

TLE_ATTRS = dict(
    _platform="str", _tle_file="filearg", _line1=opt("str"), _line2=opt("str"),
    satnumber=opt("str"), classification=opt("str"), id_launch_year=opt("str"), id_launch_number=opt("str"),
    id_launch_piece=opt("str"), epoch_year=opt("str"), epoch_day=opt(F), epoch=opt(T64),
    mean_motion_derivative=opt(F), mean_motion_sec_derivative=opt(F), bstar=opt(F), ephemeris_type=opt("int"),
    element_number=opt("int"), inclination=opt(F), right_ascension=opt(F), excentricity=opt(F), arg_perigee=opt(F),
    mean_anomaly=opt(F), mean_motion=opt(F), orbit=opt("int"))


class Const:
    """a parameter the translation is specialised to (the function is translated once per constant it is called with)"""

    def __init__(self, value):
        self.value = value


class FnSpec:
    def __init__(self, module, qualname, params, cls=None, int_is_cut=False, special=None, lean=None, ret=None, cuts=(),
                 locals_=None, maybe_unbound=(), npvals=False, heap=None, captured=None):
        self.captured = captured              # a nested def: the (name, type) of the enclosing function's locals it reads (and `self`)
        self.heap = heap                      # a module-level function working on one stateful object (its state: the heap)
        self.npvals = npvals                  # `np.timedelta64(k, unit)` is a tagged value (`Np.Val`), not a `TimeOps` term
        self.maybe_unbound = set(maybe_unbound)   # locals that may be read while unbound (UnboundLocalError): held as Option
        self.fuel = 0
        self.locals = locals_ or {}           # declared types of locals whose first value (`{}`) does not determine them
        self.cuts = set(cuts)                 # calls of these module functions are parameters (cut points)
        self.module, self.qualname, self.params, self.cls = module, qualname, params, cls
        self.int_is_cut = int_is_cut          # `int(<str>)` is the parameter `int_` instead of the prelude's `Py.int`
        self.special = {i: t.value for i, t in enumerate(params) if isinstance(t, Const)}   # position -> constant
        self.lean = lean or qualname
        self.ret = ret


CLASSES = {
    "Tle": dict(module="tlefile", attrs=TLE_ATTRS),
    "Downloader": dict(module="tlefile", attrs=dict(config=("abs", "Config"))),
    # `self.tle.*` are the attributes `Tle._parse_tle` stores (tied by PV.Equiv.TranslatedParse); `self.orbit_elements.an_time`
    # and `.an_period` are created lazily by `get_orbit_number`: traced slots
    # `self.db` is the store: a sqlite3 connection; its operations are parameters working on an abstract store `DB`
    "SQLiteTLE": dict(module="tlefile", attrs={"platforms": ("dict", "int", "str"), "writer_config": ("abs", "WriterConfig"),
                                               "updated": "bool"}, heap=("abs", "DB"), heap_attr="db"),
    # `_SGDP4.propagate`: reads `self.mode` and `self._params`, nothing else; writes nothing
    "_SGDP4": dict(module="orbital", attrs={"mode": "int", "_params": ("abs", "Params")}),
    "Orbital": dict(module="orbital",
                    attrs={"tle.epoch": T64, "tle.orbit": "int", "tle.mean_motion_derivative": F,
                           "tle.mean_motion_sec_derivative": F},
                    slots={"orbit_elements.an_time": T64, "orbit_elements.an_period": TD}),
}

# translated functions, callee before caller where one calls another
SPEC = [
    FnSpec("tlefile", "Tle._checksum", [], cls="Tle"),
    FnSpec("tlefile", "Tle._parse_tle._read_tle_decimal", ["str"], int_is_cut=True),
    FnSpec("tlefile", "Tle._parse_tle", [], cls="Tle", int_is_cut=True),
    FnSpec("tlefile", "_get_config_path", []),
    FnSpec("tlefile", "get_platforms_filepath", []),
    FnSpec("tlefile", "_get_local_tle_path_from_env", []),
    FnSpec("tlefile", "_get_uris_and_open_func", ["filearg"]),
    FnSpec("tlefile", "_merge_tle_from_two_lines", ["str", "str"]),
    FnSpec("tlefile", "_decode_lines", [("iter", ("abs", "Raw")), ("abs", "Raw"), "str", "bool", "bool"]),
    FnSpec("tlefile", "_get_tles_from_url", ["filearg", "fnref", "str", "bool"]),
    FnSpec("tlefile", "_get_tles_from_uris", [lst("filearg"), "fnref", "str", Const(True)]),
    FnSpec("tlefile", "_get_tles_from_uris", [lst("filearg"), "fnref", "str", Const(False)]),
    FnSpec("tlefile", "_get_first_tle", [lst("filearg"), "fnref", "str"]),
    FnSpec("tlefile", "Tle._read_tle", [], cls="Tle", cuts=["_get_uris_and_open_func", "_get_first_tle"]),
    FnSpec("tlefile", "Tle.__init__", ["str", "filearg", opt("str"), opt("str")], cls="Tle"),
    FnSpec("tlefile", "Tle.__str__", [], cls="Tle"),
    FnSpec("tlefile", "collect_filenames", [lst("str")]),
    FnSpec("tlefile", "_parse_tles_for_downloader", [lst("filearg"), "fnref"]),
    FnSpec("tlefile", "read_tle_from_mmam_xml_file", ["str"]),
    FnSpec("tlefile", "read_tles_from_mmam_xml_files", [lst("str")]),
    FnSpec("tlefile", "Downloader.read_tle_files", [], cls="Downloader"),
    FnSpec("tlefile", "Downloader.read_xml_admin_messages", [], cls="Downloader"),
    FnSpec("tlefile", "read_platform_numbers", ["str", "bool", Const(False)], locals_={"out_dict": ("dict", "str", "str")}),
    FnSpec("orbital", "_SGDP4.propagate", [("abs", "TimeArg")], cls="_SGDP4"),
    FnSpec("orbital", "Orbital.get_last_an_time", [("abs", "TimeArg")], cls="Orbital", maybe_unbound=["t_mid"]),
    FnSpec("orbital", "Orbital.get_orbit_number", [("abs", "TimeArg"), "bool", Const(True)], cls="Orbital",
           cuts=["get_last_an_time"]),
    FnSpec("orbital", "Orbital.get_orbit_number", [("abs", "TimeArg"), "bool", Const(False)], cls="Orbital",
           cuts=["get_last_an_time"]),
    FnSpec("orbital", "Orbital.get_equatorial_crossing_time._nprime", [F], cls="Orbital",
           captured=[("offset", "int"), ("time_unit", "str")], lean="Orbital.crossing_nprime_int"),
    FnSpec("orbital", "Orbital.get_equatorial_crossing_time._nprime", [F], cls="Orbital",
           captured=[("offset", F), ("time_unit", "str")], lean="Orbital.crossing_nprime_float"),
    FnSpec("orbital", "Orbital.get_next_passes", [UTC, "int", F, F, F, F, F], cls="Orbital",
           locals_={"risetime": opt(UTC), "risemins": opt(F)}),
    FnSpec("tlefile", "SQLiteTLE.__init__", ["str", ("dict", "int", "str"), ("abs", "WriterConfig")], cls="SQLiteTLE"),
    FnSpec("tlefile", "SQLiteTLE.update_db", [("abs", "TleObj"), "str"], cls="SQLiteTLE"),
    FnSpec("tlefile", "SQLiteTLE.write_tle_txt", [], cls="SQLiteTLE"),
    # third wave: which branch for which kind of time value, and the tick arithmetic in each (C08, C12)
    FnSpec("__init__", "dt2np", [NPV], npvals=True),
    FnSpec("astronomy", "_days", [NPV], npvals=True),
    FnSpec("astronomy", "jdays2000", [NPV], npvals=True),
    FnSpec("astronomy", "jdays", [NPV], npvals=True),
    FnSpec("astronomy", "_float_to_sibling_result", [NPV, NPV], npvals=True),
    FnSpec("orbital", "_get_tz_unaware_utctime", [NPV], npvals=True),
    FnSpec("orbital", "Orbital.utc2local", [UTC], cls="Orbital"),
    FnSpec("orbital", "_get_max_parab", [FFN, F, F, F], cuts=["_get_min_bounded"]),
    FnSpec("orbital", "Orbital.get_equatorial_crossing_time", [TA, TA, Const("ascending"), "bool", F], cls="Orbital",
           ret=opt(UTC)),
    FnSpec("orbital", "Orbital.get_equatorial_crossing_time", [TA, TA, Const("descending"), "bool", F], cls="Orbital",
           ret=opt(UTC)),
    FnSpec("fetch_tles", "run", [], heap=("abs", "AS")),
    FnSpec("tlefile", "Downloader.fetch_spacetrack", [], cls="Downloader"),
    FnSpec("tlefile", "Downloader.fetch_plain_tle", [], cls="Downloader",
           locals_={"tles": ("dict", "str", lst(("abs", "E")))}),
]


# ------------------------------------------------------------------------------------------------ translation of one function
class NeedMaybe(Exception):
    def __init__(self, name, ty):
        self.name, self.ty = name, ty


class NeedHoist(Exception):
    def __init__(self, name, ty):
        self.name, self.ty = name, ty


def find_def(tree, qualname):
    body = tree.body
    node = None
    for p in qualname.split("."):
        node = None
        for n in body:
            if isinstance(n, (ast.FunctionDef, ast.ClassDef)) and n.name == p:
                if node is not None:
                    raise TransError("%s is defined twice" % qualname)
                node = n
        if node is None:
            raise TransError("%s not found in the source" % qualname)
        body = node.body
    if not isinstance(node, ast.FunctionDef):
        raise TransError("%s is not a function" % qualname)
    return node


_PARSED = {}


def _parsed(pat):
    if pat not in _PARSED:
        _PARSED[pat] = ast.parse(pat, mode="eval").body
    return _PARSED[pat]


def match_pattern(pat, node, holes):
    """structural equality of ASTs; Names `_A`, `_B`... in the pattern bind sub-expressions"""
    if isinstance(pat, ast.Name) and re.fullmatch(r"_[A-Z]", pat.id):
        holes[pat.id] = node
        return True
    if type(pat) is not type(node):
        return False
    for f in pat._fields:
        a, b = getattr(pat, f, None), getattr(node, f, None)
        if f == "ctx":
            continue
        if isinstance(a, list):
            if not isinstance(b, list) or len(a) != len(b):
                return False
            for x, y in zip(a, b):
                if isinstance(x, ast.AST):
                    if not match_pattern(x, y, holes):
                        return False
                elif x != y:
                    return False
        elif isinstance(a, ast.AST):
            if not isinstance(b, ast.AST) or not match_pattern(a, b, holes):
                return False
        elif a != b:
            return False
    return True


class Module:
    """the parsed source of one module of /repo/pyorbital and what the translator has produced from it"""

    def __init__(self, name):
        self.name = name
        self.path = os.path.join(REPO, "pyorbital", name + ".py")
        self.src = open(self.path).read()
        self.tree = ast.parse(self.src)
        self.exc_classes = {}
        for n in self.tree.body:
            if isinstance(n, ast.ClassDef) and len(n.bases) == 1 and ast.unparse(n.bases[0]) == "Exception":
                self.exc_classes[n.name] = n
        self.toplevel_funcs = {n.name for n in self.tree.body if isinstance(n, ast.FunctionDef)}


class Done:
    """a translated function, as callers see it"""

    def __init__(self, spec, lean_name, ext_params, tvars, classes, params, ret, writes_self, iter_params):
        self.spec, self.lean_name, self.ext_params, self.tvars, self.classes = spec, lean_name, ext_params, tvars, classes
        self.params, self.ret, self.writes_self, self.iter_params = params, ret, writes_self, iter_params


class FnTrans:
    def __init__(self, mod, spec, done, fnrefs):
        self.mod, self.spec, self.done, self.fnrefs = mod, spec, done, fnrefs
        self.node = find_def(mod.tree, spec.qualname)
        self.hoist = {}          # name -> type
        self.maybe_known = {}    # possibly-unbound locals whose type is known from an earlier pass
        self.cls = CLASSES[spec.cls] if spec.cls else None

    # ---------- entry
    def translate(self):
        for _ in range(40):
            try:
                return self._translate_once()
            except NeedMaybe as h:
                self.maybe_known[h.name] = h.ty
            except NeedHoist as h:
                if h.name in self.hoist:
                    raise TransError("internal: hoisting %s twice" % h.name)
                self.hoist[h.name] = h.ty
        raise TransError("too many hoisted variables in " + self.spec.qualname)

    def _translate_once(self):
        node, spec = self.node, self.spec
        self.env = {}            # visible local name -> type
        self.assigned = set()    # definitely assigned locals
        self.scoped_out = {}     # names declared in a block that has ended -> type
        self.ext_used = []       # Ext objects in order of first use
        self.float_ops = False
        self.float_arith = False
        self.time_ops = False
        self.file_log = any(isinstance(x, ast.With) and len(x.items) == 1 and isinstance(x.items[0].context_expr, ast.Call)
                            and ast.unparse(x.items[0].context_expr.func) == "open" and len(x.items[0].context_expr.args) == 2
                            and ast.unparse(x.items[0].context_expr.args[1]) == "'w'" for x in ast.walk(node))
        self.closure_captured = set()
        self.fp_raise = False    # inside `with np.errstate(invalid="raise")`
        self.fp_used = False
        self.stateful = False
        self.writes_self = False
        self.self_assigned = set()
        self.returns = []        # types of `return` statements
        self.tmp = 0
        self.nested_defs = {}    # local function name -> ast node (values used as function references or called)
        self.loop_depth = 0
        self.iter_params = []    # parameters that are iterators (returned in their final state)
        self.late_types = {}
        self.rename = {}
        self.maybe_types = dict(self.maybe_known)
        self.fuels = []
        self.in_init = node.name == "__init__" and self.cls is not None
        # does the function assign instance attributes (then every exit returns the object as well)?
        if self.cls is not None:
            for x in ast.walk(node):
                if isinstance(x, (ast.Assign, ast.AugAssign)):
                    for t in (x.targets if isinstance(x, ast.Assign) else [x.target]):
                        for y in (t.elts if isinstance(t, ast.Tuple) else [t]):
                            if isinstance(y, ast.Attribute) and isinstance(y.value, ast.Name) and y.value.id == "self" \
                                    and y.attr in self.cls["attrs"]:
                                self.writes_self = True
        # the store statements of every traced slot, in source order: a store event names its statement by its ordinal
        self.store_sites = {}
        if self.cls is not None:
            for path in self.cls.get("slots", {}):
                sites = []
                for x in ast.walk(node):
                    if isinstance(x, ast.Assign):
                        for t in x.targets:
                            if isinstance(t, ast.Attribute) and ast.unparse(t) == "self." + path:
                                sites.append((t.lineno, t.col_offset))
                    if isinstance(x, (ast.AugAssign, ast.Delete)) and ("self." + path) in ast.unparse(x):
                        raise TransError("%s: augmented assignment / del of the traced slot %s" % (spec.qualname, path))
                self.store_sites[path] = sorted(sites)
        # names of lists / dicts the function changes in place: Python containers are shared references, the translation
        # copies values; the two agree as long as a container that is changed is never reachable under two names
        self.mutated = set()
        for x in ast.walk(node):
            if isinstance(x, ast.AugAssign) and isinstance(x.target, ast.Name):
                self.mutated.add(x.target.id)
            if isinstance(x, (ast.Assign, ast.AugAssign)):
                for t in (x.targets if isinstance(x, ast.Assign) else [x.target]):
                    if isinstance(t, ast.Subscript) and isinstance(t.value, ast.Name):
                        self.mutated.add(t.value.id)
            if isinstance(x, ast.Call) and isinstance(x.func, ast.Attribute) and isinstance(x.func.value, ast.Name) and \
                    x.func.attr in ("append", "extend", "pop", "remove", "insert", "clear", "sort", "reverse", "update"):
                self.mutated.add(x.func.value.id)
        a = node.args
        if a.vararg or a.kwarg or a.kwonlyargs or a.posonlyargs:
            raise TransError("%s: *args / keyword-only parameters" % spec.qualname)
        if node.decorator_list:
            raise TransError("%s: decorators" % spec.qualname)
        names = [x.arg for x in a.args]
        self.params = []
        defaults = dict(zip(names[len(names) - len(a.defaults):], a.defaults))
        if self.cls is not None and spec.captured is None:
            if not names or names[0] != "self":
                raise TransError("%s: first parameter is not self" % spec.qualname)
            names = names[1:]
        cap_params = []
        if spec.captured is not None:
            # a nested def as a closure: the captured locals are leading parameters; it must not assign them
            for cn, ct in spec.captured:
                for x in ast.walk(node):
                    if isinstance(x, ast.Name) and x.id == cn and isinstance(x.ctx, ast.Store):
                        raise TransError("%s: assigns the captured local %s" % (spec.qualname, cn))
                    if isinstance(x, (ast.Nonlocal, ast.Global)):
                        raise TransError("%s: nonlocal / global" % spec.qualname)
                cap_params.append((cn, ct))
        self.consts = {}
        if len(spec.params) != len(names):
            raise TransError("%s: %d parameters declared in the translator's table, the source has %d" % (
                spec.qualname, len(spec.params), len(names)))
        for n, t in cap_params:
            self.params.append((n, t))
            self.env[n] = t
            self.assigned.add(n)
        for n, t in zip(names, spec.params):       # types are declared by position: renaming a parameter is harmless
            if isinstance(t, Const):
                self.consts[n] = t.value
                continue
            self.params.append((n, t))
            self.env[n] = t
            self.assigned.add(n)
            if isinstance(t, tuple) and t[0] == "iter":
                self.iter_params.append(n)
        self.special_names = dict(self.consts)
        for n, t in self.params:
            if isinstance(t, tuple) and t[0] in ("list", "dict") and n in self.mutated:
                raise TransError("%s: changes its argument `%s` in place (the caller would see it)" % (spec.qualname, n))
        for n, t in self.hoist.items():
            self.env[n] = t          # declared at the top of the function, not yet assigned
        for n, t in self.maybe_types.items():
            self.env[n] = t
        body = self.block(node.body, 1, top=True)
        # result type
        rets = [r for r in self.returns]
        falls = not self.terminates(node.body)
        if self.in_init:
            if rets:
                raise TransError("return in __init__")
            ret = "unit"
        elif not rets or all(r == "unit" for r in rets):
            ret = "unit"
        else:
            ret = rets[0]
            for r in rets[1:]:
                ret = self.join(ret, r)
            if falls:
                raise TransError("%s: returns a value on some paths and falls off the end on others" % spec.qualname)
        if spec.ret is not None and spec.ret != ret:
            raise TransError("%s: inferred result type %s, declared %s" % (spec.qualname, ret, spec.ret))
        self.ret = ret
        lines = []
        for n, t in self.hoist.items():
            lines.append("  let mut %s : %s := %s" % (lname(n), lean_type(t), placeholder(t)))
        for n, t in self.maybe_types.items():
            lines.append("  let mut %s : Option %s := none" % (self.ln(n), lean_type(t)))
        if self.cls is not None:
            if self.in_init:
                lines.insert(0, "  let mut self : %s := %s.unset" % (self.self_type(), self.spec.cls + ".Self"))
            elif self.writes_self:
                lines.insert(0, "  let mut self := self")
        for n in self.iter_params:
            lines.insert(0, "  let mut %s := %s" % (self.ln(n), self.ln(n)))
        if self.file_log:
            # what the function writes to files opened for writing: (file, text) per `write` call, in order
            lines.insert(0, "  let mut files__ : List (WFile × Str) := []")
        for n, t in self.params:
            if n in self.reassigned_params:
                lines.insert(0, "  let mut %s := %s" % (self.ln(n), self.ln(n)))
        lines += body
        if falls:
            lines.append("  " + self.final_return())
        text = "\n".join(lines)
        for m in set(re.findall(r"__TYPEOF_([A-Za-z_0-9]+?)__", text)):
            if m not in self.late_types:
                raise TransError("%s: the element type of the empty list `%s` is never determined" % (spec.qualname, m))
            text = text.replace("__TYPEOF_%s__" % m, lean_type(self.late_types[m]))
        return text.split("\n")

    # ---------- result packaging: value, then `self` if written, then the iterator parameters
    def result_parts(self):
        parts = []
        if self.cls is not None and (self.writes_self or self.in_init):
            parts.append("self")
        parts += [self.ln(n) for n in self.iter_params]
        if self.file_log:
            parts.append("files__")
        return parts

    def pack_return(self, value_code):
        parts = self.result_parts()
        if value_code is None:
            if not parts:
                return "()"
            return "(" + ", ".join(parts) + ")" if len(parts) > 1 else parts[0]
        return "(" + ", ".join([value_code] + parts) + ")" if parts else value_code

    def final_return(self):
        return "return " + self.pack_return(None)

    def self_type(self):
        return SELF_TYPES[self.spec.cls]

    # ---------- helpers
    def ln(self, name):
        """the Lean name of a Python local (a name rebound to a value of another type gets a fresh Lean variable)"""
        return lname(self.rename.get(name, name))

    def fresh(self, base="t"):
        self.tmp += 1
        return "%s__%d" % (base, self.tmp)

    def err(self, node, msg):
        return TransError("%s.py:%d %s: %s: `%s`" % (self.mod.name, getattr(node, "lineno", 0), self.spec.qualname, msg,
                                                     ast.unparse(node)[:100] if isinstance(node, ast.AST) else node))

    def use_ext(self, ext):
        if ext.stateful and ext.stateful.startswith("@"):
            if self.spec.cls != ext.stateful[1:]:
                raise TransError("%s: the external %s works on the slots of another class" % (self.spec.qualname, ext.param))
            self.stateful = True
        elif ext.stateful:
            own = self.cls.get("heap") if self.cls is not None else self.spec.heap
            if own != ("abs", ext.stateful):
                raise TransError("%s: the external %s works on the store of another class" % (self.spec.qualname, ext.param))
            self.stateful = True
        if ext not in self.ext_used:
            self.ext_used.append(ext)

    def join(self, a, b):
        if a == b:
            return a
        if a == "none":
            return b if (isinstance(b, tuple) and b[0] == "opt") or b == "filearg" else opt(b)
        if b == "none":
            return self.join(b, a)
        if a == "char" and b == "str" or a == "str" and b == "char":
            return "str"
        if isinstance(a, tuple) and a[0] == "opt" and self.join(a[1], b) == a[1]:
            return a
        if isinstance(b, tuple) and b[0] == "opt" and self.join(b[1], a) == b[1]:
            return b
        if isinstance(a, tuple) and isinstance(b, tuple) and a[0] == b[0] == "list":
            if a[1] == "any":
                return b
            if b[1] == "any":
                return a
        raise TransError("%s: values of type %s and %s meet" % (self.spec.qualname, a, b))

    def coerce(self, e, ty, node):
        """e used where a value of type ty is stored / passed"""
        if e.ty == ty:
            return e
        if e.ty == "char" and ty == "str":
            return E("[%s]" % e.code, "str", e.mon) if not e.mon else E("[%s]" % e.sub(), "str", False)
        if e.ty == "none":
            if isinstance(ty, tuple) and ty[0] == "opt":
                return E("(none : %s)" % lean_type(ty), ty)
            if ty == "filearg":
                return E("FileArg.none", ty)
            if ty == "unit":
                return E("()", ty)
        if ty == "filearg" and e.ty in ("str", "char"):
            s = self.coerce(e, "str", node)
            return E("(FileArg.path %s)" % paren(s.sub()), ty)
        if ty == "filearg" and e.ty == ("abs", "IO"):
            return E("(FileArg.io %s)" % paren(e.sub()), ty)
        if isinstance(ty, tuple) and ty[0] == "opt":
            inner = self.coerce(e, ty[1], node)
            return E("(some %s)" % paren(inner.sub()), ty)
        if isinstance(ty, tuple) and ty[0] == "list" and isinstance(e.ty, tuple) and e.ty[0] == "list":
            if e.ty[1] == "any":
                if e.code == "[]":
                    return E("([] : %s)" % lean_type(ty), ty)
                # a local created as `[]` whose element type becomes known here
                for nm, t_ in list(self.env.items()):
                    if t_ == lst("any") and self.ln(nm) == e.code:
                        self.retype(nm, ty, node)
                        return E(e.code, ty)
                raise self.err(node, "an empty list of unknown element type where %s is expected" % (ty,))
            inner = self.coerce(E("x__", e.ty[1]), ty[1], node)
            return E("(%s.map fun x__ => %s)" % (paren(e.sub()), inner.code), ty)
        if ty == F and e.ty == "int":
            self.float_ops = True
            return E("(FloatOps.ofInt %s)" % paren(e.sub()), ty)
        if ty == NPV and e.ty == F:
            return E("(Np.Val.pyfloat %s)" % paren(e.sub()), ty)
        raise self.err(node, "a value of type %s where %s is expected" % (e.ty, ty))

    def want(self, e, ty, node, attr=False):
        """e used by an operation that needs type ty: unwraps Optional (TypeError / AttributeError on None)"""
        if e.ty == ty:
            return e
        if isinstance(e.ty, tuple) and e.ty[0] == "opt":
            inner = E("Py.%s %s" % ("needAttr" if attr else "need", paren(e.sub())), e.ty[1], True)
            return self.want(inner, ty, node, attr)
        if e.ty == "char" and ty == "str":
            return self.coerce(e, ty, node)
        raise self.err(node, "a value of type %s where the operation needs %s" % (e.ty, ty))

    def strlike(self, e, node, attr=False):
        """unwrap to `str` (from char / Optional[str])"""
        if isinstance(e.ty, tuple) and e.ty[0] == "opt":
            e = E("Py.%s %s" % ("needAttr" if attr else "need", paren(e.sub())), e.ty[1], True)
        if e.ty == "char":
            return self.coerce(e, "str", node)
        if e.ty == "str":
            return e
        raise self.err(node, "a value of type %s where the operation needs str" % (e.ty,))

    def seqlike(self, e, node):
        """unwrap to str or list"""
        if isinstance(e.ty, tuple) and e.ty[0] == "opt":
            e = E("Py.need %s" % paren(e.sub()), e.ty[1], True)
        if e.ty == "char":
            return self.coerce(e, "str", node)
        if e.ty == "str" or (isinstance(e.ty, tuple) and e.ty[0] == "list"):
            return e
        raise self.err(node, "a value of type %s is indexed / iterated" % (e.ty,))

    def truthy(self, e, node):
        if e.ty == "bool":
            return e
        if e.ty in ("str", "int", "filearg") or (isinstance(e.ty, tuple) and e.ty[0] in ("list", "opt", "dict")):
            if isinstance(e.ty, tuple) and e.ty[0] == "opt":
                t = e.ty[1]
                if not (t in ("str", "int", "bool", "tz") or (isinstance(t, tuple) and t[0] in ("list",))):
                    raise self.err(node, "truth value of %s" % (e.ty,))
            return E("Py.truthy %s" % paren(e.sub()), "bool")
        raise self.err(node, "truth value of a %s" % (e.ty,))

    # ---------- expressions
    def const_int(self, node):
        if isinstance(node, ast.Constant) and isinstance(node.value, int) and not isinstance(node.value, bool):
            return node.value
        if isinstance(node, ast.UnaryOp) and isinstance(node.op, ast.USub):
            v = self.const_int(node.operand)
            return None if v is None else -v
        return None

    def expr(self, node):
        # expression cut points first
        for pat, ext in CUTS:
            holes = {}
            if match_pattern(_parsed(pat), node, holes):
                args = []
                for k_, t in zip(sorted(holes), ext.args):
                    if isinstance(holes[k_], ast.Name) and holes[k_].id == "self" and self.cls is not None \
                            and not self.in_init and t == ("self", self.spec.cls):
                        args.append(E("self", t))       # the object itself, handed to a (read-only) cut point
                        continue
                    a_ = self.expr(holes[k_])
                    if a_.ty == "int" and t == F:
                        self.float_ops = True
                        a_ = self.coerce(a_, F, node)
                    args.append(self.want(a_, t, node))
                self.use_ext(ext)
                return E("%s %s" % (ext.param, " ".join(paren(a.sub()) for a in args)), ext.ret, ext.mon)
        for pat, fn, tys, ret, mon, _ in NP_PATTERNS:
            holes = {}
            if match_pattern(_parsed(pat), node, holes):
                saved = (list(self.ext_used), self.tmp)
                try:
                    args = [self.expr(holes[k_]) for k_ in sorted(holes)]
                except TransError:
                    self.ext_used, self.tmp = saved
                    continue
                if [a_.ty for a_ in args] != tys:
                    # a Python float where a tagged value is expected is the tagged Python float
                    if all(a_.ty == t_ or (a_.ty == F and t_ == NPV) for a_, t_ in zip(args, tys)):
                        args = [self.coerce(a_, t_, node) for a_, t_ in zip(args, tys)]
                    else:
                        self.ext_used, self.tmp = saved
                        continue
                code = " ".join([fn] + [paren(a_.sub()) for a_ in args])
                if not tys and ret == "tz":
                    return E(fn, ret)
                return E(code, ret, mon)
        m = getattr(self, "e_" + type(node).__name__, None)
        if m is None:
            raise self.err(node, "no rule for expression " + type(node).__name__)
        return m(node)

    def e_Constant(self, n):
        v = n.value
        if v is None:
            return E("none", "none")
        if isinstance(v, bool):
            return E("true" if v else "false", "bool")
        if isinstance(v, int):
            return E("(%d : Int)" % v, "int")
        if isinstance(v, str):
            return E(str_lit(v), "str")
        if isinstance(v, float):
            # the decimal of the source text (the real number written there), as mantissa * 10 ^ exponent
            import decimal
            text = (ast.get_source_segment(self.mod.src, n) or repr(v)).replace("_", "")
            try:
                d = decimal.Decimal(text)
            except decimal.InvalidOperation:
                raise self.err(n, "float literal")
            sign, digits, exp = d.as_tuple()
            if sign or not isinstance(exp, int):
                raise self.err(n, "float literal")
            m = int("".join(map(str, digits)))
            while m != 0 and m % 10 == 0:
                m //= 10
                exp += 1
            self.float_arith = True
            return E("(FloatArith.lit %d (%d : Int) : F)" % (m, exp), F)
        raise self.err(n, "constant of type " + type(v).__name__)

    def e_Name(self, n):
        name = n.id
        if name in self.consts:
            return self.e_Constant(ast.Constant(self.consts[name]))
        if name in self.env:
            if name in self.spec.maybe_unbound:
                # Python raises UnboundLocalError when the name has not been assigned on the path taken
                return E("Py.boundLocal %s" % self.ln(name), self.env[name], True)
            if name not in self.assigned:
                raise self.err(n, "local `%s` may be unbound here" % name)
            return E(self.ln(name), self.env[name])
        if name in self.scoped_out:
            raise NeedHoist(name, self.scoped_out[name])
        if name in self.spec.maybe_unbound and name in self.maybe_types:
            return E("Py.boundLocal %s" % self.ln(name), self.maybe_types[name], True)
        if name in self.hoist:
            raise self.err(n, "local `%s` may be unbound here" % name)
        if name in GLOBALS:
            g = GLOBALS[name]
            self.use_ext(g)
            return E(g.param, g.ret)
        if name in self.nested_defs:
            qual_ = self.spec.qualname + "." + name
            for d in self.done:
                if d.spec.qualname == qual_ and d.spec.captured is not None and \
                        all(self.env.get(cn) == ct and cn in self.assigned for cn, ct in d.spec.captured):
                    # the closure over the current values of the captured locals (they are not assigned afterwards: checked)
                    for cn, _ in d.spec.captured:
                        self.closure_captured.add(cn)
                    for x in d.ext_params:
                        self.use_ext(x)
                    self.float_ops |= d.float_ops
                    self.float_arith |= d.float_arith
                    self.time_ops |= d.time_ops
                    self.stateful |= d.stateful
                    args_ = [x.param for x in d.ext_params] + ["self"] + [self.ln(cn) for cn, _ in d.spec.captured]
                    nparams = [t for _, t in d.params[len(d.spec.captured):]]
                    if len(nparams) != 1:
                        raise self.err(n, "a closure of %d parameters" % len(nparams))
                    kind = "fnms" if d.stateful else "fn"
                    return E("(fun x__ => %s %s x__)" % (d.lean_name, " ".join(args_)), (kind, tuple(nparams), d.ret, self.spec.cls))
        if name in self.nested_defs or name in self.mod.toplevel_funcs or name in FNREF_IMPORTS:
            self.fnrefs.add(name)
            return E("FnRef.%s" % lname(name), "fnref")
        raise self.err(n, "unknown name")

    def e_Attribute(self, n):
        full = ast.unparse(n)
        if full.startswith("self.") and self.cls is not None and "." in full[5:]:
            path = full[5:]
            if path in self.cls.get("slots", {}):
                # an attribute that may be absent (AttributeError) of an object shared between calls: a traced load
                self.stateful = True
                return E("%s.load_%s" % (self.spec.cls, path.split(".")[-1]), self.cls["slots"][path], True)
            if path in self.cls["attrs"]:
                return E("self.%s" % path.replace(".", "_"), self.cls["attrs"][path])
            raise self.err(n, "attribute path not declared in the translator's table")
        if isinstance(n.value, ast.Name) and n.value.id == "self" and self.cls is not None:
            if n.attr not in self.cls["attrs"]:
                raise self.err(n, "attribute not declared in the translator's table")
            if self.in_init and n.attr not in self.self_assigned:
                raise self.err(n, "attribute read before it is assigned in __init__")
            return E("self.%s" % n.attr, self.cls["attrs"][n.attr])
        if full in GLOBALS:
            g = GLOBALS[full]
            self.use_ext(g)
            return E(g.param, g.ret)
        if isinstance(n.value, ast.Name) and isinstance(self.env.get(n.value.id), tuple) and self.env[n.value.id][0] == "abs" \
                and (self.env[n.value.id][1], n.attr) in OBJ_ATTRS:
            ext = OBJ_ATTRS[(self.env[n.value.id][1], n.attr)]
            v = self.e_Name(n.value)
            self.use_ext(ext)
            return E("%s %s" % (ext.param, paren(v.sub())), ext.ret, ext.mon)
        if isinstance(n.value, ast.Name) and n.attr in ("status_code", "text"):
            v = self.e_Name(n.value)
            if v.ty == "response":
                return E("%s.%s" % (v.code, n.attr), "int" if n.attr == "status_code" else "str")
        raise self.err(n, "no rule for attribute")

    def e_List(self, n):
        if not n.elts:
            return E("[]", lst("any"))
        es = [self.expr(x) for x in n.elts]
        t = es[0].ty
        for e in es[1:]:
            t = self.join(t, e.ty)
        es = [self.coerce(e, t, n) for e in es]
        return E("[" + ", ".join(e.sub() for e in es) + "]", lst(t))

    def e_Dict(self, n):
        if not n.keys:
            return E("[]", ("dict", "any", "any"))
        if any(k is None for k in n.keys):
            raise self.err(n, "dict literal with **")
        ks = [self.coerce(self.expr(k), "str", n) for k in n.keys]
        vs = [self.coerce(self.expr(v), "str", n) for v in n.values]
        lits = [k.value for k in n.keys if isinstance(k, ast.Constant)]
        if len(lits) != len(n.keys) or len(set(lits)) != len(lits):
            raise self.err(n, "dict literal whose keys are not distinct string literals")
        return E("[" + ", ".join("(%s, %s)" % (k.sub(), v.sub()) for k, v in zip(ks, vs)) + "]", ("dict", "str", "str"))

    def e_Tuple(self, n):
        es = [self.expr(x) for x in n.elts]
        if len(es) == 1:     # a 1-tuple is only ever iterated / indexed here: a list
            return E("[%s]" % es[0].sub(), lst(es[0].ty))
        return E("(" + ", ".join(e.sub() for e in es) + ")", ("tuple", tuple(e.ty for e in es)))

    def e_Subscript(self, n):
        s = n.slice
        base0 = self.expr(n.value)
        if isinstance(base0.ty, tuple) and base0.ty[0] == "dict":
            k = self.coerce(self.expr(s), base0.ty[1], n)
            return E("Py.dictGetItem %s %s" % (paren(base0.sub()), paren(k.sub())), base0.ty[2], True)
        if base0.ty == VEC and self.const_int(s) is not None:
            ext = EXTERNALS["vec[]"]
            self.use_ext(ext)
            return E("%s %s (%d : Int)" % (ext.param, paren(base0.sub()), self.const_int(s)), F)
        base = self.seqlike(base0, n)
        elem = "char" if base.ty == "str" else base.ty[1]
        if isinstance(s, ast.Slice):
            if s.step is not None:
                raise self.err(n, "slice with a step")
            b = []
            for x in (s.lower, s.upper):
                if x is None:
                    b.append("none")
                else:
                    xe = self.want(self.expr(x), "int", n)
                    b.append("(some %s)" % xe.sub())
            return E("Py.slice %s %s %s" % (paren(base.sub()), b[0], b[1]), base.ty)
        i = self.want(self.expr(s), "int", n)
        return E("Py.index %s %s" % (paren(base.sub()), paren(i.sub())), elem, True)

    def e_UnaryOp(self, n):
        if isinstance(n.op, ast.Not):
            e = self.truthy(self.expr(n.operand), n)
            return E("(!%s)" % paren(e.sub()), "bool")
        if isinstance(n.op, ast.USub):
            v = self.const_int(n)
            if v is not None:
                return E("(%d : Int)" % v, "int")
            e = self.want(self.expr(n.operand), "int", n)
            return E("(-%s)" % paren(e.sub()), "int")
        raise self.err(n, "unary operator")

    def e_BinOp(self, n):
        op = n.op
        if isinstance(op, ast.Pow):
            b, e = self.const_int(n.left), self.const_int(n.right)
            if b is not None and e is not None and e < 0:
                self.float_ops = True
                return E("(FloatOps.intPow (%d : Int) (%d : Int) : F)" % (b, e), F)
            if e is not None and e >= 0:
                base = self.expr(n.left)
                if base.ty == F:
                    self.float_arith = True
                    if self.fp_raise:
                        return self.fp_op("powNat", base, E("%d" % e, "nat"))
                    return E("(FloatArith.powNat %s %d)" % (paren(base.sub()), e), F)
            raise self.err(n, "power other than <int literal> ** <negative int literal> or <float> ** <non-negative int literal>")
        l, r = self.expr(n.left), self.expr(n.right)
        # tagged numpy values: the prelude's interpreted operations
        if NPV in (l.ty, r.ty) and {l.ty, r.ty} <= {NPV, F}:
            fn = {ast.Sub: "sub", ast.Div: "div", ast.Add: "add"}.get(type(op))
            if fn is None:
                raise self.err(n, "operator %s on tagged numpy values" % type(op).__name__)
            l, r = self.coerce(l, NPV, n), self.coerce(r, NPV, n)
            if fn == "div":
                self.float_ops = True
            if fn in ("div", "add"):
                self.float_arith = True
            return E("Np.%s %s %s" % (fn, paren(l.sub()), paren(r.sub())), NPV, True)
        # numpy datetime64 / timedelta64 arithmetic (uninterpreted: class TimeOps)
        if T64 in (l.ty, r.ty) or TD in (l.ty, r.ty):
            self.time_ops = True
            if isinstance(op, ast.Sub) and l.ty == T64 and r.ty == T64:
                return E("(TimeOps.diff %s %s : TD)" % (paren(l.sub()), paren(r.sub())), TD)
            if isinstance(op, ast.Add) and l.ty == T64 and r.ty == TD:
                return E("(TimeOps.add %s %s : T)" % (paren(l.sub()), paren(r.sub())), T64)
            if isinstance(op, ast.Sub) and l.ty == T64 and r.ty == TD:
                return E("(TimeOps.sub %s %s : T)" % (paren(l.sub()), paren(r.sub())), T64)
            if isinstance(op, ast.Div) and l.ty == TD and r.ty == "int":
                return E("(TimeOps.divInt (T := T) %s %s : TD)" % (paren(l.sub()), paren(r.sub())), TD)
            raise self.err(n, "operator %s on %s and %s" % (type(op).__name__, l.ty, r.ty))
        if isinstance(op, (ast.Add, ast.Div)) and F in (l.ty, r.ty) and {l.ty, r.ty} <= {F, "int"}:
            self.float_arith = True
            l, r = self.coerce(l, F, n), self.coerce(r, F, n)
            if self.fp_raise:
                return self.fp_op("add" if isinstance(op, ast.Add) else "div", l, r)
            return E("(FloatArith.%s %s %s)" % ("add" if isinstance(op, ast.Add) else "div", paren(l.sub()), paren(r.sub())), F)
        if isinstance(op, ast.Add):
            if l.ty == "int" and r.ty == "int":
                return E("(%s + %s)" % (l.sub(), r.sub()), "int")
            if isinstance(l.ty, tuple) and l.ty[0] == "list" and isinstance(r.ty, tuple) and r.ty[0] == "list":
                t = self.join(l.ty, r.ty)
                l, r = self.coerce(l, t, n), self.coerce(r, t, n)
                return E("(%s ++ %s)" % (l.sub(), r.sub()), t)
            ls, rs = self.strlike(l, n.left), self.strlike(r, n.right)
            return E("(%s ++ %s)" % (ls.sub(), rs.sub()), "str")
        if isinstance(op, ast.Sub):
            if l.ty == "int" and r.ty == "int":
                return E("(%s - %s)" % (l.sub(), r.sub()), "int")
            if F in (l.ty, r.ty):
                self.float_ops = True
                l, r = self.coerce(self.unopt(l, n), F, n), self.coerce(self.unopt(r, n), F, n)
                if self.fp_raise:
                    self.float_arith = True
                    return self.fp_op("sub", l, r)
                return E("(FloatOps.sub %s %s)" % (paren(l.sub()), paren(r.sub())), F)
        if isinstance(op, ast.Mult):
            if l.ty == "int" and r.ty == "int":
                return E("(%s * %s)" % (l.sub(), r.sub()), "int")
            if F in (l.ty, r.ty):
                self.float_ops = True
                l, r = self.coerce(self.unopt(l, n), F, n), self.coerce(self.unopt(r, n), F, n)
                if self.fp_raise:
                    self.float_arith = True
                    return self.fp_op("mul", l, r)
                return E("(FloatOps.mul %s %s)" % (paren(l.sub()), paren(r.sub())), F)
        if isinstance(op, ast.Mod):
            if l.ty == "int" and r.ty == "int":
                return E("Py.mod %s %s" % (paren(l.sub()), paren(r.sub())), "int", True)
        if isinstance(op, ast.FloorDiv):
            if l.ty == "int" and r.ty == "int":
                return E("Py.floordiv %s %s" % (paren(l.sub()), paren(r.sub())), "int", True)
        raise self.err(n, "operator %s on %s and %s" % (type(op).__name__, l.ty, r.ty))

    def fp_op(self, op, l, r):
        """a float operation inside `with np.errstate(invalid="raise")`: FloatingPointError when numpy signals `invalid`"""
        self.float_ops = True
        self.float_arith = True
        self.fp_used = True
        return E("Fp.%s %s %s" % (op, paren(l.sub()), paren(r.sub())), F, True)

    def unopt(self, e, node):
        if isinstance(e.ty, tuple) and e.ty[0] == "opt":
            return E("Py.need %s" % paren(e.sub()), e.ty[1], True)
        return e

    def e_Compare(self, n):
        if len(n.ops) != 1:
            raise self.err(n, "chained comparison")
        op, ln, rn = n.ops[0], n.left, n.comparators[0]
        if isinstance(op, (ast.Is, ast.IsNot)):
            if not (isinstance(rn, ast.Constant) and rn.value is None):
                raise self.err(n, "`is` with something other than None")
            l = self.expr(ln)
            if l.ty == "filearg":
                code = "%s.isNone" % paren(l.sub())
            elif isinstance(l.ty, tuple) and l.ty[0] == "opt":
                code = "%s.isNone" % paren(l.sub())
            else:
                raise self.err(n, "`is None` on a value of type %s (never None in the declared typing)" % (l.ty,))
            return E(code if isinstance(op, ast.Is) else "(!%s)" % code, "bool")
        if isinstance(op, (ast.In, ast.NotIn)) and isinstance(rn, (ast.Tuple, ast.List)) and rn.elts and \
                all(isinstance(x, ast.Constant) and isinstance(x.value, str) for x in rn.elts):
            # membership in a literal tuple / list of strings: `==` against each, in order (str.__eq__ never raises)
            l = self.strlike(self.expr(ln), n)
            code = "[%s].contains %s" % (", ".join(str_lit(x.value) for x in rn.elts), paren(l.sub()))
            return E("(!%s)" % code if isinstance(op, ast.NotIn) else code, "bool")
        l, r = self.expr(ln), self.expr(rn)
        if isinstance(op, (ast.Eq, ast.NotEq)) and {l.ty, r.ty} <= {"tz", ("opt", "tz")}:
            # tzinfo objects: `None != tz` is True; two tzinfo objects compare by the prelude's equality of `Np.Tz`
            sym = "==" if isinstance(op, ast.Eq) else "!="
            l, r = self.coerce(l, ("opt", "tz"), n), self.coerce(r, ("opt", "tz"), n)
            return E("(%s %s %s)" % (l.sub(), sym, r.sub()), "bool")
        if isinstance(op, (ast.In, ast.NotIn)):
            neg = isinstance(op, ast.NotIn)
            if isinstance(r.ty, tuple) and r.ty[0] == "dict":
                k = self.coerce(l, r.ty[1], n)
                code = "Py.dictHas %s %s" % (paren(r.sub()), paren(k.sub()))
            elif isinstance(r.ty, tuple) and r.ty[0] == "list":
                k = self.coerce(l, r.ty[1], n)
                code = "%s.contains %s" % (paren(r.sub()), paren(k.sub()))
            elif r.ty == "filearg":
                k = self.strlike(l, n)
                e = E("Py.strInFileArg %s %s" % (paren(k.sub()), paren(r.sub())), "bool", True)
                return E("(!%s)" % e.sub(), "bool") if neg else e
            else:
                k, s = self.strlike(l, n), self.strlike(r, n)
                code = "Py.contains %s %s" % (paren(k.sub()), paren(s.sub()))
            return E("(!%s)" % code if neg else code, "bool")
        if isinstance(op, (ast.Eq, ast.NotEq)):
            sym = "==" if isinstance(op, ast.Eq) else "!="
            if l.ty == r.ty and l.ty in ("int", "str", "bool", "fnref", "char"):
                return E("(%s %s %s)" % (l.sub(), sym, r.sub()), "bool")
            if {l.ty, r.ty} == {"str", "char"}:
                l, r = self.coerce(l, "str", n), self.coerce(r, "str", n)
                return E("(%s %s %s)" % (l.sub(), sym, r.sub()), "bool")
            if l.ty == opt("str") and r.ty in ("str", "char") or r.ty == opt("str") and l.ty in ("str", "char"):
                l, r = self.coerce(l, opt("str"), n), self.coerce(r, opt("str"), n)     # None == "x" is False, no error
                return E("(%s %s %s)" % (l.sub(), sym, r.sub()), "bool")
            raise self.err(n, "equality between %s and %s" % (l.ty, r.ty))
        if isinstance(op, (ast.Lt, ast.LtE, ast.Gt, ast.GtE)) and F in (l.ty, r.ty) and {l.ty, r.ty} <= {F, "int"}:
            self.float_arith = True
            l, r = self.coerce(l, F, n), self.coerce(r, F, n)
            fn = {ast.Lt: "lt", ast.LtE: "le", ast.Gt: "gt", ast.GtE: "ge"}[type(op)]
            return E("(FloatArith.%s %s %s)" % (fn, paren(l.sub()), paren(r.sub())), "bool")
        if isinstance(op, (ast.Lt, ast.LtE, ast.Gt, ast.GtE)):
            if l.ty == "int" and r.ty == "int":
                sym = {ast.Lt: "<", ast.LtE: "≤", ast.Gt: ">", ast.GtE: "≥"}[type(op)]
                return E("decide (%s %s %s)" % (l.sub(), sym, r.sub()), "bool")
        raise self.err(n, "comparison %s on %s and %s" % (type(op).__name__, l.ty, r.ty))

    def e_BoolOp(self, n):
        """only as a truth value (conditions): `a and b`, `a or b` with short-circuit evaluation"""
        es = [self.truthy(self.expr(v), v) for v in n.values]
        is_and = isinstance(n.op, ast.And)
        acc = es[-1]
        for e in reversed(es[:-1]):
            if acc.mon or "←" in acc.code:
                # the right operand may raise: it must not be evaluated when the left one decides
                rhs = "(do return %s)" % acc.sub()
                if is_and:
                    acc = E("(if %s then %s else pure false)" % (e.sub(), rhs), "bool", True)
                else:
                    acc = E("(if %s then pure true else %s)" % (e.sub(), rhs), "bool", True)
            else:
                acc = E("(%s %s %s)" % (e.sub(), "&&" if is_and else "||", acc.code), "bool", False)
        return acc

    def e_ListComp(self, n):
        """`[e for x in xs]` (one `for`, no `if`): the elements in order; the first exception ends it"""
        if len(n.generators) != 1:
            raise self.err(n, "comprehension with several `for`")
        g = n.generators[0]
        if not g.is_async and isinstance(g.target, ast.Tuple) and len(g.target.elts) == 2 and \
                all(isinstance(x, ast.Name) for x in g.target.elts):
            return self.listcomp_pairs(n, g)
        if g.ifs or g.is_async or not isinstance(g.target, ast.Name):
            raise self.err(n, "comprehension with `if` / a target that is not a name")
        var = g.target.id
        if var in self.env or var in self.hoist or var in self.consts or var in self.scoped_out:
            raise self.err(n, "the comprehension variable re-uses the name of another local")
        it = self.seqlike(self.expr(g.iter), g.iter)
        el = "char" if it.ty == "str" else it.ty[1]
        self.env[var] = el
        self.assigned.add(var)
        try:
            e = self.expr(n.elt)
            if isinstance(e, CallE) and (e.done.writes_self or e.iter_args):
                raise self.err(n, "the element expression changes an object / an iterator")
        finally:
            del self.env[var]
            self.assigned.discard(var)
        ety = e.ty if e.ty != "char" else "str"
        if e.ty == "char":
            e = self.coerce(e, "str", n)
        if not e.mon and "←" not in e.code:
            return E("(%s.map fun %s => %s)" % (paren(it.sub()), self.ln(var), e.code), lst(ety), it.mon and False)
        return E("%s.mapM fun %s => do return %s" % (paren(it.sub()), self.ln(var), e.sub()), lst(ety), True)

    def listcomp_pairs(self, n, g):
        """`[e for a, b in pairs if c ...]`: in order; the conditions and the element are evaluated per pair"""
        it = self.expr(g.iter)
        if not (isinstance(it.ty, tuple) and it.ty[0] == "list" and isinstance(it.ty[1], tuple) and it.ty[1][0] == "tuple"
                and len(it.ty[1][1]) == 2):
            raise self.err(n, "a two-name comprehension target over a %s" % (it.ty,))
        names = [x.id for x in g.target.elts]
        for var in names:
            if var in self.env or var in self.hoist or var in self.consts or var in self.scoped_out:
                raise self.err(n, "the comprehension variable re-uses the name of another local")
        for var, t in zip(names, it.ty[1][1]):
            self.env[var] = t
            self.assigned.add(var)
        try:
            conds = [self.truthy(self.expr(c), c) for c in g.ifs]
            e = self.expr(n.elt)
        finally:
            for var in names:
                del self.env[var]
                self.assigned.discard(var)
        self.tmp += 1
        pv = "kv__%d" % self.tmp
        cond = " && ".join(paren(c.sub()) for c in conds) if conds else "true"
        if len(conds) > 1 and any(c.mon or "←" in c.code for c in conds[1:]):
            raise self.err(n, "several conditions of which a later one may raise")
        body = "let %s := %s.1; let %s := %s.2; if %s then return some %s else return none" % (
            self.ln(names[0]), pv, self.ln(names[1]), pv, cond, paren(e.sub()))
        return E("%s.filterMapM fun %s => do %s" % (paren(it.sub()), pv, body), lst(e.ty), True)

    def e_IfExp(self, n):
        """`a if c else b`: only the chosen operand is evaluated"""
        c = self.truthy(self.expr(n.test), n.test)
        a, b = self.expr(n.body), self.expr(n.orelse)
        t = self.join(a.ty if a.ty != "char" else "str", b.ty if b.ty != "char" else "str")
        a, b = self.coerce(a, t, n), self.coerce(b, t, n)
        if not (a.mon or b.mon or "←" in a.code or "←" in b.code):
            return E("(if %s then %s else %s)" % (c.sub(), a.code, b.code), t)
        def arm(x):
            return x.code if x.mon and "←" not in x.code else "(do return %s)" % x.sub()
        return E("(if %s then %s else %s)" % (c.sub(), arm(a), arm(b)), t, True)

    def e_JoinedStr(self, n):
        raise self.err(n, "f-string outside a message")

    def e_Call(self, n):
        f = n.func
        fname = ast.unparse(f)
        args, kws = n.args, {k.arg: k.value for k in n.keywords}
        if any(k.arg is None for k in n.keywords) or any(isinstance(a, ast.Starred) for a in args):
            raise self.err(n, "*args / **kwargs in a call")
        # --- builtins
        if fname == "int" and len(args) == 1 and not kws:
            a = self.expr(args[0])
            if a.ty == "int":
                return a
            if a.ty == F:
                self.float_arith = True
                return E("(FloatArith.toInt %s)" % paren(a.sub()), "int")
            a = self.strlike(a, n)
            if self.spec.int_is_cut:
                ext = EXTERNALS["int@field"]
                self.use_ext(ext)
                return E("%s %s" % (ext.param, paren(a.sub())), "int", True)
            return E("Py.int %s" % paren(a.sub()), "int", True)
        if fname == "io.StringIO" and not args and not kws:
            return E("([] : Str)", "wstream")      # a new, empty text stream held by a local: its content so far
        if fname == "dict" and len(args) == 1 and not kws:
            a = self.expr(args[0])
            if isinstance(a.ty, tuple) and a.ty[0] == "list" and isinstance(a.ty[1], tuple) and a.ty[1][0] == "tuple" \
                    and len(a.ty[1][1]) == 2 and a.ty[1][1][0] == "str":
                # a NEW dict built from (key, value) pairs, later pairs overwriting earlier ones
                return E("Py.dictOfPairs %s" % paren(a.sub()), ("dict", "str", a.ty[1][1][1]))
            raise self.err(n, "dict() of a %s" % (a.ty,))
        if fname == "float" and len(args) == 1 and not kws:
            a = self.expr(args[0])
            if a.ty == F:
                return a         # `float(x)` of a float: the Python float of the same value
            if a.ty == "int":
                return self.coerce(a, F, n)
        if isinstance(f, ast.Name) and isinstance(self.env.get(f.id), tuple) and self.env[f.id][0] == "fn" and not kws:
            ft = self.env[f.id]
            if f.id not in self.assigned or len(args) != len(ft[1]):
                raise self.err(n, "call of the callable argument")
            es = [self.coerce_arg(self.expr(a), t, a) for a, t in zip(args, ft[1])]
            return E("%s %s" % (self.ln(f.id), " ".join(paren(e.sub()) for e in es)), ft[2], True)
        if fname in ("np.abs", "abs") and len(args) == 1 and not kws:
            a = self.expr(args[0])
            if a.ty == F:
                self.float_arith = True
                return E("(FloatArith.abs %s)" % paren(a.sub()), F)
            raise self.err(n, "abs of a %s" % (a.ty,))
        if fname == "hasattr" and len(args) == 2 and not kws and isinstance(args[1], ast.Constant) \
                and isinstance(args[1].value, str):
            a = self.expr(args[0])
            if a.ty != NPV:
                raise self.err(n, "hasattr on a %s" % (a.ty,))
            return E("Np.hasattr %s %s" % (paren(a.sub()), str_lit(args[1].value)), "bool", True)
        if fname == "np.datetime64" and len(args) == 1 and not kws and isinstance(args[0], ast.Constant) \
                and isinstance(args[0].value, str) and self.spec.npvals:
            return E("Np.datetime64Iso %s" % str_lit(args[0].value), NPV, True)
        if fname == "np.timedelta64" and len(args) == 2 and not kws and self.const_int(args[0]) is not None \
                and isinstance(args[1], ast.Constant) and isinstance(args[1].value, str) and self.spec.npvals:
            return E("(Np.timedelta64 (%d : Int) %s)" % (self.const_int(args[0]), str_lit(args[1].value)), NPV)
        if fname == "np.timedelta64" and len(args) == 2 and not kws and self.const_int(args[0]) is not None \
                and isinstance(args[1], ast.Constant) and isinstance(args[1].value, str):
            self.time_ops = True
            return E('(TimeOps.td (T := T) (%d : Int) "%s" : TD)' % (self.const_int(args[0]), args[1].value), TD)
        if fname == "os.getenv" and len(args) == 2 and not kws:
            g = GLOBALS["os.environ"]
            self.use_ext(g)
            k = self.coerce(self.expr(args[0]), "str", n)
            d = self.coerce(self.expr(args[1]), "str", n)
            return E("Py.dictGetD %s %s %s" % (g.param, paren(k.sub()), paren(d.sub())), "str")
        if fname == "len" and len(args) == 1 and not kws:
            a = self.expr(args[0])
            if isinstance(a.ty, tuple) and a.ty[0] == "dict":
                return E("(%s.length : Int)" % paren(a.sub()), "int")
            a = self.seqlike(a, n)
            return E("(%s.length : Int)" % paren(a.sub()), "int")
        if fname == "str" and len(args) == 1 and not kws:
            a = self.expr(args[0])
            if a.ty in ("str", "char"):
                return self.coerce(a, "str", n)
            raise self.err(n, "str() of a %s outside a message" % (a.ty,))
        if fname == "next" and len(args) == 1 and not kws:
            if not (isinstance(args[0], ast.Name) and isinstance(self.env.get(args[0].id), tuple)
                    and self.env[args[0].id][0] == "iter"):
                raise self.err(n, "next() of something that is not a local iterator")
            it = args[0].id
            return E("__NEXT__%s" % it, self.env[it][1], True)
        if fname == "isinstance" and len(args) == 2 and not kws:
            a = self.expr(args[0])
            cls = ast.unparse(args[1])
            if a.ty == "filearg" and cls == "io.StringIO":
                return E("%s.isIO" % paren(a.sub()), "bool")
            if a.ty == "filearg" and cls == "str":
                return E("%s.isPath" % paren(a.sub()), "bool")
            raise self.err(n, "isinstance on %s" % (a.ty,))
        if fname in ("max", "min") and len(args) == 2 and not kws:
            a, b = self.expr(args[0]), self.expr(args[1])
            a, b = self.unopt(a, n), self.unopt(b, n)
            if a.ty == "int" and b.ty == "int":
                # Python: max(a, b) is b if b > a else a; on ints the value is Lean's max / min
                return E("(%s %s %s)" % (fname, paren(a.sub()), paren(b.sub())), "int")
            if {a.ty, b.ty} <= {"int", F}:
                # a mixed int / float max: Python returns one of the two objects; held here as the float of the same value
                self.float_arith = True
                a, b = self.coerce(a, F, n), self.coerce(b, F, n)
                return E("(FloatArith.%s %s %s)" % (fname, paren(a.sub()), paren(b.sub())), F)
            raise self.err(n, "%s of %s and %s" % (fname, a.ty, b.ty))
        if fname == "max" and len(args) == 1 and set(kws) == {"key"}:
            a = self.expr(args[0])
            key = ast.unparse(kws["key"])
            if key not in KEYFUNCS or a.ty != lst(KEYFUNCS[key].args[0]):
                raise self.err(n, "max with this key / sequence")
            self.use_ext(KEYFUNCS[key])
            return E("Py.maxByKey %s %s" % (KEYFUNCS[key].param, paren(a.sub())), a.ty[1], True)
        # --- methods of str / list / dict values
        if isinstance(f, ast.Attribute) and fname not in EXTERNALS and not self.is_self_method(f):
            return self.method_call(n, f, args, kws)
        # --- externals
        key = fname
        if key in self.spec.cuts:
            EXTERNALS_ = dict(EXTERNALS)
            EXTERNALS_[key] = CUT_CALLS[key]
        else:
            EXTERNALS_ = EXTERNALS
        if key in EXTERNALS_:
            ext = EXTERNALS_[key]
            for k, v in ext.kwargs.items():
                if k not in kws or ast.unparse(kws[k]) != v:
                    raise self.err(n, "external %s must be called with %s=%s" % (key, k, v))
            args = list(args)
            for k in list(kws):
                if k in ext.kwargs:
                    continue
                if ext.argnames and k in ext.argnames and ext.argnames.index(k) == len(args):
                    args.append(kws[k])
                else:
                    raise self.err(n, "keyword argument %s of external %s" % (k, key))
            if len(args) != len(ext.args):
                raise self.err(n, "arguments of external " + key)
            es = [self.coerce_arg(self.expr(a), t, a, ext.none_typeerror) for a, t in zip(args, ext.args)]
            self.use_ext(ext)
            return E("%s %s" % (ext.param, " ".join(paren(e.sub()) for e in es)), ext.ret, ext.mon)
        # --- module functions whose first argument is the store of the object
        if isinstance(f, ast.Name) and args and self.cls is not None and self.cls.get("heap_attr") and \
                ast.unparse(args[0]) == "self." + self.cls["heap_attr"] and not kws:
            es = [self.expr(a) for a in args[1:]]
            key_ = (self.spec.cls, f.id, tuple(str(e_.ty) for e_ in es))
            if key_ in STORE_METHODS:
                ext = STORE_METHODS[key_]
                self.use_ext(ext)
                return E("%s %s" % (ext.param, " ".join(paren(e_.sub()) for e_ in es)), ext.ret, True)
            raise self.err(n, "function %s on the store with arguments of types %s" % (f.id, key_[2]))
        # --- methods of self that are parameters (cut points)
        if isinstance(f, ast.Attribute) and self.is_self_method(f) and (self.spec.cls, f.attr) in SELF_METHOD_EXTS \
                and (f.attr in self.spec.cuts or
                     not any(d.spec.qualname == "%s.%s" % (self.spec.cls, f.attr) for d in self.done)):
            ext = SELF_METHOD_EXTS[(self.spec.cls, f.attr)]
            for k, v in ext.kwargs.items():
                if k not in kws or ast.unparse(kws[k]) != v:
                    raise self.err(n, "method %s must be called with %s=%s" % (f.attr, k, v))
            if set(kws) - set(ext.kwargs) or len(args) != len(ext.args):
                raise self.err(n, "arguments of method " + f.attr)
            es = [self.coerce_arg(self.expr(a), t, a) for a, t in zip(args, ext.args)]
            self.use_ext(ext)
            return E("%s %s" % (ext.param, " ".join(paren(e.sub()) for e in es)), ext.ret, ext.mon)
        # --- translated functions
        return self.call_translated(n, f, fname, args, kws)

    def coerce_arg(self, e, t, node, none_typeerror=False):
        """argument passing: Optional is unwrapped only if the callee needs a non-Optional (TypeError on None is what
        an operation inside the callee would give; for externals we refuse instead)"""
        if e.ty == "filearg" and t == "str":
            return E("FileArg.asPath %s" % paren(e.sub()), "str", True)
        if none_typeerror and isinstance(e.ty, tuple) and e.ty[0] == "opt" and e.ty[1] == t:
            return E("Py.need %s" % paren(e.sub()), t, True)
        try:
            return self.coerce(e, t, node)
        except TransError:
            raise self.err(node, "argument of type %s for a parameter of type %s" % (e.ty, t))

    def split_tuple(self, code):
        """the components of a tuple expression `(a, b, c)` emitted by e_Tuple"""
        assert code[0] == "(" and code[-1] == ")"
        parts, depth_, cur = [], 0, ""
        for ch in code[1:-1]:
            if ch in "([":
                depth_ += 1
            elif ch in ")]":
                depth_ -= 1
            if ch == "," and depth_ == 0:
                parts.append(cur.strip())
                cur = ""
            else:
                cur += ch
        parts.append(cur.strip())
        return parts

    def is_self_method(self, f):
        return isinstance(f.value, ast.Name) and f.value.id == "self" and self.cls is not None

    def method_call(self, n, f, args, kws):
        m = f.attr
        if m == "fetchone" and not args and not kws and isinstance(f.value, ast.Call) and self.cls is not None \
                and self.cls.get("heap_attr") and ast.unparse(f.value.func) == "self.%s.execute" % self.cls["heap_attr"] \
                and len(f.value.args) == 1 and not f.value.keywords:
            q = self.coerce(self.expr(f.value.args[0]), "str", n)
            ext = STORE_FETCHONE[self.spec.cls]
            self.use_ext(ext)
            return E("%s %s" % (ext.param, paren(q.sub())), ext.ret, True)
        if self.cls is not None and self.cls.get("heap_attr") and ast.unparse(f.value) == "self." + self.cls["heap_attr"]:
            if kws:
                raise self.err(n, "keyword arguments to a method of the store")
            es = []
            for a in args:
                e_ = self.expr(a)
                if isinstance(e_.ty, tuple) and e_.ty[0] == "tuple":     # a parameter tuple is passed as its components
                    tmp = e_.sub()
                    m_ = re.fullmatch(r"\((.*)\)", tmp)
                    parts_ = self.split_tuple(tmp)
                    es += [E(c_, t_) for c_, t_ in zip(parts_, e_.ty[1])]
                else:
                    es.append(e_)
            key_ = (self.spec.cls, m, tuple(str(e_.ty) if e_.ty != "char" else "str" for e_ in es))
            if key_ not in STORE_METHODS:
                raise self.err(n, "method %s of the store with arguments of types %s" % (m, key_[2]))
            ext = STORE_METHODS[key_]
            self.use_ext(ext)
            return E("%s %s" % (ext.param, " ".join(paren(self.coerce(e_, t_, n).sub()) for e_, t_ in zip(es, ext.args))), ext.ret, True)
        recv = self.expr(f.value)
        if isinstance(recv.ty, tuple) and recv.ty[0] == "abs" and (recv.ty[1], m) in ABS_METHODS:
            ext = ABS_METHODS[(recv.ty[1], m)]
            args = list(args)
            for k in kws:
                if ext.argnames and k in ext.argnames and ext.argnames.index(k) == len(args) + 1:
                    args.append(kws[k])
                else:
                    raise self.err(n, "keyword argument %s of method %s" % (k, m))
            if len(args) + 1 != len(ext.args):
                raise self.err(n, "arguments of method " + m)
            es = [recv] + [self.coerce_arg(self.expr(a), t, a) for a, t in zip(args, ext.args[1:])]
            self.use_ext(ext)
            return E("%s %s" % (ext.param, " ".join(paren(e.sub()) for e in es)), ext.ret, ext.mon)
        if kws:
            raise self.err(n, "keyword arguments to a method")
        if recv.ty == "wstream" and m == "getvalue" and not args:
            return E(recv.code, "str", recv.mon)
        if recv.ty == NPV:
            if m == "astype" and len(args) == 1 and isinstance(args[0], ast.Constant) and isinstance(args[0].value, str):
                return E("Np.astype %s %s" % (paren(recv.sub()), str_lit(args[0].value)), NPV, True)
            raise self.err(n, "no rule for method .%s on a tagged numpy value" % m)
        if isinstance(recv.ty, tuple) and recv.ty[0] == "dict":
            if m == "get" and len(args) == 2:
                k = self.coerce(self.expr(args[0]), recv.ty[1], n)
                d = self.coerce(self.expr(args[1]), recv.ty[2], n)
                return E("Py.dictGetD %s %s %s" % (paren(recv.sub()), paren(k.sub()), paren(d.sub())), recv.ty[2])
            if m == "get" and len(args) == 1:
                k = self.coerce(self.expr(args[0]), recv.ty[1], n)
                return E("Py.dictGet? %s %s" % (paren(recv.sub()), paren(k.sub())), opt(recv.ty[2]))
            raise self.err(n, "dict method")
        if m == "join" and len(args) == 1:
            sep = self.strlike(recv, n, attr=True)
            a = self.expr(args[0])
            if a.ty == lst("any"):
                a = E("([] : List Str)", lst("str"))
            if a.ty == lst(opt("str")):
                return E("Py.joinOpt %s %s" % (paren(sep.sub()), paren(a.sub())), "str", True)
            if a.ty != lst("str"):
                raise self.err(n, "join of a %s" % (a.ty,))
            return E("Py.join %s %s" % (paren(sep.sub()), paren(a.sub())), "str")
        s = self.strlike(recv, n, attr=True)
        if m == "strip" and not args:
            return E("Py.strip %s" % paren(s.sub()), "str")
        if m == "upper" and not args:
            return E("Py.upper %s" % paren(s.sub()), "str")
        if m == "isdigit" and not args:
            return E("Py.isdigit %s" % paren(s.sub()), "bool")
        if m == "startswith" and len(args) == 1:
            p = self.strlike(self.expr(args[0]), n)      # a None / tuple prefix is outside the typed subset
            return E("Py.startswith %s %s" % (paren(s.sub()), paren(p.sub())), "bool")
        if m == "split" and not args:
            return E("Py.splitWs %s" % paren(s.sub()), lst("str"))
        if m == "split" and len(args) == 1:
            if isinstance(args[0], ast.Constant) and isinstance(args[0].value, str) and len(args[0].value) == 1:
                return E("Py.splitChar %s %s" % (char_lit(args[0].value), paren(s.sub())), lst("str"))
            raise self.err(n, "split with a separator that is not a one-character literal")
        raise self.err(n, "no rule for method .%s on str" % m)

    def call_translated(self, n, f, fname, args, kws):
        is_ctor = False
        if isinstance(f, ast.Attribute) and self.is_self_method(f):
            qual = "%s.%s" % (self.spec.cls, f.attr)
            is_method = True
        elif isinstance(f, ast.Name):
            qual = f.id
            is_method = False
            local = self.spec.qualname + "." + f.id
            if any(d.spec.qualname == local for d in self.done):
                qual = local
            elif f.id in CLASSES and any(d.spec.qualname == f.id + ".__init__" for d in self.done) \
                    and CLASSES[f.id]["module"] == self.spec.module:
                qual = f.id + ".__init__"      # `Cls(args)`: a new object, initialised by the translated `__init__`
                is_ctor = True
        else:
            raise self.err(n, "call of an unknown callee")
        # bind arguments by name to find specialisations
        cands = [d for d in self.done if d.spec.qualname == qual]
        if not cands:
            raise self.err(n, "callee is neither translated nor a declared external")
        fn_node = cands[0].node
        pnames = [a.arg for a in fn_node.args.args]
        if is_method or cands[0].spec.cls:
            pnames = pnames[1:]
        if len(args) > len(pnames):
            raise self.err(n, "too many arguments")
        bound = dict(zip(pnames, args))
        for k, v in kws.items():
            if k in bound or k not in pnames:
                raise self.err(n, "keyword argument " + k)
            bound[k] = v
        dflt = dict(zip(pnames[len(pnames) - len(fn_node.args.defaults):], fn_node.args.defaults))
        for p in pnames:
            if p not in bound:
                if p not in dflt:
                    raise self.err(n, "missing argument " + p)
                if not isinstance(dflt[p], ast.Constant):
                    raise self.err(n, "default value of parameter %s is not a literal" % p)
                bound[p] = dflt[p]
        chosen = None
        for d in cands:
            ok = True
            for pi, c in d.spec.special.items():
                v = bound[pnames[pi]]
                if isinstance(v, ast.Name) and v.id in self.consts:
                    v = ast.Constant(self.consts[v.id])
                if not (isinstance(v, ast.Constant) and v.value is c or (isinstance(v, ast.Constant) and v.value == c
                                                                         and type(v.value) is type(c))):
                    ok = False
            if ok:
                chosen = d
                break
        if chosen is None:
            raise self.err(n, "no specialisation of the callee fits this call")
        d = chosen
        if d.spec.module != self.spec.module and not is_method:
            # the name must be bound by `from pyorbital[.module] import name` and by nothing else at module level
            want_mod = "pyorbital" if d.spec.module == "__init__" else "pyorbital." + d.spec.module
            binders = []
            for st in self.mod.tree.body:
                if isinstance(st, ast.ImportFrom):
                    for al in st.names:
                        if (al.asname or al.name) == qual:
                            binders.append((st.module, al.name, st.level))
                elif isinstance(st, (ast.FunctionDef, ast.ClassDef)) and st.name == qual:
                    binders.append(("def", qual, 0))
                elif isinstance(st, (ast.Assign, ast.AugAssign, ast.AnnAssign)):
                    for x in ast.walk(st):
                        if isinstance(x, ast.Name) and x.id == qual and isinstance(x.ctx, ast.Store):
                            binders.append(("assign", qual, 0))
            if binders != [(want_mod, qual, 0)]:
                raise self.err(n, "the callee `%s` is not bound (only) by `from %s import %s` in this module" % (qual, want_mod, qual))
        for x in d.ext_params:
            self.use_ext(x)
        if d.float_ops:
            self.float_ops = True
        if getattr(d, "float_arith", False):
            self.float_arith = True
        if getattr(d, "time_ops", False):
            self.time_ops = True
        if getattr(d, "stateful", False):
            self.stateful = True
        parts = [d.lean_name] + [x.param for x in d.ext_params]
        if d.spec.cls and is_ctor:
            pass
        elif d.spec.cls:
            if not is_method:
                raise self.err(n, "method called without self")
            if self.in_init and set(self.cls["attrs"]) - self.self_assigned:
                raise self.err(n, "method called in __init__ before every declared attribute is assigned: %s" % sorted(
                    set(self.cls["attrs"]) - self.self_assigned))
            parts.append("self")
        iter_args = []
        for p, t in d.params:
            e = self.expr(bound[p])
            if isinstance(t, tuple) and t[0] == "iter":
                if not (isinstance(bound[p], ast.Name) and e.ty == t):
                    raise self.err(n, "an iterator argument must be a local iterator variable")
                iter_args.append(bound[p].id)
            e = self.coerce_arg(e, t, bound[p])
            parts.append(paren(e.sub()))
        code = " ".join(parts)
        if is_ctor:
            if iter_args:
                raise self.err(n, "iterator argument to a constructor")
            return E(code, ("self", d.spec.cls), True)
        return CallE(code, d.ret, True, d, iter_args)

    # ---------- message expressions: evaluated for their exceptions only
    def effects(self, node, out):
        """append to `out` the monadic sub-expressions of a message / logging argument, in evaluation order"""
        if isinstance(node, ast.Constant) and isinstance(node.value, (str, int)):
            return
        if isinstance(node, ast.JoinedStr):
            for v in node.values:
                if isinstance(v, ast.Constant):
                    continue
                if isinstance(v, ast.FormattedValue) and v.format_spec is None:
                    self.effects(v.value, out)
                    continue
                raise self.err(node, "f-string part")
            return
        if isinstance(node, ast.BinOp) and isinstance(node.op, ast.Mod) and isinstance(node.left, ast.Constant) \
                and isinstance(node.left.value, str):
            if isinstance(node.right, ast.Tuple):
                for x in node.right.elts:
                    self.effects(x, out)
            else:
                self.effects(node.right, out)
            return
        if isinstance(node, ast.BinOp) and isinstance(node.op, ast.Add):
            e = None
            try:
                e = self.expr(node)
            except TransError:
                pass
            if e is not None:
                if e.mon or "←" in e.code:
                    out.append(e)
                return
            self.effects(node.left, out)
            self.effects(node.right, out)
            return
        if isinstance(node, ast.Call):
            fn = ast.unparse(node.func)
            if fn == "str" and len(node.args) == 1 and not node.keywords:
                self.effects(node.args[0], out)
                return
            if isinstance(node.func, ast.Attribute) and node.func.attr == "format" and isinstance(node.func.value, ast.Constant):
                for a in node.args:
                    self.effects(a, out)
                for k in node.keywords:
                    self.effects(k.value, out)
                return
        e = self.expr(node)
        if e.mon or "←" in e.code:
            out.append(e)

    # ---------- statements
    def terminates(self, stmts):
        """does control never fall off the end of this statement list?"""
        if not stmts:
            return False
        if any(self.ends_here(x) for x in stmts):
            return True
        s = stmts[-1]
        if isinstance(s, ast.If):
            return bool(s.orelse) and self.terminates(s.body) and self.terminates(s.orelse)
        if isinstance(s, ast.With):
            return self.terminates(s.body)
        if isinstance(s, ast.Try) and not s.finalbody and not s.orelse:
            return self.terminates(s.body) and all(self.terminates(h.body) for h in s.handlers)
        if isinstance(s, ast.While) and isinstance(s.test, ast.Constant) and s.test.value is True and not s.orelse \
                and not self.has_break(s.body):
            return True
        return False

    def has_break(self, stmts):
        """a `break` that belongs to the loop whose body this is"""
        for x in stmts:
            if isinstance(x, ast.Break):
                return True
            if isinstance(x, (ast.For, ast.While)):
                if self.has_break(x.orelse):
                    return True
                continue
            for fld in ("body", "orelse", "finalbody"):
                if self.has_break(getattr(x, fld, []) or []):
                    return True
            for h in getattr(x, "handlers", []) or []:
                if self.has_break(h.body):
                    return True
        return False

    def jumps(self, stmts):
        """does control never reach the statement after this list (return / raise / continue / break)?"""
        if not stmts:
            return False
        s = stmts[-1]
        if isinstance(s, (ast.Return, ast.Raise, ast.Continue, ast.Break)):
            return True
        if isinstance(s, ast.If):
            return bool(s.orelse) and self.jumps(s.body) and self.jumps(s.orelse)
        if isinstance(s, ast.Try) and not s.finalbody and not s.orelse:
            return self.jumps(s.body) and all(self.jumps(h.body) for h in s.handlers)
        return False

    def block(self, stmts, depth, top=False):
        """translate a statement list; names first bound inside go out of scope at its end (unless top)"""
        if top:
            self.reassigned_params = set()
        before = set(self.env)
        out = []
        for i, s in enumerate(stmts):
            if i == 0 and isinstance(s, ast.Expr) and isinstance(s.value, ast.Constant) and isinstance(s.value.value, str):
                continue     # docstring
            m = getattr(self, "s_" + type(s).__name__, None)
            if m is None:
                raise self.err(s, "no rule for statement " + type(s).__name__)
            ls = m(s, depth)
            out += ls
            if self.ends_here(s):
                break        # what follows an unconditional return / raise is never executed
        if not top:
            for nme in set(self.env) - before:
                self.scoped_out[nme] = self.env.pop(nme)
                self.assigned.discard(nme)
        if not out:
            out = ["  " * depth + "pure ()"]
        return out

    def ind(self, depth, text):
        return "  " * depth + text

    def bind_call(self, e, depth, pre):
        """a call of a translated function that returns more than its value (self / iterators): bind and unpack"""
        if isinstance(e, CallE) and (e.done.writes_self or e.iter_args):
            v = self.fresh("r")
            names = []
            if e.done.ret != "unit":
                names.append(v)
            if e.done.writes_self:
                names.append("self")
                self.writes_self = True
            names += [self.ln(x) for x in e.iter_args]
            tmp = self.fresh("p")
            pre.append(self.ind(depth, "let %s ← %s" % (tmp, e.code)))
            # unpack the right-nested tuple
            acc = tmp
            for i, nm in enumerate(names):
                last = i == len(names) - 1
                proj = acc if last else acc + ".1"
                if nm == v:
                    pre.append(self.ind(depth, "let %s := %s" % (v, proj)))
                else:
                    pre.append(self.ind(depth, "%s := %s" % (nm, proj)))
                acc = acc + ".2"
            return E(v if e.done.ret != "unit" else "()", e.done.ret, False)
        return e

    def rhs(self, node, depth, pre):
        """an expression in statement position (right-hand side / condition / argument)"""
        e = self.expr(node)
        e = self.bind_call(e, depth, pre)
        if "__NEXT__" in e.code:
            e = self.resolve_next(e, depth, pre)
        return e

    def resolve_next(self, e, depth, pre):
        code = e.code
        # each `next(it)` in evaluation order
        while True:
            m = re.search(r"__NEXT__([A-Za-z_0-9]+)", code)
            if not m:
                break
            it = m.group(1)
            v = self.fresh("nx")
            pre.append(self.ind(depth, "let %s ← Py.next %s" % (v, self.ln(it))))
            pre.append(self.ind(depth, "%s := %s.2" % (self.ln(it), v)))
            # the placeholder may be wrapped as (← __NEXT__it)
            if "(← __NEXT__%s)" % it in code:
                code = code.replace("(← __NEXT__%s)" % it, "%s.1" % v, 1)
            else:
                code = code.replace("__NEXT__%s" % it, "(pure %s.1)" % v, 1)
        return E(code, e.ty, e.mon)

    def s_Pass(self, s, depth):
        return []

    def s_Import(self, s, depth):
        """`import pprint` inside a function: binds a module name (nothing the translation keeps)"""
        for al in s.names:
            if al.name not in ("pprint",) or al.asname:
                raise self.err(s, "import of this module inside a function")
        return []

    def s_Expr(self, s, depth):
        v = s.value
        if isinstance(v, ast.Constant) and isinstance(v.value, str):
            return []
        if not isinstance(v, ast.Call):
            raise self.err(s, "expression statement that is not a call")
        fname = ast.unparse(v.func)
        pre = []
        if re.fullmatch(r"(LOGGER|logging|logger)\.(debug|info|warning|error|critical)", fname):
            # logging never raises by itself; its arguments are evaluated (they may raise)
            outs = []
            for a in v.args:
                self.effects(a, outs)
            if v.keywords:
                raise self.err(s, "keyword arguments to a logging call")
            lines = []
            for e in outs:
                e = self.bind_call(e, depth, lines)
                if "__NEXT__" in e.code:
                    e = self.resolve_next(e, depth, lines)
                lines.append(self.ind(depth, "let _ ← %s" % e.code if e.mon else "let _ := %s" % e.code))
            return lines
        if fname == "pprint.pprint" and len(v.args) == 2 and not v.keywords and isinstance(v.args[1], ast.Name) \
                and self.env.get(v.args[1].id) == "wstream":
            d = self.rhs(v.args[0], depth, pre)
            if not (isinstance(d.ty, tuple) and d.ty[0] == "dict" and d.ty[1] == "str"):
                raise self.err(s, "pprint of a %s" % (d.ty,))
            ext = Ext("pprint_text", [d.ty], "str", [], "what `pprint.pprint(d, stream)` writes to the stream for this dict "
                      "(the final newline included)")
            for x in self.ext_used:
                if x.param == ext.param:
                    ext = x
            self.use_ext(ext)
            nm = self.ln(v.args[1].id)
            return pre + [self.ind(depth, "%s := %s ++ %s %s" % (nm, nm, ext.param, paren(d.sub())))]
        if fname == "warnings.warn" and v.args and set(k.arg for k in v.keywords) <= {"stacklevel"}:
            # the warning itself is not kept (a filter that turns it into an exception is outside the translation);
            # its message is evaluated
            outs = []
            self.effects(v.args[0], outs)
            lines = []
            for e in outs:
                e = self.bind_call(e, depth, lines)
                lines.append(self.ind(depth, "let _ ← %s" % e.code if e.mon else "let _ := %s" % e.code))
            return lines
        if isinstance(v.func, ast.Attribute) and v.func.attr == "append" and isinstance(v.func.value, ast.Name) \
                and len(v.args) == 1 and not v.keywords:
            name = v.func.value.id
            t = self.env.get(name)
            if not (isinstance(t, tuple) and t[0] == "list"):
                raise self.err(s, ".append on something that is not a local list")
            self.no_alias(v.args[0], name, s)
            e = self.rhs(v.args[0], depth, pre)
            if t[1] == "any":
                t = lst(e.ty if e.ty != "char" else "str")
                self.retype(name, t, s)
            e = self.coerce(e, t[1], s)
            return pre + [self.ind(depth, "%s := %s ++ [%s]" % (self.ln(name), self.ln(name), e.sub()))]
        if isinstance(v.func, ast.Attribute) and v.func.attr == "write" and isinstance(v.func.value, ast.Name) \
                and self.env.get(v.func.value.id) == ("abs", "WFile") and len(v.args) == 1 and not v.keywords:
            fid = self.e_Name(v.func.value)
            e = self.coerce(self.rhs(v.args[0], depth, pre), "str", s)
            return pre + [self.ind(depth, "files__ := files__ ++ [(%s, %s)]" % (fid.sub(), e.sub()))]
        e = self.rhs(v, depth, pre)
        if e.ty != "unit":
            # a call whose value is discarded
            if e.mon:
                return pre + [self.ind(depth, "let _ ← %s" % e.code)]
            if "←" in e.code:
                return pre + [self.ind(depth, "let _ := %s" % e.code)]
            return pre
        if e.mon:
            return pre + [self.ind(depth, e.code)]
        return pre

    def retype(self, name, t, node):
        """a list created as `[]` gets its element type at the first append / +="""
        self.env[name] = t
        self.late_types[name] = t

    def declare_or_assign(self, name, e, depth, node):
        """`name = e`"""
        if name in self.consts:
            raise self.err(node, "assignment to a specialised parameter")
        if name in self.closure_captured:
            raise self.err(node, "assignment to a local after a closure over it was created (the closure would see the new value)")
        if name in self.spec.maybe_unbound:
            t = e.ty if e.ty != "char" else "str"
            if name in self.maybe_types and self.maybe_types[name] != t:
                raise self.err(node, "the possibly-unbound local `%s` gets values of two types" % name)
            if name not in self.maybe_types:
                self.maybe_types[name] = t
                raise NeedMaybe(name, t)
            e = self.coerce(e, t, node)
            self.env[name] = t
            return [self.ind(depth, "%s := some %s" % (self.ln(name), paren(e.sub())))]
        if name in self.env:
            t = self.env[name]
            if isinstance(t, tuple) and t == lst("any") and isinstance(e.ty, tuple) and e.ty[0] == "list" and e.ty[1] != "any":
                t = e.ty
                self.retype(name, t, node)
            try:
                if e.ty == "int" and t == F:
                    raise TransError("an int assigned to a name that held a float stays an int")
                e2 = self.coerce(e, t, node)
            except TransError:
                # the name is rebound to a value of another type: a new Lean variable that shadows the old one.  Only
                # in the outermost block of the function (inside a branch the shadowing would end with the branch).
                if depth != 1 or self.loop_depth:
                    raise
                if e.ty in ("none", "char") or e.ty == lst("any"):
                    raise
                self.env[name] = e.ty
                self.assigned.add(name)
                code = e.sub()                  # (the old variable may occur in the new value)
                if any(name == p_ for p_, _ in self.params) and name not in self.rename and name not in self.reassigned_params:
                    pass                        # a parameter is not `mut`: it can be shadowed under its own name
                else:
                    self.tmp += 1
                    self.rename[name] = "%s__%d" % (name, self.tmp)
                return [self.ind(depth, "let mut %s : %s := %s" % (self.ln(name), lean_type(e.ty), code))]
            self.assigned.add(name)
            if any(name == p for p, _ in self.params):
                self.reassigned_params.add(name)
            return [self.ind(depth, "%s := %s" % (self.ln(name), e2.sub()))]
        # (a name that went out of scope with its block and is assigned again is simply declared again; a later READ of a
        #  name that is out of scope raises NeedHoist and the function is translated again with the name hoisted)
        if name in self.spec.locals:
            t = self.spec.locals[name]
            if e.ty == ("dict", "any", "any") and t[0] == "dict":
                e = E("([] : %s)" % lean_type(t), t)
            else:
                e = self.coerce(e, t, node)
        old = self.scoped_out.pop(name, None)
        if old is not None and old != e.ty:
            try:                       # keep the more general of the types the name has had (a hoisted declaration
                e = self.coerce(e, old, node)      # must take every value assigned to it)
            except TransError:
                pass
        t = e.ty
        if t == "none":
            raise self.err(node, "a local first assigned None (its type is unknown)")
        if t == "char":
            e = self.coerce(e, "str", node)
            t = "str"
        self.env[name] = t
        self.assigned.add(name)
        if t == lst("any"):
            return [self.ind(depth, "let mut %s : __TYPEOF_%s__ := []" % (self.ln(name), name))]
        return [self.ind(depth, "let mut %s : %s := %s" % (self.ln(name), lean_type(t), e.sub()))]

    def no_alias(self, value_node, dest_name, node):
        """`dest = src` / `d[k] = src` / `l.append(src)` with src the name of a list or dict: afterwards the same container
        is reachable under two names; refuse if either is changed in place anywhere in the function"""
        if isinstance(value_node, ast.Name) and value_node.id in self.env:
            t = self.env[value_node.id]
            if isinstance(t, tuple) and t[0] in ("list", "dict"):
                if value_node.id in self.mutated or (dest_name is not None and dest_name in self.mutated):
                    raise self.err(node, "the container `%s` gets a second name and is changed in place" % value_node.id)

    def assign_target(self, tgt, e, depth, node):
        if isinstance(node, ast.Assign):
            dest = tgt.id if isinstance(tgt, ast.Name) else (tgt.value.id if isinstance(tgt, ast.Subscript) and
                                                             isinstance(tgt.value, ast.Name) else None)
            self.no_alias(node.value, dest, node)
        if isinstance(tgt, ast.Name):
            return self.declare_or_assign(tgt.id, e, depth, node)
        if isinstance(tgt, ast.Attribute) and self.cls and ast.unparse(tgt).startswith("self.") and \
                ast.unparse(tgt)[5:] in self.cls.get("slots", {}):
            path = ast.unparse(tgt)[5:]
            e = self.coerce(e, self.cls["slots"][path], node)
            self.stateful = True
            sites = self.store_sites[path]
            site = sites.index((tgt.lineno, tgt.col_offset))
            return [self.ind(depth, "%s.store_%s %d %s" % (self.spec.cls, path.split(".")[-1], site, paren(e.sub())))]
        if isinstance(tgt, ast.Attribute) and isinstance(tgt.value, ast.Name) and tgt.value.id == "self" and self.cls:
            if tgt.attr not in self.cls["attrs"]:
                raise self.err(node, "attribute `%s` not declared in the translator's table" % tgt.attr)
            e = self.coerce(e, self.cls["attrs"][tgt.attr], node)
            self.writes_self = True
            self.self_assigned.add(tgt.attr)
            return [self.ind(depth, "self := { self with %s := %s }" % (tgt.attr, e.sub()))]
        if isinstance(tgt, ast.Subscript) and isinstance(tgt.value, ast.Name):
            name = tgt.value.id
            t = self.env.get(name)
            if isinstance(t, tuple) and t[0] == "dict":
                k = self.coerce(self.expr(tgt.slice), t[1], node)
                if t[2] == lst("any") and isinstance(e.ty, tuple) and e.ty[0] == "list" and e.ty[1] != "any":
                    t = ("dict", t[1], e.ty)
                    self.env[name] = t
                e = self.coerce(e, t[2], node)
                return [self.ind(depth, "%s := Py.dictSet %s %s %s" % (self.ln(name), self.ln(name), paren(k.sub()), paren(e.sub())))]
        raise self.err(node, "assignment target")

    def s_Assign(self, s, depth):
        if len(s.targets) != 1:
            raise self.err(s, "chained assignment")
        tgt = s.targets[0]
        pre = []
        if self.cls is not None and self.cls.get("heap_attr") and ast.unparse(tgt) == "self." + self.cls["heap_attr"]:
            if not (isinstance(s.value, ast.Call) and ast.unparse(s.value.func) in HEAP_OPENERS and len(s.value.args) == 1
                    and not s.value.keywords):
                raise self.err(s, "the store attribute is assigned something other than its declared opener")
            ext = HEAP_OPENERS[ast.unparse(s.value.func)]
            a = self.coerce_arg(self.rhs(s.value.args[0], depth, pre), ext.args[0], s)
            self.use_ext(ext)
            return pre + [self.ind(depth, "%s %s" % (ext.param, paren(a.sub())))]
        if isinstance(tgt, ast.Attribute) and isinstance(tgt.value, ast.Name) and tgt.value.id != "self" and \
                isinstance(self.env.get(tgt.value.id), tuple) and self.env[tgt.value.id][0] == "abs" and \
                (self.env[tgt.value.id][1], tgt.attr) in OBJ_ATTRS_NOT_KEPT:
            # an attribute set on an argument object that nothing in the translated code reads: the value is evaluated
            # (it may raise), the store itself is not kept
            e = self.rhs(s.value, depth, pre)
            if e.mon:
                pre.append(self.ind(depth, "let _ ← %s" % e.code))
            elif "←" in e.code:
                pre.append(self.ind(depth, "let _ := %s" % e.code))
            return pre
        e = self.rhs(s.value, depth, pre)
        if isinstance(tgt, ast.Tuple):
            n = len(tgt.elts)
            if isinstance(e.ty, tuple) and e.ty[0] == "opt" and isinstance(e.ty[1], tuple) and e.ty[1][0] == "tuple":
                e = self.unopt(e, s)      # unpacking None is a TypeError
            if isinstance(e.ty, tuple) and e.ty[0] == "tuple" and len(e.ty[1]) == n:
                tmp = self.fresh("u")
                pre.append(self.ind(depth, "let %s %s %s" % (tmp, "←" if e.mon else ":=", e.code)))
                acc = tmp
                for i, (x, t) in enumerate(zip(tgt.elts, e.ty[1])):
                    last = i == n - 1
                    pre += self.assign_target(x, E(acc if last else acc + ".1", t), depth, s)
                    acc += ".2"
                return pre
            if isinstance(e.ty, tuple) and e.ty[0] == "list" and n == 2:
                tmp = self.fresh("u")
                pre.append(self.ind(depth, "let %s ← Py.unpack2 %s" % (tmp, paren(e.sub()))))
                pre += self.assign_target(tgt.elts[0], E(tmp + ".1", e.ty[1]), depth, s)
                pre += self.assign_target(tgt.elts[1], E(tmp + ".2", e.ty[1]), depth, s)
                return pre
            raise self.err(s, "unpacking a %s into %d targets" % (e.ty, n))
        return pre + self.assign_target(tgt, e, depth, s)

    def s_AugAssign(self, s, depth):
        load = ast.copy_location(ast.fix_missing_locations(_as_load(s.target)), s)
        val = ast.BinOp(left=load, op=s.op, right=s.value)
        ast.copy_location(val, s)
        ast.fix_missing_locations(val)
        if isinstance(s.target, ast.Name) and isinstance(self.env.get(s.target.id), tuple) \
                and self.env[s.target.id] == lst("any") and isinstance(s.op, ast.Add):
            pre = []
            e = self.rhs(s.value, depth, pre)
            if not (isinstance(e.ty, tuple) and e.ty[0] == "list"):
                raise self.err(s, "+= of a %s to a list" % (e.ty,))
            self.retype(s.target.id, e.ty, s)
            return pre + [self.ind(depth, "%s := %s ++ %s" % (self.ln(s.target.id), self.ln(s.target.id), e.sub()))]
        pre = []
        e = self.rhs(val, depth, pre)
        return pre + self.assign_target(s.target, e, depth, s)

    def s_Return(self, s, depth):
        if s.value is None or (isinstance(s.value, ast.Constant) and s.value.value is None and self.spec.ret is None):
            self.returns.append("unit")
            return [self.ind(depth, "return " + self.pack_return(None))]
        pre = []
        e = self.rhs(s.value, depth, pre)
        if e.ty == "char":
            e = self.coerce(e, "str", s)
        if self.spec.ret is not None:
            e = self.coerce(e, self.spec.ret, s)
        self.returns.append(e.ty)
        return pre + [self.ind(depth, "return " + self.pack_return(paren(e.sub())))]

    def s_Raise(self, s, depth):
        if s.exc is None or s.cause is not None:
            raise self.err(s, "bare raise / raise from")
        x = s.exc
        args = []
        if isinstance(x, ast.Call):
            if x.keywords:
                raise self.err(s, "keyword arguments to an exception")
            args = x.args
            x = x.func
        cls = ast.unparse(x)
        if cls in BUILTIN_EXC:
            code = "Exc.%s" % cls
        elif cls in self.mod.exc_classes:
            code = 'Exc.named "%s"' % cls
        elif isinstance(getattr(builtins, cls, None), type) and issubclass(getattr(builtins, cls), BaseException):
            code = 'Exc.named "%s"' % cls          # another builtin exception class (no translated handler names it)
        else:
            raise self.err(s, "raise of a class that is neither a known builtin nor defined in the module from Exception")
        outs = []
        for a in args:
            self.effects(a, outs)
        lines = []
        for e in outs:
            e = self.bind_call(e, depth, lines)
            lines.append(self.ind(depth, "let _ ← %s" % e.code if e.mon else "let _ := %s" % e.code))
        return lines + [self.ind(depth, "throw (%s)" % code)]

    def s_Continue(self, s, depth):
        if not self.loop_depth:
            raise self.err(s, "continue outside a loop")
        return [self.ind(depth, "continue")]

    def s_Break(self, s, depth):
        if not self.loop_depth:
            raise self.err(s, "break outside a loop")
        return [self.ind(depth, "break")]

    def branch(self, stmts, depth, assigned_in):
        """translate a branch starting from the definitely-assigned set `assigned_in`; returns (lines, assigned_out or None
        when control does not continue after the branch)"""
        self.assigned = set(assigned_in)
        sa = set(self.self_assigned)
        lines = self.block(stmts, depth)
        out = None if self.jumps(stmts) else set(self.assigned)
        sa_out = None if self.jumps(stmts) else set(self.self_assigned)
        self.self_assigned = sa
        return lines, out, sa_out

    def merge(self, outs):
        live = [o for o in outs if o is not None]
        if not live:
            return set(self.assigned)   # unreachable afterwards
        r = set(live[0])
        for o in live[1:]:
            r &= o
        return r

    def s_If(self, s, depth):
        # a test that is a specialised constant prunes the dead branch
        c = self.static_truth(s.test)
        if c is not None:
            return self.block_inline(s.body if c else s.orelse, depth)
        t = s.test
        if isinstance(t, ast.Call) and ast.unparse(t.func) == "isinstance" and len(t.args) == 2 and isinstance(t.args[0], ast.Name) \
                and ast.unparse(t.args[1]) == "dict" and isinstance(self.env.get(t.args[0].id), tuple) \
                and self.env[t.args[0].id][0] == "fetched" and s.orelse:
            # what a downloader method delivered: a dict (source -> entries) or a list of entries; inside each branch the
            # name holds the value of that kind (a new Lean variable)
            nm = t.args[0].id
            if nm in self.mutated or any(isinstance(x, ast.Name) and x.id == nm and isinstance(x.ctx, ast.Store)
                                         for st in s.body + s.orelse for x in ast.walk(st)):
                raise self.err(s, "the tested name is assigned / changed inside the branches")
            ft, el = self.env[nm], self.env[nm][1]
            old_ln = self.ln(nm)
            a0, sa0 = set(self.assigned), set(self.self_assigned)
            outs = []
            lines = [self.ind(depth, "if Fetched.isDict %s then" % old_ln)]
            for branch, ty, proj in ((s.body, ("dict", "str", lst(el)), "Fetched.dict"), (s.orelse, lst(el), "Fetched.list")):
                self.tmp += 1
                fresh = "%s__%d" % (nm, self.tmp)
                saved = self.rename.get(nm)
                self.rename[nm] = fresh
                self.env[nm] = ty
                body, o, so = self.branch(branch, depth + 1, a0)
                self.env[nm] = ft
                if saved is None:
                    del self.rename[nm]
                else:
                    self.rename[nm] = saved
                outs.append(o)
                if branch is s.orelse:
                    lines.append(self.ind(depth, "else"))
                lines.append(self.ind(depth + 1, "let %s : %s := %s %s" % (lname(fresh), lean_type(ty), proj, old_ln)))
                lines += body
            self.assigned = self.merge(outs)
            self.self_assigned = sa0
            return lines
        pre = []
        cond = self.truthy(self.rhs(s.test, depth, pre), s.test)
        a0 = set(self.assigned)
        sa0 = set(self.self_assigned)
        lines = pre + [self.ind(depth, "if %s then" % cond.sub())]
        body, o1, s1 = self.branch(s.body, depth + 1, a0)
        lines += body
        outs, souts = [o1], [s1]
        orelse = s.orelse
        while len(orelse) == 1 and isinstance(orelse[0], ast.If) and self.static_truth(orelse[0].test) is None:
            e = orelse[0]
            self.assigned = set(a0)
            pre2 = []
            cond2 = self.truthy(self.rhs(e.test, depth, pre2), e.test)
            if pre2 or "←" in cond2.sub():
                # the elif test needs statements of its own / may raise: it must be evaluated inside the else branch only
                # (a nested action in an `else if` condition would be lifted in front of the whole `if`)
                break
            lines.append(self.ind(depth, "else if %s then" % cond2.sub()))
            body, o, so = self.branch(e.body, depth + 1, a0)
            lines += body
            outs.append(o)
            souts.append(so)
            orelse = e.orelse
        if orelse:
            lines.append(self.ind(depth, "else"))
            body, o, so = self.branch(orelse, depth + 1, a0)
            lines += body
            outs.append(o)
            souts.append(so)
        else:
            outs.append(a0)
            souts.append(sa0)
        self.assigned = self.merge(outs)
        live = [x for x in souts if x is not None]
        self.self_assigned = set.intersection(*live) if live else sa0
        return lines

    def static_truth(self, test):
        if isinstance(test, ast.Name) and test.id in self.consts and isinstance(self.consts[test.id], bool):
            return self.consts[test.id]
        if isinstance(test, ast.UnaryOp) and isinstance(test.op, ast.Not):
            v = self.static_truth(test.operand)
            return None if v is None else not v
        if isinstance(test, ast.Compare) and len(test.ops) == 1 and isinstance(test.ops[0], (ast.Eq, ast.NotEq)) \
                and isinstance(test.left, ast.Name) and test.left.id in self.consts and isinstance(self.consts[test.left.id], str) \
                and isinstance(test.comparators[0], ast.Constant) and isinstance(test.comparators[0].value, str):
            eq = self.consts[test.left.id] == test.comparators[0].value
            return eq if isinstance(test.ops[0], ast.Eq) else not eq
        return None

    def block_inline(self, stmts, depth):
        out = []
        for s in stmts:
            m = getattr(self, "s_" + type(s).__name__, None)
            if m is None:
                raise self.err(s, "no rule for statement " + type(s).__name__)
            out += m(s, depth)
            if self.ends_here(s):
                break
        return out

    def ends_here(self, s):
        """an unconditional return / raise, also one reached through an `if` on a specialised constant"""
        if isinstance(s, (ast.Return, ast.Raise)):
            return True
        if isinstance(s, ast.If):
            c = self.static_truth(s.test)
            if c is not None:
                br = s.body if c else s.orelse
                return any(self.ends_here(x) for x in br)
        return False

    def s_For(self, s, depth):
        if s.orelse:
            raise self.err(s, "for ... else")
        if isinstance(s.target, ast.Tuple) and len(s.target.elts) == 2 and all(isinstance(x, ast.Name) for x in s.target.elts) \
                and isinstance(s.iter, ast.Call) and isinstance(s.iter.func, ast.Attribute) and s.iter.func.attr == "items" \
                and not s.iter.args and not s.iter.keywords:
            return self.for_items(s, depth)
        if not isinstance(s.target, ast.Name):
            raise self.err(s, "loop target that is not a name")
        var = s.target.id
        if var in self.env or var in self.hoist or var in self.consts:
            raise self.err(s, "loop variable re-uses the name of another local")
        pre = []
        a0 = set(self.assigned)
        # iteration over a local iterator (shared with `next`)
        if isinstance(s.iter, ast.Name) and isinstance(self.env.get(s.iter.id), tuple) and self.env[s.iter.id][0] == "iter":
            it = s.iter.id
            el = self.env[it][1]
            lines = [self.ind(depth, "for _ in Py.iterFuel %s do" % self.ln(it)),
                     self.ind(depth + 1, "let some %s := %s.head? | break" % (self.ln(var), self.ln(it))),
                     self.ind(depth + 1, "%s := %s.tail" % (self.ln(it), self.ln(it)))]
            self.env[var] = el
            self.assigned.add(var)
            self.loop_depth += 1
            body = self.block(s.body, depth + 1)
            self.loop_depth -= 1
            self.scoped_out[var] = self.env.pop(var)
            self.assigned = a0
            return lines + body
        it = self.rhs(s.iter, depth, pre)
        def root(x):
            while isinstance(x, (ast.Subscript, ast.Attribute)):
                x = x.value
            return x.id if isinstance(x, ast.Name) else None
        iterated = root(s.iter)
        for x in ast.walk(ast.Module(body=s.body, type_ignores=[])):
            tgt = None
            if isinstance(x, (ast.Assign, ast.AugAssign)):
                for t in (x.targets if isinstance(x, ast.Assign) else [x.target]):
                    for y in (t.elts if isinstance(t, ast.Tuple) else [t]):
                        if root(y) is not None and root(y) == iterated:
                            tgt = iterated
            if isinstance(x, ast.Call) and isinstance(x.func, ast.Attribute) and \
                    x.func.attr in ("append", "extend", "pop", "remove", "insert", "clear", "sort", "reverse", "update") \
                    and root(x.func.value) is not None and root(x.func.value) == iterated:
                tgt = iterated
            if tgt:
                raise self.err(s, "the loop body changes `%s`, which the loop iterates over" % tgt)
        if isinstance(it.ty, tuple) and it.ty[0] == "dict":
            el = it.ty[1]
            itcode = "(%s.map Prod.fst)" % paren(it.sub())
        else:
            it = self.seqlike(it, s.iter)
            el = "char" if it.ty == "str" else it.ty[1]
            itcode = it.sub()
        self.env[var] = el
        self.assigned.add(var)
        self.loop_depth += 1
        sa = set(self.self_assigned)
        body = self.block(s.body, depth + 1)
        self.self_assigned = sa
        self.loop_depth -= 1
        self.scoped_out[var] = self.env.pop(var)
        self.assigned = a0
        return pre + [self.ind(depth, "for %s in %s do" % (self.ln(var), itcode))] + body

    def for_items(self, s, depth):
        """`for k, v in d.items():` over a dict that the body does not change (insertion order)"""
        pre = []
        d = self.rhs(s.iter.func.value, depth, pre)
        if not (isinstance(d.ty, tuple) and d.ty[0] == "dict"):
            raise self.err(s, ".items() of a %s" % (d.ty,))
        kn, vn = s.target.elts[0].id, s.target.elts[1].id
        for nm in (kn, vn):
            if nm in self.env or nm in self.hoist or nm in self.consts:
                raise self.err(s, "loop variable re-uses the name of another local")
        root = ast.unparse(s.iter.func.value)
        for x in ast.walk(ast.Module(body=s.body, type_ignores=[])):
            if isinstance(x, (ast.Assign, ast.AugAssign)):
                for t in (x.targets if isinstance(x, ast.Assign) else [x.target]):
                    if ast.unparse(t).startswith(root):
                        raise self.err(s, "the loop body changes `%s`, which the loop iterates over" % root)
        a0 = set(self.assigned)
        self.tmp += 1
        pv = "kv__%d" % self.tmp
        self.env[kn], self.env[vn] = d.ty[1], d.ty[2]
        self.assigned |= {kn, vn}
        self.loop_depth += 1
        sa = set(self.self_assigned)
        body = self.block(s.body, depth + 1)
        self.self_assigned = sa
        self.loop_depth -= 1
        for nm in (kn, vn):
            self.scoped_out[nm] = self.env.pop(nm)
        self.assigned = a0
        head = [self.ind(depth, "for %s in %s do" % (pv, d.sub())),
                self.ind(depth + 1, "let %s : %s := %s.1" % (self.ln(kn), lean_type(d.ty[1]), pv)),
                self.ind(depth + 1, "let %s : %s := %s.2" % (self.ln(vn), lean_type(d.ty[2]), pv))]
        return pre + head + body

    def s_While(self, s, depth):
        """`while cond: body` with fuel: the Lean function gets one more parameter `fuel_k : Nat` per loop; at most `fuel_k`
        passes are made; if the condition still holds after them the result is the marker `Exc.outOfFuel` (Python would
        go on).  The condition is evaluated exactly as often as Python evaluates it on the passes that are made."""
        if s.orelse:
            raise self.err(s, "while ... else")
        if isinstance(s.test, ast.Constant) and s.test.value is True:
            # `while True:` is left only by return / raise / break: no condition, no `done` flag; when the fuel runs
            # out the result is the marker
            k = len(self.fuels) + 1
            fuel = "fuel_%d" % k
            self.fuels.append(fuel)
            a0 = set(self.assigned)
            sa0 = set(self.self_assigned)
            self.loop_depth += 1
            body = self.block(s.body, depth + 1)
            self.loop_depth -= 1
            self.assigned = a0
            self.self_assigned = sa0
            return [self.ind(depth, "for _ in List.replicate %s () do" % fuel)] + body + [self.ind(depth, "throw Exc.outOfFuel")]
        k = len(self.fuels) + 1
        fuel = "fuel_%d" % k
        self.fuels.append(fuel)
        done = "done__%d" % k
        a0 = set(self.assigned)
        sa0 = set(self.self_assigned)
        pre = []
        cond = self.truthy(self.rhs(s.test, depth + 1, pre), s.test)
        lines = [self.ind(depth, "let mut %s := false" % done), self.ind(depth, "for _ in List.replicate %s () do" % fuel)]
        lines += pre
        lines += [self.ind(depth + 1, "if !(%s) then" % cond.sub()), self.ind(depth + 2, "%s := true" % done),
                  self.ind(depth + 2, "break")]
        self.loop_depth += 1
        body = self.block(s.body, depth + 1)
        self.loop_depth -= 1
        self.assigned = a0
        self.self_assigned = sa0
        pre2 = []
        cond2 = self.truthy(self.rhs(s.test, depth + 1, pre2), s.test)
        tail = [self.ind(depth, "if !%s then" % done)] + pre2 + [self.ind(depth + 1, "if %s then" % cond2.sub()),
                                                                self.ind(depth + 2, "throw Exc.outOfFuel")]
        return lines + body + tail

    def s_Try(self, s, depth):
        if s.finalbody or s.orelse or len(s.handlers) != 1:
            raise self.err(s, "try with finally / else / several handlers")
        h = s.handlers[0]
        if h.type is None or h.name is not None:
            raise self.err(s, "bare except / except ... as")
        cls = ast.unparse(h.type)
        # Lean's `try` undoes the assignments to locals made in the body before the exception; Python keeps them.  One
        # simple statement cannot tell the difference.  Several are accepted when they are assignments to local names only
        # and the handler assigns every one of them again on every path (checked below): then no later read can tell.
        multi = len(s.body) != 1
        if multi:
            for st in s.body:
                if not (isinstance(st, ast.Assign) and len(st.targets) == 1 and isinstance(st.targets[0], ast.Name)):
                    raise self.err(s, "try body of several statements that are not all assignments to local names "
                                      "(what was done before the exception would have to survive it)")
        elif isinstance(s.body[0], ast.With):
            # one transaction block: assignments to locals / attributes made inside it before an exception are undone by
            # Lean's `try`; accepted when every such assignment is the last thing the block does (nothing after it can raise)
            inner = s.body[0].body
            for k_, st in enumerate(inner):
                if isinstance(st, (ast.Assign, ast.AugAssign)) and k_ != len(inner) - 1:
                    raise self.err(s, "an assignment inside a guarded transaction block that is not its last statement")
        elif not isinstance(s.body[0], (ast.Assign, ast.Expr, ast.Return)):
            raise self.err(s, "try body that is not a simple statement")
        body_names = {st.targets[0].id for st in s.body if multi}
        a0 = set(self.assigned)
        sa0 = set(self.self_assigned)
        saved_ext = self.ext_used
        self.ext_used = []
        txn = None
        if isinstance(s.body[0], ast.With):
            # `try: with self.db: BODY  except K: H`: roll back, then the handler (one Lean `try`: a nested one would
            # capture the outer `catch`)
            w = s.body[0]
            if not (len(w.items) == 1 and w.items[0].optional_vars is None and self.cls is not None and self.cls.get("heap_attr")
                    and ast.unparse(w.items[0].context_expr) == "self." + self.cls["heap_attr"]):
                raise self.err(s, "a guarded with-block that is not a transaction on the store")
            self.stateful = True
            txn = self.fresh("snap")
            body = self.block(w.body, depth + 1)
        else:
            body = self.block(s.body, depth + 1)
        body_ext = self.ext_used
        self.ext_used = saved_ext
        for x in body_ext:
            self.use_ext(x)
        o1, s1 = set(self.assigned), set(self.self_assigned)
        if self.jumps(s.body):
            o1, s1 = None, None
        # the handler's class must not have a proper subclass among what the body can raise
        raised = set(PRELUDE_RAISES)
        for x in body_ext:
            raised |= set(x.raises)
        if cls in BUILTIN_EXC:
            code = "Exc.%s" % cls
            kcls = getattr(builtins, cls)
            for r in raised:
                rc = getattr(builtins, r, None)
                if r != cls and (rc is None or (isinstance(rc, type) and issubclass(rc, kcls))):
                    if rc is None and r in NAMED_NOT_SUBCLASS.get(cls, ()):
                        continue
                    raise self.err(s, "`except %s` may also catch %s raised in the body" % (cls, r))
        elif cls in NAMED_HANDLERS:
            code = 'Exc.named "%s"' % cls
        else:
            raise self.err(s, "except of class " + cls)
        self.assigned = set(a0)
        self.self_assigned = set(sa0)
        hb, o2, s2 = self.branch(h.body, depth + 2, a0 - body_names)
        # (a name that is local to the try statement cannot be read afterwards; one that is read afterwards has been
        #  hoisted by then, and for those the handler must assign it again on every path)
        live_names = {x for x in body_names if x in self.hoist or x in a0}
        if multi and o2 is not None and not live_names <= set(o2):
            raise self.err(s, "the handler does not assign %s again on every path (assigned in the try body before a "
                              "possible exception)" % sorted(live_names - set(o2)))
        if o2 is not None:
            o2 = set(o2) | (a0 & body_names)
        self.assigned = self.merge([o1, o2])
        live = [x for x in (s1, s2) if x is not None]
        self.self_assigned = set.intersection(*live) if live else set(sa0)
        ev = self.fresh("exc")
        head, roll = [], []
        if txn:
            head = [self.ind(depth, "let %s ← (Py.heapGet : MS %s %s)" % (txn, HEAP_TYPES[self.spec.cls], HEAP_TYPES[self.spec.cls]))]
            roll = [self.ind(depth + 1, "Py.heapSet %s" % txn)]
        return (head + [self.ind(depth, "try")] + body + [self.ind(depth, "catch %s =>" % ev)] + roll +
                [self.ind(depth + 1, "if %s == %s then" % (ev, code))] + hb +
                [self.ind(depth + 1, "else throw %s" % ev)])

    def s_FunctionDef(self, s, depth):
        # a nested function: translated on its own if whitelisted (then it must not capture locals), else only usable as a
        # function reference
        qual = self.spec.qualname + "." + s.name
        self.nested_defs[s.name] = s
        if any(d.spec.qualname == qual for d in self.done):
            return []
        return []

    def s_With(self, s, depth):
        """`with <external context manager>(args) as name:` for the context managers declared in CONTEXT_MANAGERS: the
        entered value is the external's result; leaving the block (closing) has no effect the translation keeps."""
        if len(s.items) == 1 and s.items[0].optional_vars is None and self.cls is not None and self.cls.get("heap_attr") \
                and ast.unparse(s.items[0].context_expr) == "self." + self.cls["heap_attr"]:
            # `with self.db:` of a sqlite3 connection: commit when the block ends normally, roll back (the store is what
            # it was at entry) and re-raise when an exception leaves it
            self.stateful = True
            snap, ev = self.fresh("snap"), self.fresh("exc")
            body = self.block_inline(s.body, depth + 1)
            return ([self.ind(depth, "let %s ← (Py.heapGet : MS %s %s)" % (snap, HEAP_TYPES[self.spec.cls], HEAP_TYPES[self.spec.cls])),
                     self.ind(depth, "try")] + (body or [self.ind(depth + 1, "pure ()")]) +
                    [self.ind(depth, "catch %s =>" % ev), self.ind(depth + 1, "Py.heapSet %s" % snap),
                     self.ind(depth + 1, "throw %s" % ev)])
        if len(s.items) == 1 and s.items[0].optional_vars is None and \
                ast.unparse(s.items[0].context_expr) == "np.errstate(invalid='raise')":
            # numpy float operations in the block raise FloatingPointError when they signal `invalid` (leaving the
            # block restores the previous state: nothing the translation keeps)
            if self.fp_raise:
                raise self.err(s, "nested np.errstate")
            self.fp_raise = True
            body = self.block_inline(s.body, depth)
            self.fp_raise = False
            return body
        if len(s.items) != 1 or not isinstance(s.items[0].context_expr, ast.Call) or \
                not isinstance(s.items[0].optional_vars, ast.Name):
            raise self.err(s, "with statement of this shape")
        call = s.items[0].context_expr
        fname = ast.unparse(call.func)
        if fname == "open" and len(call.args) == 2 and ast.unparse(call.args[1]) == "'w'" and not call.keywords:
            # a text file opened for writing (created / truncated): what is written is logged in `files__`
            ext = OPEN_W
            a = self.coerce_arg(self.expr(call.args[0]), "str", call.args[0])
            self.use_ext(ext)
            lines = self.declare_or_assign(s.items[0].optional_vars.id, E("%s %s" % (ext.param, paren(a.sub())), ext.ret, True), depth, s)
            return lines + self.block_inline(s.body, depth)
        if fname not in CONTEXT_MANAGERS or call.keywords:
            raise self.err(s, "context manager")
        ext = CONTEXT_MANAGERS[fname]
        cargs = list(call.args)
        for k, v in ext.kwargs.items():          # "#i": positional argument i must be exactly this literal
            i = int(k[1:])
            if len(cargs) <= i or ast.unparse(cargs[i]) != v:
                raise self.err(s, "context manager %s must be called with argument %d = %s" % (fname, i, v))
        cargs = [a for i, a in enumerate(cargs) if "#%d" % i not in ext.kwargs]
        if len(cargs) != len(ext.args):
            raise self.err(s, "arguments of the context manager")
        es = [self.coerce_arg(self.expr(a), t, a) for a, t in zip(cargs, ext.args)]
        self.use_ext(ext)
        name = s.items[0].optional_vars.id
        e = E("%s %s" % (ext.param, " ".join(paren(x.sub()) for x in es)), ext.ret, ext.mon)
        lines = self.declare_or_assign(name, e, depth, s)
        return lines + self.block_inline(s.body, depth)


class CallE(E):
    __slots__ = ("done", "iter_args")

    def __init__(self, code, ty, mon, done, iter_args):
        E.__init__(self, code, ty, mon)
        self.done, self.iter_args = done, iter_args


def _as_load(t):
    t2 = ast.parse(ast.unparse(t), mode="eval").body
    return t2


FNREF_IMPORTS = {"urlopen", "open"}
NAMED_HANDLERS = {"requests.exceptions.Timeout", "sqlite3.IntegrityError", "FloatingPointError"}
NAMED_NOT_SUBCLASS = {"ValueError": {"xml.ParseError", "requests.exceptions.Timeout", "OverflowError"}}


# ------------------------------------------------------------------------------------------------ whole-file generation
def signature(ft, lean_name):
    """(binders, result type) of a translated function"""
    tv = set()
    for x in ft.ext_used:
        for a in x.args:
            type_vars(a, tv)
        type_vars(x.ret, tv)
    for _, t in ft.params:
        type_vars(t, tv)
    type_vars(ft.ret, tv)
    if ft.cls is not None:
        for v in SELF_TVARS[ft.spec.cls]:
            tv.add(v)
    if ft.float_ops or ft.float_arith:
        tv.add("F")
    if ft.file_log:
        tv.add("WFile")
    if ft.time_ops:
        tv.add("T")
        tv.add("TD")
    if ft.stateful:
        for v in (HEAP_TVARS[ft.spec.cls] if ft.spec.cls else [ft.spec.heap[1]]):
            tv.add(v)
    tv = sorted(tv)
    b = []
    if tv:
        b.append("{%s : Type}" % " ".join(tv))
    if ft.float_ops:
        b.append("[FloatOps F]")
    if ft.float_arith:
        b.append("[FloatArith F]")
    if ft.time_ops:
        b.append("[TimeOps T TD]")
    if ft.fp_used:
        b.append("[FloatInvalid F]")
    for v in sorted(ft.inhabited):
        b.append("[Inhabited %s]" % v)
    if "K" in tv:
        b.append("[LT K] [DecidableLT K]")
    for x in ft.ext_used:
        b.append("(%s : %s)" % (x.param, x.lean_sig()))
    for f_ in ft.fuels:
        b.append("(%s : Nat)" % f_)
    if ft.cls is not None and not ft.in_init:
        b.append("(self : %s)" % SELF_TYPES[ft.spec.cls])
    for n, t in ft.params:
        b.append("(%s : %s)" % (lname(n), lean_type(t)))
    parts = []
    if ft.ret != "unit":
        parts.append(lean_type(ft.ret))
    if ft.cls is not None and (ft.writes_self or ft.in_init):
        parts.append(SELF_TYPES[ft.spec.cls])
    for n in ft.iter_params:
        parts.append(lean_type(dict(ft.params)[n]))
    if ft.file_log:
        parts.append("(List (WFile × Str))")
    res = "Unit" if not parts else (parts[0] if len(parts) == 1 else "(" + " × ".join(parts) + ")")
    return tv, b, res


HEAP_TYPES = {}
HEAP_TVARS = {}
SELF_UNSET_INHABITED = {}


def emit_heap(cname, cls):
    """the attributes of a shared sub-object that may be absent (`AttributeError`): a heap with one optional slot per
    attribute and the trace of the loads and stores performed on it, in program order"""
    tv = set()
    for t in cls["slots"].values():
        type_vars(t, tv)
    tv = sorted(tv)
    HEAP_TVARS[cname] = tv
    targs = (" " + " ".join(tv)) if tv else ""
    HEAP_TYPES[cname] = "(%s.Heap%s)" % (cname, targs)
    binder = (" (%s : Type)" % " ".join(tv)) if tv else ""
    ibinder = (" {%s : Type}" % " ".join(tv)) if tv else ""
    out = ["/-- one load or store of a traced attribute of `%s` (a load of an absent attribute is the AttributeError; a store"
           % cname, "    names the store statement by its ordinal in the source of the function) -/",
           "inductive %s.Ev%s where" % (cname, binder)]
    for path, t in cls["slots"].items():
        a = path.split(".")[-1]
        out.append("  | load_%s (v : Option %s)" % (a, lean_type(t)))
        out.append("  | store_%s (site : Nat) (v : %s)" % (a, lean_type(t)))
    out += ["", "/-- the traced attributes (%s) and the trace, oldest event first -/" % ", ".join("`%s`" % p for p in cls["slots"]),
            "structure %s.Heap%s where" % (cname, binder)]
    for path, t in cls["slots"].items():
        out.append("  %s : Option %s" % (path.split(".")[-1], lean_type(t)))
    out.append("  trace : List (%s.Ev%s)" % (cname, targs))
    out.append("")
    for path, t in cls["slots"].items():
        a = path.split(".")[-1]
        out += ["/-- `self.%s` read: the value, or AttributeError when it has not been stored yet -/" % path,
                "def %s.load_%s%s : MS %s %s := fun h =>" % (cname, a, ibinder, HEAP_TYPES[cname], lean_type(t)),
                "  (match h.%s with | some v => Except.ok v | none => Except.error Exc.AttributeError," % a,
                "   { h with trace := h.trace ++ [%s.Ev.load_%s h.%s] })" % (cname, a, a), "",
                "/-- `self.%s = v` -/" % path,
                "def %s.store_%s%s (site : Nat) (v : %s) : MS %s Unit := fun h =>" % (cname, a, ibinder, lean_type(t), HEAP_TYPES[cname]),
                "  (Except.ok (), { h with %s := some v, trace := h.trace ++ [%s.Ev.store_%s site v] })" % (a, cname, a), ""]
    return out


def emit_self_structure(cname, cls):
    tv = set()
    for t in cls["attrs"].values():
        type_vars(t, tv)
    tv = sorted(tv)
    SELF_TVARS[cname] = tv
    SELF_TYPES[cname] = "(%s.Self %s)" % (cname, " ".join(tv)) if tv else "%s.Self" % cname
    out = ["/-- the instance attributes of `%s` (types declared in harness/pytrans.py; an assignment of another type is refused) -/" % cname,
           "structure %s.Self %s where" % (cname, ("(%s : Type)" % " ".join(tv)) if tv else "")]
    for a, t in cls["attrs"].items():
        out.append("  %s : %s" % (a.replace(".", "_"), lean_type(t)))
    out.append("")
    if cls.get("slots"):
        out += emit_heap(cname, cls)
    if cls.get("heap"):
        HEAP_TYPES[cname] = cls["heap"][1]
        HEAP_TVARS[cname] = [cls["heap"][1]]
    if not any(sp.cls == cname and sp.qualname.endswith(".__init__") for sp in SPEC):
        return out
    out.append("/-- the object before `__init__` has assigned anything (every field is assigned before it is read: checked by the translator) -/")
    INHABITED_NEEDED.clear()
    fields = ", ".join("%s := %s" % (a.replace(".", "_"), placeholder(t)) for a, t in cls["attrs"].items())
    inh = " ".join("[Inhabited %s]" % v for v in sorted(INHABITED_NEEDED))
    SELF_UNSET_INHABITED[cname] = set(INHABITED_NEEDED)
    out.append("def %s.Self.unset %s%s : %s :=" % (cname, ("{%s : Type} " % " ".join(tv)) if tv else "", inh, SELF_TYPES[cname]))
    out.append("  { " + fields + " }")
    out.append("")
    return out


def gen_translated():
    """the text of lean/PV/Generated/Translated.lean"""
    mods = {}
    done = []
    fnrefs = set()
    SELF_TYPES.clear()
    SELF_TVARS.clear()
    HEAP_TYPES.clear()
    HEAP_TVARS.clear()
    class_out = []
    for cname, cls in CLASSES.items():
        class_out += emit_self_structure(cname, cls)
    defs = []
    trusted = []
    for spec in SPEC:
        mod = mods.get(spec.module) or mods.setdefault(spec.module, Module(spec.module))
        ft = FnTrans(mod, spec, done, fnrefs)
        INHABITED_NEEDED.clear()
        lines = ft.translate()
        ft.inhabited = set(INHABITED_NEEDED)
        if ft.in_init:
            ft.inhabited |= SELF_UNSET_INHABITED.get(spec.cls, set())
        for dd in done:                       # a callee's needs are the caller's
            if dd.lean_name in "\n".join(lines):
                ft.inhabited |= getattr(dd, "inhabited", set())
        lean_name = spec.lean
        if spec.special:
            lean_name += "__" + "_".join("%s_%s" % (k, v) for k, v in sorted(ft.special_names.items()))
        ft.ext_used.sort(key=lambda x: x.param)
        tv, binders, res = signature(ft, lean_name)
        monad = "MS %s" % (HEAP_TYPES[spec.cls] if spec.cls else spec.heap[1]) if ft.stateful else "M"
        d = Done(spec, lean_name, list(ft.ext_used), tv, None, list(ft.params), ft.ret, ft.writes_self or ft.in_init,
                 list(ft.iter_params))
        d.node = ft.node
        d.inhabited = ft.inhabited
        d.float_ops = ft.float_ops
        d.float_arith, d.time_ops, d.stateful = ft.float_arith, ft.time_ops, ft.stateful
        done.append(d)
        src_first = ft.node.lineno
        src_last = ft.node.end_lineno
        doc = "%s.py:%d-%d `%s`" % (spec.module, src_first, src_last, spec.qualname)
        if spec.special:
            doc += " specialised to " + ", ".join("%s=%r" % kv for kv in sorted(ft.special_names.items()))
        defs.append("/-- %s -/" % doc)
        defs.append("def %s %s : %s %s := do" % (lean_name, " ".join(binders), monad, res))
        defs += lines
        defs.append("")
        trusted.append((lean_name, doc, list(ft.ext_used)))
    hdr = ["/- GENERATED by harness/pytrans.py from the current source of /repo/pyorbital (tie T-D) — do not edit.",
           "",
           "   Each definition is the statement-by-statement translation of one Python function into a `do` block over the",
           "   value semantics of PV/Py/Prelude.lean.  Exception messages are not kept (their argument expressions are still",
           "   evaluated); logging calls are reduced to the evaluation of their arguments.",
           "",
           "   PARAMETERS (trusted base): everything a function takes from outside the translated subset is a parameter of",
           "   its definition; the equivalence theorems hold for every value of these parameters unless they say otherwise.",
           ""]
    for lean_name, doc, exts in trusted:
        hdr.append("   %s  (%s)" % (lean_name, doc))
        if not exts:
            hdr.append("       no parameters")
        for x in exts:
            r = (" ; may raise " + ", ".join(x.raises)) if x.raises else " ; assumed not to raise"
            hdr.append("       %s : %s  -- %s%s" % (x.param, x.lean_sig(), x.doc, r))
    hdr.append("-/")
    out = hdr + ["import PV.Py.Prelude", "set_option linter.unusedVariables false", "namespace PV.Gen.T", "open PV.Py", ""]
    if fnrefs:
        out.append("/-- functions used as values (`open_func = _open`, `open_func == _dummy_open_stringio`) -/")
        out.append("inductive FnRef")
        for f in sorted(fnrefs):
            out.append("  | %s" % lname(f))
        out.append("deriving DecidableEq, Repr, Inhabited")
        out.append("")
    out += class_out
    out += defs
    out += ["end PV.Gen.T", ""]
    return "\n".join(out)


def gen_unicode():
    """the text of lean/PV/Generated/PyUnicode.lean: the character classes of this interpreter"""
    import unicodedata
    ws, zeros, other, up_r, up_s, intws = [], [], [], [], [], []
    dec_seen = set()
    for c in range(0x110000):
        if 0xD800 <= c < 0xE000:
            continue
        ch = chr(c)
        if ch.isspace():
            ws.append(c)
        if ch.isdecimal():
            v = unicodedata.decimal(ch)
            dec_seen.add(c)
            if v == 0:
                zeros.append(c)
            elif not (zeros and c == zeros[-1] + v):
                raise TransError("decimal digit U+%04X is not in a run of ten starting at a zero" % c)
        elif ch.isdigit():
            if other and other[-1][1] == c - 1:
                other[-1][1] = c
            else:
                other.append([c, c])
        u = ch.upper()
        if u != ch:
            if len(u) == 1:
                d = ord(u) - c
                if up_r and up_r[-1][1] == c - 1 and up_r[-1][2] == d:
                    up_r[-1][1] = c
                else:
                    up_r.append([c, c, d])
            else:
                up_s.append((c, [ord(x) for x in u]))
    for z in zeros:
        for k in range(10):
            if z + k not in dec_seen:
                raise TransError("decimal run at U+%04X is incomplete" % z)
    if len(dec_seen) != 10 * len(zeros):
        raise TransError("decimal digits outside the runs of ten")
    for c in ws:
        for f in (int, float):
            try:
                f(chr(c) + "5" + chr(c))
                ok = True
            except ValueError:
                ok = False
            if f is int:
                if ok:
                    intws.append(c)
            elif ok != (c in intws):
                raise TransError("int() and float() strip different whitespace at U+%04X" % c)
    # int()/float() must strip nothing else
    for c in list(range(0, 0x3100)) + [0xFEFF]:
        if c in ws or chr(c).isdecimal() or chr(c) in "+-._":
            continue
        try:
            int(chr(c) + "5")
            raise TransError("int() strips U+%04X which is not whitespace" % c)
        except ValueError:
            pass
    out = ["/- GENERATED by harness/pytrans.py from the `unicodedata` of the interpreter that runs pyorbital",
           "   (Python %s, Unicode %s) — do not edit. -/" % (sys.version.split()[0], unicodedata.unidata_version),
           "namespace PV.Gen.U",
           "/-- code points with `str.isspace()` (what `strip()` / `split()` remove) -/",
           "def whitespace : List Nat := [%s]" % ", ".join(map(str, ws)),
           "/-- the subset of these that `int()` / `float()` strip (measured) -/",
           "def intWhitespace : List Nat := [%s]" % ", ".join(map(str, intws)),
           "/-- the zero of every run of ten decimal digits (`str.isdecimal()`, category Nd) -/",
           "def decimalZeros : List Nat := [%s]" % ", ".join(map(str, zeros)),
           "/-- `str.isdigit()` but not `isdecimal()`: inclusive ranges -/",
           "def digitOtherRanges : List (Nat × Nat) := [%s]" % ", ".join("(%d, %d)" % (a, b) for a, b in other),
           "/-- `str.upper()`: (first, last, upper case of first) for runs of characters with a one-character upper case at a",
           "    constant offset (in chunks: one long list literal is slow to elaborate) -/"]
    chunks = [up_r[i:i + 60] for i in range(0, len(up_r), 60)]
    for k, ch in enumerate(chunks):
        out.append("def upperRanges%d : List (Nat × Nat × Nat) := [%s]" % (k, ", ".join("(%d, %d, %d)" % (a, b, a + d) for a, b, d in ch)))
    out += ["def upperRanges : List (Nat × Nat × Nat) := " + (" ++ ".join("upperRanges%d" % k for k in range(len(chunks))) or "[]"),
           "/-- `str.upper()`: characters whose upper case is several characters -/",
           "def upperSpecial : List (Nat × List Nat) := [%s]" % ", ".join("(%d, [%s])" % (c, ", ".join(map(str, u))) for c, u in up_s),
           "end PV.Gen.U", ""]
    return "\n".join(out)


if __name__ == "__main__":
    import time
    t0 = time.time()
    which = sys.argv[1] if len(sys.argv) > 1 else "translated"
    text = gen_unicode() if which == "unicode" else gen_translated()
    sys.stdout.write(text)
    sys.stderr.write("generated in %.2f s\n" % (time.time() - t0))
