"""T-B: regenerate lean/PV/Generated/*.lean from the *current* source text of /repo.

  Consts.lean      every module-level numeric constant of orbital.py, astronomy.py,
                   geoloc.py (as exact decimals of the source text, generic over Num),
                   the numeric literals of selected functions in source order, and the
                   local constants / defaults of the instrument definitions.
  TleColumns.lean  the (attribute, line, start, stop, conversion) table read off the AST
                   of tlefile.Tle._parse_tle, and the checksum rule's shape.
  Translated.lean  T-D: the whitelisted discrete functions of tlefile.py translated statement by
                   statement into Lean (harness/pytrans.py); PyUnicode.lean: the character classes
                   of the running interpreter that the Python prelude PV/Py/Prelude.lean uses.

Files are rewritten only when their content changes (so lake does not rebuild needlessly).
"""
import ast
import decimal
import os
import re
import sys

HERE = os.path.dirname(os.path.abspath(__file__))
ROOT = os.path.dirname(HERE)
LEAN_GEN = os.path.join(os.environ.get("PV_LEAN_DIR") or os.path.join(ROOT, "lean"), "PV", "Generated")
REPO = os.environ.get("PV_REPO", "/repo")


class ExtractError(Exception):
    pass


def lean_ident(s):
    return re.sub(r"[^A-Za-z0-9_]", "_", s)


def lit_to_lean(text):
    """A Python numeric literal (source text) as an exact Lean literal over α."""
    t = text.replace("_", "")
    if re.fullmatch(r"[0-9]+", t):
        return "(%d : α)" % int(t)
    d = decimal.Decimal(t)
    sign, digits, exp = d.as_tuple()
    if sign:
        raise ExtractError("negative literal " + text)
    m = int("".join(map(str, digits)))
    # strip trailing zeros of the mantissa
    while m != 0 and m % 10 == 0:
        m //= 10
        exp += 1
    if m == 0:
        return "(0 : α)"
    if exp >= 0:
        return "(%d : α)" % (m * 10 ** exp)
    return "(%de-%d : α)" % (m, -exp)


class Tr:
    """Translate a constant-expression AST to a Lean term over `α` with `[Num α]`."""

    def __init__(self, src, names, prefix):
        self.src = src
        self.names = names      # python name -> lean def name (already emitted)
        self.prefix = prefix

    def tr(self, n):
        if isinstance(n, ast.Constant):
            if isinstance(n.value, bool) or not isinstance(n.value, (int, float)):
                raise ExtractError("non-numeric constant")
            text = ast.get_source_segment(self.src, n)
            return lit_to_lean(text)
        if isinstance(n, ast.Name):
            if n.id in self.names:
                return "(@%s α _)" % self.names[n.id]
            raise ExtractError("unknown name " + n.id)
        if isinstance(n, ast.Attribute):
            full = ast.unparse(n)
            if full in ("np.pi", "numpy.pi", "math.pi"):
                return "(Num.pi : α)"
            raise ExtractError("unknown attribute " + full)
        if isinstance(n, ast.UnaryOp):
            if isinstance(n.op, ast.USub):
                return "(-%s)" % self.tr(n.operand)
            if isinstance(n.op, ast.UAdd):
                return self.tr(n.operand)
        if isinstance(n, ast.BinOp):
            a, b = n.left, n.right
            if isinstance(n.op, ast.Add):
                return "(%s + %s)" % (self.tr(a), self.tr(b))
            if isinstance(n.op, ast.Sub):
                return "(%s - %s)" % (self.tr(a), self.tr(b))
            if isinstance(n.op, ast.Mult):
                return "(%s * %s)" % (self.tr(a), self.tr(b))
            if isinstance(n.op, ast.Div):
                return "(%s / %s)" % (self.tr(a), self.tr(b))
            if isinstance(n.op, ast.Pow):
                if isinstance(b, ast.Constant) and isinstance(b.value, int) and 0 <= b.value <= 8:
                    k = b.value
                    if k == 0:
                        return "(1 : α)"
                    t = self.tr(a)
                    return "(" + " * ".join([t] * k) + ")"
                if isinstance(b, ast.UnaryOp) and isinstance(b.op, ast.USub) and isinstance(b.operand, ast.Constant) \
                        and isinstance(b.operand.value, int) and isinstance(a, ast.Constant) and a.value == 10:
                    return "(1e-%d : α)" % b.operand.value
                raise ExtractError("unsupported power " + ast.unparse(n))
        if isinstance(n, ast.Call):
            f = ast.unparse(n.func)
            if f in ("np.deg2rad",) and len(n.args) == 1:
                return "(Num.deg2rad %s)" % self.tr(n.args[0])
            if f in ("abs", "np.abs") and len(n.args) == 1:
                return "(Num.abs %s)" % self.tr(n.args[0])
            if f in ("np.arctan2",) and len(n.args) == 2:
                return "(Num.atan2 %s %s)" % (self.tr(n.args[0]), self.tr(n.args[1]))
        raise ExtractError("unsupported expression " + ast.unparse(n))


def module_constants(modname, path, out, index):
    src = open(path).read()
    tree = ast.parse(src)
    names = {}
    tr = Tr(src, names, modname)
    for node in tree.body:
        if isinstance(node, ast.Assign) and len(node.targets) == 1 and isinstance(node.targets[0], ast.Name):
            name = node.targets[0].id
            try:
                term = tr.tr(node.value)
            except ExtractError:
                continue
            lname = "%s_%s" % (modname, lean_ident(name))
            out.append("/-- %s.py:%d  `%s` -/" % (modname, node.lineno, ast.get_source_segment(src, node).replace("\n", " ")[:120].replace("-/", "- /")))
            out.append("def %s : α := %s" % (lname, term))
            names[name] = lname
            index.append(lname)
    return src, tree, names


def find_function(tree, qualname):
    parts = qualname.split(".")
    body = tree.body
    node = None
    for p in parts:
        node = None
        for n in body:
            if isinstance(n, (ast.FunctionDef, ast.ClassDef)) and n.name == p:
                node = n
                break
        if node is None:
            raise ExtractError("function %s not found" % qualname)
        body = node.body
    return node


def function_literals(modname, src, tree, names, qualname, out, index, nat=False):
    """All numeric literals of a function body in source order: <mod>__<fn>_L<i>
    (with nat=True additionally `<mod>__<fn>_L<i>_N : Nat` for pure integer literals)."""
    fn = find_function(tree, qualname)
    lits = []
    for n in ast.walk(fn):
        if isinstance(n, ast.Constant) and isinstance(n.value, (int, float)) and not isinstance(n.value, bool):
            lits.append(n)
    lits.sort(key=lambda n: (n.lineno, n.col_offset))
    base = "%s__%s" % (modname, lean_ident(qualname))
    texts = []
    for i, n in enumerate(lits):
        text = ast.get_source_segment(src, n)
        texts.append(text)
        out.append("def %s_L%d : α := %s   -- line %d `%s`" % (base, i, lit_to_lean(text), n.lineno, text))
        index.append("%s_L%d" % (base, i))
        if nat and re.fullmatch(r"[0-9]+", text.replace("_", "")):
            out.append("def %s_L%d_N : Nat := %d" % (base, i, int(text.replace("_", ""))))
    out.append("def %s_count : Nat := %d" % (base, len(lits)))
    return texts


def _nat_literal(src, node):
    """The value of an AST node that is a pure non-negative integer literal, else None."""
    if isinstance(node, ast.Constant) and isinstance(node.value, int) and not isinstance(node.value, bool):
        text = (ast.get_source_segment(src, node) or "").replace("_", "")
        if re.fullmatch(r"[0-9]+", text):
            return int(text)
    return None


def function_locals(modname, src, tree, names, qualname, out, index, wanted=None, nat=False):
    """Constant-valued local assignments and numeric parameter defaults: <mod>__<fn>__<name>
    (with nat=True additionally `<mod>__<fn>__<name>_N : Nat` when the value is a pure integer literal)."""
    fn = find_function(tree, qualname)
    base = "%s__%s" % (modname, lean_ident(qualname))
    local = dict(names)
    tr = Tr(src, local, modname)
    # defaults
    args = fn.args.args
    defaults = fn.args.defaults
    for a, d in zip(args[len(args) - len(defaults):], defaults):
        try:
            term = tr.tr(d)
        except ExtractError:
            continue
        lname = "%s__%s" % (base, a.arg)
        out.append("def %s : α := %s   -- default of `%s`" % (lname, term, a.arg))
        if nat and _nat_literal(src, d) is not None:
            out.append("def %s_N : Nat := %d" % (lname, _nat_literal(src, d)))
        local[a.arg] = lname
        index.append(lname)
    seen = set()
    for node in ast.walk(fn):
        if isinstance(node, ast.Assign) and len(node.targets) == 1 and isinstance(node.targets[0], ast.Name):
            name = node.targets[0].id
            if name in seen:
                continue
            try:
                term = tr.tr(node.value)
            except ExtractError:
                continue
            seen.add(name)
            lname = "%s__%s" % (base, lean_ident(name))
            out.append("def %s : α := %s   -- line %d" % (lname, term, node.lineno))
            if nat and _nat_literal(src, node.value) is not None:
                out.append("def %s_N : Nat := %d" % (lname, _nat_literal(src, node.value)))
            local[name] = lname
            index.append(lname)


LIT_FUNCS = {
    "orbital": ["_SGDP4Base._set_mode", "_SGDP4Base._get_s4_qoms24", "_check_orbital_elements",
                "_Keplerians._calculate_a", "_calculate_elsq", "Orbital.get_position"],
    "astronomy": ["gmst", "jdays", "sun_ecliptic_longitude", "sun_ra_dec", "sun_earth_distance_correction",
                  "observer_position"],
    "geoloc": ["compute_pixels"],
}

INSTRUMENTS = ["avhrr", "avhrr_gac", "viirs", "amsua", "mhs", "hirs4", "atms", "mwhs2", "olci", "ascat", "slstr_nadir"]
# C19: the wrappers that fix the scan points (literals only), and the seconds -> ns factor of ScanGeometry.__init__
INSTRUMENT_WRAPPERS = ["avhrr_all_geom", "avhrr_edge_geom", "avhrr_40_geom", "viirs_edge_geom"]


def gen_consts():
    out = ["/- GENERATED by harness/extract.py from the current source of /repo/pyorbital — do not edit. -/",
           "import PV.Num", "namespace PV.Gen", "variable {α : Type} [Num α]", ""]
    index = []
    lit_texts = {}
    for modname in ("orbital", "astronomy", "geoloc"):
        path = os.path.join(REPO, "pyorbital", modname + ".py")
        out.append("-- ---- %s.py module constants" % modname)
        src, tree, names = module_constants(modname, path, out, index)
        for q in LIT_FUNCS.get(modname, []):
            out.append("-- ---- literals of %s.%s" % (modname, q))
            try:
                lit_texts["%s.%s" % (modname, q)] = function_literals(modname, src, tree, names, q, out, index)
            except ExtractError as e:
                out.append("-- EXTRACT-FAILED %s: %s" % (q, e))
    modname = "instr"
    path = os.path.join(REPO, "pyorbital", "geoloc_instrument_definitions.py")
    src = open(path).read()
    tree = ast.parse(src)
    for q in INSTRUMENTS:
        out.append("-- ---- instrument %s" % q)
        try:
            function_locals(modname, src, tree, {}, q, out, index, nat=True)
            function_literals(modname, src, tree, {}, q, out, index, nat=True)
        except ExtractError as e:
            out.append("-- EXTRACT-FAILED %s: %s" % (q, e))
    for q in INSTRUMENT_WRAPPERS:
        out.append("-- ---- instrument wrapper %s" % q)
        try:
            function_literals(modname, src, tree, {}, q, out, index, nat=True)
        except ExtractError as e:
            out.append("-- EXTRACT-FAILED %s: %s" % (q, e))
    out.append("-- ---- geoloc.ScanGeometry.__init__ (seconds -> timedelta64[ns])")
    try:
        gpath = os.path.join(REPO, "pyorbital", "geoloc.py")
        gsrc = open(gpath).read()
        function_literals("instr", gsrc, ast.parse(gsrc), {}, "ScanGeometry.__init__", out, index, nat=True)
    except ExtractError as e:
        out.append("-- EXTRACT-FAILED ScanGeometry.__init__: %s" % e)
    out += ["", "end PV.Gen", ""]
    return "\n".join(out)


# --------------------------------------------------------------------- TLE columns
def gen_tle_columns():
    path = os.path.join(REPO, "pyorbital", "tlefile.py")
    src = open(path).read()
    tree = ast.parse(src)
    fn = find_function(tree, "Tle._parse_tle")
    rows = []

    def slice_of(sub):
        """self._lineN[a:b] or self._lineN[i] -> (line, a, b)."""
        if not isinstance(sub, ast.Subscript):
            return None
        v = sub.value
        if not (isinstance(v, ast.Attribute) and isinstance(v.value, ast.Name) and v.value.id == "self"
                and v.attr in ("_line1", "_line2")):
            return None
        line = 1 if v.attr == "_line1" else 2
        s = sub.slice
        if isinstance(s, ast.Slice):
            if s.step is not None or not isinstance(s.lower, ast.Constant) or not isinstance(s.upper, ast.Constant):
                raise ExtractError("slice shape " + ast.unparse(sub))
            return line, int(s.lower.value), int(s.upper.value)
        if isinstance(s, ast.Constant):
            return line, int(s.value), int(s.value) + 1
        raise ExtractError("slice shape " + ast.unparse(sub))

    def classify(value):
        """Return (conv, line, a, b) for the right-hand side of `self.attr = value`."""
        sl = slice_of(value)
        if sl:
            return ("str",) + sl
        if isinstance(value, ast.Call):
            f = ast.unparse(value.func)
            if f in ("float", "int", "_read_tle_decimal") and len(value.args) == 1:
                sl = slice_of(value.args[0])
                if sl:
                    return ({"float": "float", "int": "int", "_read_tle_decimal": "expo"}[f],) + sl
        if isinstance(value, ast.BinOp) and isinstance(value.op, ast.Mult):
            # int(line2[26:33]) * 10 ** -7
            l, r = value.left, value.right
            if isinstance(l, ast.Call) and ast.unparse(l.func) == "int":
                sl = slice_of(l.args[0])
                if sl and ast.unparse(r).replace(" ", "").replace("(", "").replace(")", "") == "10**-7":
                    return ("intE7",) + sl
        return None

    for node in ast.walk(fn):
        targets = []
        if isinstance(node, ast.Assign) and len(node.targets) == 1:
            t = node.targets[0]
            if isinstance(t, ast.Attribute) and isinstance(t.value, ast.Name) and t.value.id == "self":
                c = classify(node.value)
                if c:
                    rows.append((node.lineno, t.attr) + c)
        if isinstance(node, ast.Try):
            # ephemeris_type: try int(...) except ValueError: 0
            for st in node.body:
                if isinstance(st, ast.Assign) and isinstance(st.targets[0], ast.Attribute):
                    c = classify(st.value)
                    if c and c[0] == "int":
                        # replace by the guarded variant
                        rows = [r for r in rows if r[1] != st.targets[0].attr]
                        rows.append((st.lineno, st.targets[0].attr, "intOr0") + c[1:])
    rows.sort()
    # de-duplicate (ast.walk visits Try bodies as well)
    seen = {}
    for r in rows:
        if r[1] in seen and seen[r[1]][2] == "intOr0":
            continue
        seen[r[1]] = r
    rows = sorted(seen.values())

    out = ["/- GENERATED by harness/extract.py from tlefile.Tle._parse_tle — do not edit. -/",
           "namespace PV.Gen", "",
           "inductive Conv | str | int | intOr0 | float | expo | intE7", "deriving DecidableEq, Repr", "",
           "structure Col where", "  attr : String", "  line : Nat", "  start : Nat", "  stop : Nat", "  conv : Conv",
           "deriving DecidableEq, Repr", "",
           "def tleColumns : List Col := ["]
    body = []
    for (ln, attr, conv, line, a, b) in rows:
        body.append('  { attr := "%s", line := %d, start := %d, stop := %d, conv := .%s }' % (attr, line, a, b, conv))
    out.append(",\n".join(body))
    out.append("]")
    out.append("")
    out += ["", "end PV.Gen", ""]
    return "\n".join(out)


def write_if_changed(path, content):
    old = None
    if os.path.exists(path):
        old = open(path).read()
    if old == content:
        return False
    os.makedirs(os.path.dirname(path), exist_ok=True)
    with open(path, "w") as f:
        f.write(content)
    return True


def gen_kernels():
    """T-C: trace the numeric kernels of the current source (harness/symtrace.py) in a child interpreter (the tracer
    patches numpy / pyorbital module attributes while it runs)."""
    import subprocess
    env = dict(os.environ, PV_REPO=REPO, PYTHONDONTWRITEBYTECODE="1")
    p = subprocess.run([sys.executable, os.path.join(HERE, "symtrace.py")], stdout=subprocess.PIPE, stderr=subprocess.PIPE,
                       env=env, timeout=600)
    if p.returncode != 0 or not p.stdout.startswith(b"/- GENERATED"):
        raise ExtractError("symbolic tracing of the kernels failed: " + p.stderr.decode(errors="replace")[-1200:])
    return p.stdout.decode()


def gen_kernels_sgp4():
    """T-C for the SGP4 core: trace OrbitElements / _SGDP4Base / _SGDP4.propagate / _Keplerians / get_position of the
    current source with cut points (harness/symtrace_sgp4.py), in a child interpreter like gen_kernels."""
    import subprocess
    env = dict(os.environ, PV_REPO=REPO, PYTHONDONTWRITEBYTECODE="1")
    p = subprocess.run([sys.executable, os.path.join(HERE, "symtrace_sgp4.py")], stdout=subprocess.PIPE,
                       stderr=subprocess.PIPE, env=env, timeout=600)
    if p.returncode != 0 or not p.stdout.startswith(b"/- GENERATED"):
        raise ExtractError("symbolic tracing of the SGP4 core failed: " + p.stderr.decode(errors="replace")[-1200:])
    return p.stdout.decode()


def gen_kernels_instr():
    """T-C for the instrument scan definitions (C19): trace geoloc_instrument_definitions.py and ScanGeometry.__init__ /
    .times of the current source on symbolic scan positions (harness/symtrace_instr.py), in a child interpreter."""
    import subprocess
    env = dict(os.environ, PV_REPO=REPO, PYTHONDONTWRITEBYTECODE="1")
    p = subprocess.run([sys.executable, os.path.join(HERE, "symtrace_instr.py")], stdout=subprocess.PIPE,
                       stderr=subprocess.PIPE, env=env, timeout=600)
    if p.returncode != 0 or not p.stdout.startswith(b"/- GENERATED"):
        raise ExtractError("symbolic tracing of the instrument definitions failed: " + p.stderr.decode(errors="replace")[-1200:])
    return p.stdout.decode()


def gen_py_unicode():
    """T-D: the character classes (`str.isspace/isdigit/isdecimal/upper`, what `int()` strips) of the interpreter that runs
    pyorbital, for the Python prelude lean/PV/Py/Prelude.lean (harness/pytrans.py)."""
    import pytrans
    return pytrans.gen_unicode()


def gen_translated():
    """T-D: translate the whitelisted discrete functions of the current source statement by statement into Lean
    (harness/pytrans.py; pure `ast`, nothing of /repo is imported or run).  The translator refuses what it does not know."""
    import pytrans
    pytrans.REPO = REPO
    return pytrans.gen_translated()


def regenerate():
    changed = []
    errors = []
    for name, fn in (("Consts.lean", gen_consts), ("TleColumns.lean", gen_tle_columns), ("Kernels.lean", gen_kernels),
                     ("KernelsSgp4.lean", gen_kernels_sgp4), ("KernelsInstr.lean", gen_kernels_instr),
                     ("PyUnicode.lean", gen_py_unicode), ("Translated.lean", gen_translated)):
        try:
            text = fn()
        except Exception as e:  # noqa  keep going: the other generated files must still be current
            errors.append("%s: %s" % (name, e))
            # a stale generated file must not let a proof pass: replace it by one that cannot be built
            write_if_changed(os.path.join(LEAN_GEN, name),
                             "/- GENERATION FAILED: %s -/\n#eval (generation_failed : Nat)\n" % str(e).replace("-/", "- /")[:600])
            continue
        if write_if_changed(os.path.join(LEAN_GEN, name), text):
            changed.append(name)
    if errors:
        raise ExtractError("; ".join(errors))
    return changed


if __name__ == "__main__":
    print(regenerate())
