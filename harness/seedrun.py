"""Run the registered checks against the seeded changes under /verif/seeded/<name>/ (patch.diff, demo.py, meta.json).

    python harness/seedrun.py [--tier quick] [--jobs 4] [--tests] [name ...]

For each seeded change: a scratch copy of /repo (PV_REPO) and of the lake project (PV_LEAN_DIR) is made outside /repo and
/verif, the patch is applied there, the demonstration is run with and without it, (optionally) the repository's test suite,
then `./check <ID> --tier <tier>` of the property it breaks, then the replay it wrote against the changed and the
unchanged copy. Result: seeded/<name>/result.json (caught / missed, by which stage, replay verdicts). Evidence and
replays of these runs go to the scratch directory, never to /verif/evidence. Scratch copies are removed afterwards.
This is a self-test of the machinery; it is not one of the registered checks.
"""
import argparse
import json
import os
import re
import shutil
import subprocess
import sys
import tempfile
import time
from concurrent.futures import ThreadPoolExecutor

ROOT = os.path.dirname(os.path.dirname(os.path.abspath(__file__)))
SEEDED = os.path.join(ROOT, "seeded")
REPO = "/repo"
PY = "/venv/bin/python"


def sh(cmd, cwd=None, env=None, timeout=3600):
    p = subprocess.run(cmd, cwd=cwd, env=env, stdout=subprocess.PIPE, stderr=subprocess.STDOUT, timeout=timeout)
    return p.returncode, p.stdout.decode(errors="replace")


def copy_repo(dst):
    shutil.copytree(REPO, dst, symlinks=True, ignore=shutil.ignore_patterns("__pycache__", ".pytest_cache"))
    sh(["git", "checkout", "--", "."], cwd=dst)


def run_demo(repo, demo):
    env = dict(os.environ, PYTHONPATH=repo, PV_REPO=repo)
    try:
        rc, out = sh([PY, demo], cwd=repo, env=env, timeout=900)
    except subprocess.TimeoutExpired:
        return 124, "timeout"
    return rc, out[-600:]


def one(name, tier, tests, keep):
    d = os.path.join(SEEDED, name)
    meta = json.load(open(os.path.join(d, "meta.json")))
    pid = meta["property"]
    scratch = tempfile.mkdtemp(prefix="pv-seed-%s-" % name)
    res = {"name": name, "property": pid, "tier": tier, "at": time.strftime("%Y-%m-%dT%H:%M:%SZ", time.gmtime())}
    try:
        mut = os.path.join(scratch, "repo-mut")
        ori = os.path.join(scratch, "repo-ori")
        lean = os.path.join(scratch, "lean")
        copy_repo(mut)
        copy_repo(ori)
        shutil.copytree(os.path.join(ROOT, "lean"), lean, symlinks=True)
        rc, out = sh(["git", "apply", os.path.join(d, "patch.diff")], cwd=mut)
        res["patch_applies"] = rc == 0
        if rc != 0:
            res["error"] = out[-400:]
            return res
        demo = os.path.join(d, "demo.py")
        if os.path.exists(demo):
            shutil.copy(demo, os.path.join(mut, "_demo.py"))
            shutil.copy(demo, os.path.join(ori, "_demo.py"))
            helpers = [f for f in os.listdir(d) if f.endswith(".py") and f != "demo.py"]      # modules the demo imports
            for f in helpers:
                shutil.copy(os.path.join(d, f), os.path.join(mut, f))
                shutil.copy(os.path.join(d, f), os.path.join(ori, f))
            res["demo_on_changed_rc"], res["demo_on_changed_out"] = run_demo(mut, "_demo.py")
            res["demo_on_unchanged_rc"], _ = run_demo(ori, "_demo.py")
            os.remove(os.path.join(mut, "_demo.py"))
            os.remove(os.path.join(ori, "_demo.py"))
            for f in helpers:
                os.remove(os.path.join(mut, f))
                os.remove(os.path.join(ori, f))
        if tests:
            rc, out = sh([PY, "-m", "pytest", "-q", "-p", "no:cacheprovider", "pyorbital/tests"], cwd=mut, timeout=1800)
            m = re.search(r"(\d+) passed", out)
            res["tests_passed"] = int(m.group(1)) if m else None
        env = dict(os.environ, PV_REPO=mut, PV_LEAN_DIR=lean, PV_EVIDENCE_DIR=os.path.join(scratch, "evidence"),
                   PV_REPLAY_DIR=os.path.join(scratch, "replays"))
        t0 = time.time()
        try:
            rc, out = sh([os.path.join(ROOT, "check"), pid, "--tier", tier], cwd=ROOT, env=env, timeout=3 * 3600)
        except subprocess.TimeoutExpired:
            rc, out = 124, "timeout"
        res["check_rc"] = rc
        res["check_wall_s"] = round(time.time() - t0, 1)
        vio = [l for l in out.split("\n") if l.startswith("VIOLATION")]
        res["violation_line"] = vio[0] if vio else None
        res["check_tail"] = out[-700:]
        res["caught"] = rc == 1 and bool(vio)
        res["with_failing_input"] = bool(vio) and "no-failing-input-found" not in vio[0]
        try:
            ev = json.load(open(os.path.join(scratch, "evidence", pid + ".json")))
            res["ties_broken"] = [t.get("stage") if isinstance(t, dict) else str(t)[:80] for t in ev["coverage"].get("ties_broken", [])]
            res["theorems"] = "%d/%d" % (ev["coverage"]["discharged"], ev["coverage"]["obligations"])
        except Exception as e:  # noqa
            res["evidence_error"] = str(e)
        if vio:
            m = re.search(r"replay=(\S+)", vio[0])
            rp = m.group(1)
            rp = rp if os.path.isabs(rp) else os.path.normpath(os.path.join(ROOT, rp))
            if os.path.exists(rp):
                keepdir = os.path.join(d, "replay.json")
                shutil.copy(rp, keepdir)
                if res["with_failing_input"]:
                    for tag, repo in (("changed", mut), ("unchanged", ori)):
                        e2 = dict(env, PV_REPO=repo)
                        try:
                            rc2, o2 = sh([os.path.join(ROOT, "check"), pid, "--replay", rp], cwd=ROOT, env=e2, timeout=1800)
                        except subprocess.TimeoutExpired:
                            rc2 = 124
                        res["replay_on_%s_rc" % tag] = rc2
        return res
    except Exception as e:  # noqa
        res["error"] = repr(e)
        return res
    finally:
        if not keep:
            shutil.rmtree(scratch, ignore_errors=True)
        with open(os.path.join(d, "result.json"), "w") as f:
            json.dump(res, f, indent=1, sort_keys=True)


def main():
    ap = argparse.ArgumentParser()
    ap.add_argument("names", nargs="*")
    ap.add_argument("--tier", default="quick")
    ap.add_argument("--jobs", type=int, default=4)
    ap.add_argument("--tests", action="store_true")
    ap.add_argument("--keep", action="store_true")
    a = ap.parse_args()
    names = a.names or sorted(n for n in os.listdir(SEEDED) if os.path.exists(os.path.join(SEEDED, n, "meta.json")))
    with ThreadPoolExecutor(a.jobs) as ex:
        results = list(ex.map(lambda n: one(n, a.tier, a.tests, a.keep), names))
    for r in results:
        print("%-28s %s caught=%s input=%s rc=%s replay(changed/unchanged)=%s/%s demo(changed/unchanged)=%s/%s %s" % (
            r["name"], r["property"], r.get("caught"), r.get("with_failing_input"), r.get("check_rc"),
            r.get("replay_on_changed_rc"), r.get("replay_on_unchanged_rc"), r.get("demo_on_changed_rc"),
            r.get("demo_on_unchanged_rc"), r.get("error", "")))
    return 0


if __name__ == "__main__":
    sys.exit(main())
