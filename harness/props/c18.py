"""C18 — queries are pure: independent of call history, aliasing and concurrent use."""
import contextlib
import ctypes
import datetime as dt
import decimal
import hashlib
import io
import json
import locale
import logging
import os
import random
import shutil
import signal
import struct
import subprocess
import sys
import tempfile
import threading
import time
import types
import warnings

import lib
import tlegen

ID = "C18"
LEAN_TARGETS = ["PV.Props.C18"]
# T-D: functions translated from the source by harness/pytrans.py, proved equal to the model (DESIGN section 0)
EQUIV = {"PV.Equiv.TranslatedOrbitNum": ["run_solo", "modelCall_solo", "get_orbit_number_float_eq", "get_orbit_number_int_eq",
                                         "modelCall_callOn", "get_orbit_number_float_answer"],
         "PV.Equiv.TranslatedPropagate": ["propagate_eq", "propagate_modes", "propagate_no_history"]}
RULE = ("per near-earth TLE (repo test TLEs + generated LEO sets, epoch at and off the ascending node): (1) histories of "
        "<= 10 mixed queries drawn with repetition from a per-TLE pool (get_position scalar/array, normalised or not; "
        "get_lonlatalt; get_observer_look scalar/array; get_orbit_number incl. tbus_style/as_float; get_last_an_time; "
        "get_next_passes 1-2 h; array-taking queries whose time argument is a container of Python objects: an object ndarray "
        "of aware UTC datetimes, one of aware datetimes with other offsets, and two with a drawn container (object ndarray 1-d/"
        "2-d, list, tuple) and element kind (aware UTC, aware other offsets, naive, datetime64 scalars, mixed), whose element "
        "objects must be the same objects after the call; a new pool every 10 histories, alternately with times spread over days and with all times "
        "within 50 minutes of one instant, the epoch or another) on ONE object, every result compared byte-wise with the same "
        "query on a FRESH object; "
        "returned arrays and argument arrays are overwritten by the caller afterwards; (1b) aliasing histories of 2-8 "
        "consecutive array-taking queries (get_position both normalisations, get_lonlatalt, get_observer_look, and "
        "get_orbit_number which rejects arrays) that all receive ONE time-array object (datetime64 us/ms/s; the array itself "
        "or a view of a base array) and ONE lon/lat/alt array object whose contents the caller changes in place in between "
        "(times += step, times[i] = ..., base array of the view advanced or one element of it set, observer buffers moved; "
        "sometimes no change), each result compared byte-wise with a FRESH object given a FRESH copy of the same values; "
        "arguments, Tle.__dict__ and every "
        "module-level data value of orbital/astronomy/tlefile are hashed before/after every call; (1c) histories of <= 10 "
        "queries that differ in the REPRESENTATION of the time argument: the first get_orbit_number of the object mostly gets a "
        "datetime64 coarser than microseconds ([s], [m], [h], [D]), later queries datetime / datetime64[us] / [ns] / [ms] / coarse "
        "units of other instants, node-time/position/sub-point/look queries before and in between, each compared byte-wise with "
        "the same query on a FRESH object; (1d) histories of 2-8 queries mixing pass searches aimed at the ground track (they "
        "find passes), look-angle queries over observer grids with non-finite fill values (inf, -inf, nan; method and "
        "module-level function, float32/float64, 1-d/2-d), position queries with NaT among the times and ordinary queries; "
        "every fresh-object reference result is computed with the process/thread state reset to what it was before the first "
        "query of the run (numpy error modes and callback, warnings filters, decimal context, os.environ, working directory, "
        "time zone, recursion limit, numpy print options, locale, numpy.random / random global state), every history starts "
        "from that state, and that state (plus the thread switch interval) is read before and after EVERY call (histories, "
        "aliasing histories, reference calls; in scheduled runs per thread and for the process): any difference is "
        "process_state_modified; for a sample of histories (the first 2 per element set and family; thorough 6) every result "
        "is also compared with the same query on a fresh object in a forked copy of a newly started child interpreter in "
        "which no query has run; (1e) environment independence: every kind of query (get_position, get_lonlatalt, "
        "get_observer_look method and module-level function, get_orbit_number, get_last_an_time, get_next_passes aimed at the "
        "ground track) with every representation of the time argument (naive datetime, aware UTC datetime, datetime64 "
        "[us]/[s]/[ms]/[ns]/[m], datetime64 array, object arrays of aware UTC / other-offset datetimes; first element set: all "
        "combinations, others: naive datetime + 3 drawn; plus one pass search over 6-24 h that finds several passes) on an "
        "object built and queried under three process environments - TZ=UTC0, the run's own zone, a zone on the other side of "
        "Greenwich (os.environ['TZ'] + time.tzset()), each with a random choice of (all of them with the run's own zone): other "
        "working directory, TLES/PYORBITAL_CONFIG_PATH/PPP_CONFIG_DIR set to other values, LC_ALL locale if the host has "
        "another one, decimal context precision/rounding, numpy print options, np.seterr(all=ignore|warn|call), the process-wide "
        "logging configuration (root / pyorbital / pyorbital.orbital logger at DEBUG with a NullHandler or a StringIO handler - "
        "always one of these with the run's own zone -, logging.disable, other levels; restored afterwards) - byte-wise "
        "equal to the result under the run's own zone with nothing else changed; (1f) histories of 3-10 steps on one object "
        "under test during which TWO OTHER objects (other real sets, generated high-drag sets, sets of the other near-earth mode) "
        "are constructed and queried in between: array queries (get_position, get_lonlatalt, get_observer_look) that all have one "
        "shape (1-d of 1-6, 2-d) at other instants every time (time windows; one time grid on several satellites), scalar and "
        "pool queries; every result of every object compared byte-wise with a FRESH object's (all references computed before "
        "the history starts), and every array any query returned is KEPT by the caller (the object and a byte copy) and must "
        "still hold its bytes after every later step (returned_value_changed_later); (2) real threads under a "
        "deterministic scheduler (sys.settrace, semaphores; a switch happens only before a source line of pyorbital/orbital.py): "
        "for two concurrent get_orbit_number calls ALL single pre-emption points in get_orbit_number's own frame, the first "
        "occurrence(s) of every distinct source line below it, a random sample of the rest, two-pre-emption schedules "
        "A^k B^m A* B* over own-frame points, three-thread schedules A^k B* A^m C* A* (a complete call before and after a few "
        "lines of a pre-empted one), get_orbit_number against every other query in both roles, sampled multi-pre-emption "
        "schedules (3 threads in thorough; sometimes on a warmed object), plus free-running threads with a 1 us switch "
        "interval; (2b) one get_next_passes pre-empted at the first occurrence of every source line of get_next_passes/_elevation/"
        "_elevation_inv/_get_root/_get_max_parab (plus sampled later ones; quick tier: a sample with every frame represented) while "
        "ANOTHER get_next_passes with a different observer/start/length/horizon runs to completion, both roles; one propagating "
        "query (get_position/get_lonlatalt/get_observer_look, scalar or array times) pre-empted at the first occurrences of the "
        "lines of _SGDP4.propagate/_Keplerians.calculate and of the helpers below them while another propagating query for "
        "another time runs to completion; every thread's result (an exception is a result) compared byte-wise with the fresh "
        "single-threaded result; (3) correspondence: the "
        "observed load/store sequence of orbit_elements.an_time/an_period (threads and sequential histories) must be exactly "
        "the trace PV.Model.Cache produces when replayed in the observed thread order (driver op c18vis), the store "
        "statement used must be the one a fresh call uses, and every stored/loaded value must be the canonical one; "
        "distinct = (tle, history) or (tle, queries, plan) or (tle, event sequence) or (tle, environment query) or (tle, other sets, steps)")
ASSUMPTIONS = ["the GIL makes a single attribute load/store of orbit_elements atomic; thread switches inside one bytecode or "
               "inside numpy's C code are not modelled (the scheduler switches at source-line boundaries of pyorbital/orbital.py)",
               "numpy's own purity: ufuncs and datetime arithmetic return the same bytes for the same input bytes and keep no "
               "state between calls (apart from the error handling modes of the calling thread, which are observed)",
               "process/thread state is observed through the listed accessors (np.geterr, np.geterrcall, warnings.filters, "
               "decimal.getcontext, os.environ, os.getcwd, time.tzname/timezone, sys.getrecursionlimit, np.get_printoptions, "
               "locale.setlocale, the global numpy.random/random state); state outside this list is covered only by the sampled "
               "comparison with a child interpreter",
               "bit-identity of numerical results is compared on the sampled histories/schedules, not proved; the theorems are "
               "about the cache protocol (which loads/stores happen, in which order, with which values)",
               "a run is replayed in the model by the thread order of its load/store events; that the silent computations in "
               "between may be moved next to the following event is proved step-wise (silent_commute), the reordering of a "
               "whole run is not mechanised"]
TRUSTED = ["model PV.Model.Cache (hand-written after orbital.py Orbital.get_orbit_number), tied by exact equality of load/store "
           "traces under the deterministic scheduler and by comparing every stored value with the canonical one",
           "the sys.settrace scheduler of harness/props/c18.py (switch points = line events of pyorbital/orbital.py frames)"]
LEVEL_TEXT = ("Theorems (Lean 4 kernel, core only; any number of threads, arbitrary schedules, arbitrary value domains, object "
              "fresh or in any empty-or-canonical cache state): the invariant 'each cache slot is empty or holds the canonical "
              "value, a thread past its own store sees the slot set, thread locals are canonical' holds initially (inv_init), is "
              "preserved by every step of every thread (inv_step) and so holds in every reachable state (inv_reachable); hence "
              "under ANY interleaving no AttributeError escapes the handler (no_attribute_error_escapes), every returned thread "
              "returned the value of a fresh single-threaded call (any_interleaving_same_result; fresh_result: that value is a "
              "function of TLE and arguments), every thread returns within 10 of its own steps (finishes_within), every "
              "load/store event carries canonical values (trace_canonical); any sequence of completed queries returns fresh "
              "results and leaves the cache empty-or-canonical (history_independent), also after an arbitrary unfinished "
              "concurrent phase (history_after_any_run); steps never touch TLE, arguments, thread count or other threads' locals "
              "(frame, frame_run) and write a slot only at the two store steps (frame_step); silent steps commute with other "
              "threads' steps (silent_commute); the driver's replay of an observed event order is a genuine run of the model "
              "(replay_is_a_run). Tie: real threads under a line-level deterministic scheduler, observed "
              "load/store traces equal the model's; results compared byte-wise.")
LEVEL_NOTE = ("Trusted: Lean kernel; axioms propext, Quot.sound (Classical.choice where grind/simp use it); the hand-written model "
              "and its trace correspondence; GIL atomicity of attribute access; numpy purity; bit-identity is measured, not proved.")
TECHNIQUE = ("Lean 4 proof of an inductive invariant over a small-step interleaving model (all schedules, all thread counts) + "
             "deterministic-scheduler trace correspondence on real threads + byte-wise differential oracle (used vs fresh object)")

INF = 10 ** 9
SPY_NAMES = {"an_time": "T", "an_period": "P"}


_QUIET = []


def _mods():
    if not _QUIET:
        # fill values / NaT in the argument grids make numpy warn (overflow, invalid value); outcomes are compared anyway
        warnings.filterwarnings("ignore", category=RuntimeWarning, module=r"pyorbital\..*")
        # an aware (UTC) datetime converted by numpy: "no explicit representation of timezones available"
        warnings.filterwarnings("ignore", category=UserWarning, message="no explicit representation of timezones.*")
        _QUIET.append(True)
    from pyorbital import orbital, astronomy, tlefile
    if BASE is None:
        _set_base()                                    # the state of the process before the first query of this run
    return orbital, astronomy, tlefile


def _np():
    import numpy as np
    return np


# ---------------------------------------------------------------- fingerprints (byte-wise)
def fp(x):
    np = _np()
    if isinstance(x, np.ndarray):
        if x.dtype == object:
            return ("ndo", x.shape, tuple(fp(v) for v in x.ravel().tolist()))
        return ("nd", x.dtype.str, x.shape, hashlib.sha1(np.ascontiguousarray(x).tobytes()).hexdigest())
    if isinstance(x, np.generic):
        return ("ng", type(x).__name__, x.dtype.str, x.tobytes().hex())
    if isinstance(x, bool) or x is None or isinstance(x, (int, str, bytes)):
        return (type(x).__name__, repr(x))
    if isinstance(x, float):
        return ("float", struct.pack(">d", x).hex())
    if isinstance(x, (dt.datetime, dt.date, dt.timedelta)):
        return ("dt", repr(x))
    if isinstance(x, (tuple, list)):
        return (type(x).__name__, tuple(fp(v) for v in x))
    if isinstance(x, (set, frozenset)):
        return (type(x).__name__, tuple(sorted(repr(fp(v)) for v in x)))
    if isinstance(x, dict):
        return ("dict", tuple((repr(k), fp(v)) for k, v in sorted(x.items(), key=lambda kv: repr(kv[0]))))
    if isinstance(x, BaseException):
        return ("exc", type(x).__name__, str(x)[:200])
    return ("obj", type(x).__name__, repr(x)[:200])


def short(x, n=160):
    """human-readable rendering for reports"""
    try:
        s = repr(x)
    except Exception:  # noqa
        s = "<unrepresentable>"
    s = " ".join(s.split())
    return s if len(s) <= n else s[:n] + "..."


def scribble(x):
    """What a caller may do with what it got back (or with its own argument buffers): overwrite arrays in place."""
    np = _np()
    if isinstance(x, np.ndarray):
        if x.flags.writeable and x.size:
            try:
                if x.dtype.kind == "f":
                    x[...] = x * 3.0 + 12345.678
                elif x.dtype.kind == "M":
                    x[...] = x + np.timedelta64(4321, "s")
                elif x.dtype.kind in "iu":
                    x[...] = x + 17
            except (ValueError, TypeError):
                pass
    elif isinstance(x, (tuple, list)):
        for v in x:
            scribble(v)
    elif isinstance(x, dict):
        for v in x.values():
            scribble(v)


def module_state():
    """Every module-level data value (constants, tables, caches; any name) of the three modules the queries run through."""
    np = _np()
    out = []
    for m in _mods():
        for k in sorted(vars(m)):
            v = vars(m)[k]
            if k.startswith("__"):
                continue
            if isinstance(v, (bool, int, float, str, bytes, tuple, list, dict, set, frozenset, np.ndarray, np.generic)) or v is None:
                out.append((m.__name__, k, fp(v)))
    return tuple(out)


def mod_diff(a, b):
    da = {(m, k): v for m, k, v in a}
    db = {(m, k): v for m, k, v in b}
    return sorted("%s.%s" % mk for mk in set(da) | set(db) if da.get(mk) != db.get(mk))


# ---------------------------------------------------------------- process / thread level state
# A result that "depends only on the TLE and the arguments" cannot depend on state of the process or of the calling
# thread, and a query that CHANGES such state makes every later query (on any object) history dependent.  The state
# below is read before and after every call; the fresh-object reference results are computed with it reset to what it
# was before the first query of the run.
BASE = None


def _sha(x):
    return hashlib.sha1(repr(x).encode()).hexdigest()[:16]


def thread_state():
    """the part of the state that belongs to the calling thread (numpy error handling, decimal context)"""
    np = _np()
    return {"numpy error mode (np.geterr)": repr(sorted(np.geterr().items())),
            "numpy error callback (np.geterrcall)": repr(np.geterrcall()),
            "decimal context": repr(decimal.getcontext())}


def proc_state():
    """process- and thread-level state no query may leave changed"""
    np = _np()
    st = thread_state()
    nprs = np.random.get_state()
    raw = getattr(os.environ, "_data", None)           # (CPython keeps the encoded mapping there; hashed without decoding it)
    st.update({
        "warnings filters": _sha(warnings.filters),
        "os.environ": hash(frozenset(raw.items())) if isinstance(raw, dict) else _sha(sorted(os.environ.items())),
        "current working directory": os.getcwd(),
        "time zone (time.tzname/timezone/altzone/daylight)": repr((time.tzname, time.timezone, time.altzone, time.daylight)),
        "recursion limit": sys.getrecursionlimit(),
        "thread switch interval": sys.getswitchinterval(),
        "numpy print options": repr(sorted(np.get_printoptions().items())),
        "numpy.random global state": (hash(nprs[1].tobytes()),) + tuple(nprs[2:]),
        "random global state": hash(random.getstate()),
        "locale": locale.setlocale(locale.LC_ALL),
    })
    return st


def state_diff(a, b):
    return sorted(k for k in set(a) | set(b) if a.get(k) != b.get(k))


def state_change_text(a, b):
    out = []
    for k in state_diff(a, b):
        va, vb = str(a.get(k)), str(b.get(k))
        out.append("%s: %s -> %s" % (k, va, vb) if len(va) + len(vb) < 400 else k)
    return "; ".join(out)


def capture():
    """the restorable part of the state (objects, not fingerprints)"""
    np = _np()
    return {"err": np.geterr(), "errcall": np.geterrcall(), "filters": list(warnings.filters),
            "decimal": decimal.getcontext().copy(), "environ": dict(os.environ), "cwd": os.getcwd(),
            "reclimit": sys.getrecursionlimit(), "printopts": np.get_printoptions(), "locale": locale.setlocale(locale.LC_ALL),
            "nprandom": np.random.get_state(), "random": random.getstate()}


def reinstate(s):
    np = _np()
    np.seterr(**s["err"])
    if np.geterrcall() is not s["errcall"]:
        np.seterrcall(s["errcall"])
    if warnings.filters != s["filters"]:
        warnings.filters[:] = s["filters"]
        getattr(warnings, "_filters_mutated", getattr(warnings, "_filters_mutated_lock_held", lambda: None))()
    decimal.setcontext(s["decimal"].copy())
    if dict(os.environ) != s["environ"]:
        for k in list(os.environ):
            if k not in s["environ"]:
                del os.environ[k]
        for k, v in s["environ"].items():
            if os.environ.get(k) != v:
                os.environ[k] = v
    time.tzset()
    if os.getcwd() != s["cwd"]:
        os.chdir(s["cwd"])
    if sys.getrecursionlimit() != s["reclimit"]:
        sys.setrecursionlimit(s["reclimit"])
    if np.get_printoptions() != s["printopts"]:
        np.set_printoptions(**s["printopts"])
    if locale.setlocale(locale.LC_ALL) != s["locale"]:
        locale.setlocale(locale.LC_ALL, s["locale"])
    np.random.set_state(s["nprandom"])
    random.setstate(s["random"])


def _set_base():
    global BASE
    BASE = capture()


@contextlib.contextmanager
def pristine():
    """the state of the process as it was before the first query of the run (for reference results); whatever the
    history under examination made of it comes back afterwards"""
    now = capture()
    reinstate(BASE)
    try:
        yield
    finally:
        reinstate(now)


# ---------------------------------------------------------------- the environment a pure function must ignore
ZONES_EAST = ["JST-9", "<+0545>-5:45", "CET-1CEST,M3.5.0,M10.5.0/3", "NZST-12NZDT,M9.5.0,M4.1.0/3", "<+1030>-10:30"]
ZONES_WEST = ["PST8PDT,M3.2.0,M11.1.0", "<-0930>9:30", "XYZ4", "<-03>3", "HST10"]
OTHER_VARS = {"TLES": "/nonexistent/tles/*.tle", "PYORBITAL_CONFIG_PATH": "/nonexistent/pyorbital/etc",
              "PPP_CONFIG_DIR": "/nonexistent/ppp"}
LOCALES = ["de_DE.UTF-8", "fr_FR.UTF-8", "tr_TR.UTF-8", "C.utf8", "C.UTF-8", "POSIX"]
SETERR_MODES = ["ignore", "warn", "call"]             # modes that do not turn a floating-point condition into an exception


# process-wide LOGGING configuration: who listens, and at which level, is not an argument of a query
LOGGING_DEBUG = [{"logger": "pyorbital.orbital", "level": "DEBUG", "handler": "null"},
                 {"logger": "pyorbital.orbital", "level": "DEBUG", "handler": "stringio"},
                 {"logger": "pyorbital", "level": "DEBUG", "handler": "null"},
                 {"logger": "pyorbital", "level": "DEBUG", "handler": "stringio"},
                 {"logger": "", "level": "DEBUG", "handler": "null"},
                 {"logger": "", "level": "DEBUG", "handler": "stringio"}]
LOGGING_OTHER = [{"disable": "CRITICAL"},
                 {"logger": "", "level": "DEBUG", "handler": "stringio", "disable": "INFO"},
                 {"logger": "pyorbital", "level": "INFO", "handler": "stringio"},
                 {"logger": "", "level": "CRITICAL", "handler": "null"}]


def apply_logging(cfg):
    """configure the logging module as described by cfg; -> what restore_logging needs"""
    root = logging.getLogger()
    saved = {"disable": root.manager.disable, "root_handlers": list(root.handlers), "loggers": []}
    root.handlers = [logging.NullHandler()]            # whatever is logged during the block is not this run's output
    if cfg.get("logger") is not None:
        lgr = logging.getLogger(cfg["logger"])
        saved["loggers"].append((lgr, lgr.level, list(lgr.handlers), lgr.disabled))
        if cfg.get("handler"):
            h = logging.NullHandler() if cfg["handler"] == "null" else logging.StreamHandler(io.StringIO())
            h.setLevel(logging.DEBUG)
            lgr.handlers = [h]
        lgr.disabled = False
        lgr.setLevel(getattr(logging, cfg["level"]))
    if cfg.get("disable"):
        logging.disable(getattr(logging, cfg["disable"]))
    return saved


def restore_logging(saved):
    root = logging.getLogger()
    for lgr, level, handlers, disabled in saved["loggers"]:
        lgr.handlers = handlers
        lgr.disabled = disabled
        lgr.setLevel(level)
    root.handlers = saved["root_handlers"]
    logging.disable(saved["disable"])


def _noop_errcall(kind, flag):
    return None


def usable_locale():
    """a locale other than the current one that this host can switch to (None: there is none)"""
    cur = locale.setlocale(locale.LC_ALL)
    for name in LOCALES:
        try:
            locale.setlocale(locale.LC_ALL, name)
        except locale.Error:
            continue
        changed = locale.setlocale(locale.LC_ALL) != cur
        locale.setlocale(locale.LC_ALL, cur)
        if changed:
            return name
    return None


def own_zone():
    return (BASE or {}).get("environ", os.environ).get("TZ") or "UTC0"


def gen_envs(rng):
    """three process environments: UTC, the run's own zone, a zone on the other side of Greenwich (two when the run's own
    zone is UTC), each with a random choice of the other things a pure function must ignore"""
    _mods()
    own = own_zone()
    west_of_utc = time.timezone > 0                    # the run's own zone (no query has changed it: checked)
    other = rng.choice(ZONES_EAST if west_of_utc else ZONES_WEST)
    zones = ["UTC0", own, other]
    if time.timezone == 0 and not time.daylight:
        zones = ["UTC0", rng.choice(ZONES_EAST), rng.choice(ZONES_WEST)]
    loc = usable_locale()
    envs = []
    for i, z in enumerate(zones):
        full = i == 1                                  # the run's own zone: everything else changed
        envs.append({"tz": z,
                     "cwd": full or rng.random() < 0.5,
                     "vars": full or rng.random() < 0.5,
                     "locale": loc if (full or rng.random() < 0.5) else None,
                     "decimal_prec": rng.choice([3, 7, 50]) if (full or rng.random() < 0.5) else None,
                     "printopts": full or rng.random() < 0.5,
                     "seterr": rng.choice(SETERR_MODES) if (full or rng.random() < 0.5) else None,
                     # the run's own zone: a configuration in which pyorbital's loggers are enabled for DEBUG
                     "logging": rng.choice(LOGGING_DEBUG) if full else rng.choice(LOGGING_DEBUG + LOGGING_OTHER + [None, None])})
    return envs


@contextlib.contextmanager
def under_env(env):
    """the process environment changed as described by env (JSON-able), restored afterwards"""
    np = _np()
    _mods()
    saved = capture()
    tmp = None
    saved_logging = None
    try:
        if env.get("logging"):
            saved_logging = apply_logging(env["logging"])
        if env.get("tz"):
            os.environ["TZ"] = env["tz"]
            time.tzset()
        if env.get("vars"):
            os.environ.update(OTHER_VARS)
        if env.get("cwd"):
            tmp = tempfile.mkdtemp(prefix="pv-c18-cwd-")
            os.chdir(tmp)
        if env.get("locale"):
            try:
                locale.setlocale(locale.LC_ALL, env["locale"])
                os.environ["LC_ALL"] = env["locale"]
            except locale.Error:
                pass
        if env.get("decimal_prec"):
            decimal.getcontext().prec = int(env["decimal_prec"])
            decimal.getcontext().rounding = decimal.ROUND_DOWN
        if env.get("printopts"):
            np.set_printoptions(precision=2, threshold=2, edgeitems=1, suppress=True, floatmode="fixed", linewidth=40)
        if env.get("seterr"):
            np.seterr(all=env["seterr"])
            if env["seterr"] == "call":
                np.seterrcall(_noop_errcall)
            warnings.simplefilter("ignore", RuntimeWarning)    # 'warn' on underflow etc.: a warning, not an outcome
        yield
    finally:
        reinstate(saved)
        if saved_logging is not None:
            restore_logging(saved_logging)
        if tmp:
            shutil.rmtree(tmp, ignore_errors=True)


def env_text(env):
    return ", ".join("%s=%s" % (k, env[k]) for k in sorted(env) if env[k] not in (None, False))


# ---------------------------------------------------------------- queries (JSON-able descriptors)
def new_orbital(tle):
    orbital = _mods()[0]
    return orbital.Orbital("x", line1=tle[0], line2=tle[1])


def _times(q, epoch):
    np = _np()
    us = q["us"]
    if q["tk"] == "arr":
        t = epoch + np.array(us, dtype="timedelta64[us]")
        for i in q.get("nat") or []:                   # missing scan lines: NaT among the times
            t[i % len(t)] = np.datetime64("NaT")
        return t.reshape(q["shape"]) if q.get("shape") else t
    if q["tk"] == "obj":
        return obj_times(q, epoch)
    t = epoch + np.timedelta64(us[0], "us")
    if q["tk"] == "py":                                # a naive datetime.datetime ("assumed to be UTC")
        return t.astype(dt.datetime)
    if q["tk"] == "pyutc":                             # an aware one, in UTC
        return t.astype(dt.datetime).replace(tzinfo=dt.timezone.utc)
    if q.get("unit"):                                  # the caller's clock resolution: datetime64[s], [m], [h], [ms], [ns] ...
        t = t.astype("datetime64[%s]" % q["unit"])
    return t


def obj_times(q, epoch):
    """The instants as PYTHON OBJECTS in a container: an ndarray of dtype object, a list or a tuple whose elements are aware
    datetimes in UTC ('utc'), aware datetimes in other zones ('off': the same instants, offsets in minutes), naive
    datetimes ('naive'), numpy.datetime64 scalars ('np') or a mixture."""
    np = _np()
    out = []
    for i, u in enumerate(q["us"]):
        s = epoch + np.timedelta64(u, "us")
        kind = q["elem"] if q["elem"] != "mixed" else ("utc", "off", "naive", "np")[i % 4]
        if kind == "np":
            out.append(s)
            continue
        d = s.astype("datetime64[us]").astype(dt.datetime)
        if kind in ("utc", "off"):
            d = d.replace(tzinfo=dt.timezone.utc)
        if kind == "off":
            d = d.astimezone(dt.timezone(dt.timedelta(minutes=int(q["offsets"][i % len(q["offsets"])]))))
        out.append(d)
    if q["cont"] == "ndarray":
        a = np.empty(len(out), dtype=object)
        for i, v in enumerate(out):
            a[i] = v
        return a.reshape(q["shape"]) if q.get("shape") else a
    return out if q["cont"] == "list" else tuple(out)


def elements(x):
    """the element OBJECTS of a container of Python objects (object ndarray, list, tuple), else None"""
    np = _np()
    if isinstance(x, np.ndarray) and x.dtype == object:
        return x.ravel().tolist()
    if isinstance(x, (list, tuple)):
        return list(x)
    return None


def elements_changed(before, args):
    """which argument containers hold other element objects than before the call (identity), as text; '' if none"""
    out = []
    for i, (b, a) in enumerate(zip(before, args)):
        now = elements(a)
        if b is None or now is None:
            continue
        if len(b) != len(now):
            out.append("argument %d: %d elements, was %d" % (i, len(now), len(b)))
            continue
        for k, (x, y) in enumerate(zip(b, now)):
            if x is not y:
                out.append("argument %d element %d was %s and now is %s" % (i, k, short(x, 80), short(y, 80)))
                break
    return "; ".join(out)


def mkargs(q, epoch):
    """Fresh argument objects for one call (positional list)."""
    np = _np()
    m = q["m"]
    t = _times(q, epoch)
    if m == "get_position":
        return [t, bool(q["normalize"])]
    if m in ("get_lonlatalt", "get_last_an_time"):
        return [t]
    if m in ("get_observer_look", "mod_get_observer_look"):
        def grid(key):
            # observer grids as a swath product has them: float32/float64, 1-d/2-d, fill values among the coordinates
            a = np.array([float(v) for v in q[key]], dtype=q.get("dtype", "f8"))
            return a.reshape(q["shape"]) if q.get("shape") else a
        if m == "mod_get_observer_look":               # the module-level function: satellite sub-point grids first
            return [grid("slon"), grid("slat"), grid("salt"), t, grid("lon"), grid("lat"), grid("alt")]
        if q["tk"] in ("arr", "obj") or "dtype" in q:
            return [t, grid("lon"), grid("lat"), grid("alt")]
        return [t, float(q["lon"][0]), float(q["lat"][0]), float(q["alt"][0])]
    if m == "get_orbit_number":
        return [t, bool(q["tbus"]), bool(q["as_float"])]
    if m == "get_next_passes":
        return [t, int(q["length"]), float(q["lon"][0]), float(q["lat"][0]), float(q["alt"][0])]
    raise ValueError(m)


def call(orb, q, args):
    try:
        if q["m"].startswith("mod_"):                  # module-level function of pyorbital.orbital
            return getattr(_mods()[0], q["m"][4:])(*args)
        if q.get("horizon") is not None:               # get_next_passes(..., horizon=<elevation of the local horizon>)
            return getattr(orb, q["m"])(*args, horizon=float(q["horizon"]))
        return getattr(orb, q["m"])(*args)
    except Exception as e:  # noqa  an exception is an outcome like any other; it must be the same one
        return e


def qkey(q):
    return json.dumps(q, sort_keys=True)


def gen_pool(rng, centre=None):
    """A small pool of distinct queries; histories draw from it with repetition.  centre (microseconds after the epoch):
    all query times lie within 50 minutes of it (queries of one revolution, as a time-keyed memo would need)."""
    def us(lo, hi):
        if centre is not None:
            return centre + rng.randrange(-3000 * 10 ** 6, 3000 * 10 ** 6)
        return rng.randrange(int(lo * 1e6), int(hi * 1e6))
    day = 86400
    pool = []
    for i in range(3):
        pool.append({"m": "get_orbit_number", "tk": rng.choice(["np", "py"]), "us": [us(-day, 2 * day)],
                     "tbus": rng.random() < 0.4, "as_float": rng.random() < 0.4})
    for i in range(2):
        pool.append({"m": "get_position", "tk": rng.choice(["np", "py"]), "us": [us(-day, day)], "normalize": rng.random() < 0.6})
    pool.append({"m": "get_position", "tk": "arr", "us": [us(-day, day) for _ in range(rng.randrange(1, 6))],
                 "normalize": rng.random() < 0.6})
    pool.append({"m": "get_lonlatalt", "tk": rng.choice(["np", "py", "arr"]), "us": [us(-day, day) for _ in range(3)]})
    n = rng.randrange(1, 5)
    pool.append({"m": "get_observer_look", "tk": rng.choice(["np", "py", "arr"]), "us": [us(-day, day) for _ in range(n)],
                 "lon": [rng.uniform(-180, 180) for _ in range(n)], "lat": [rng.uniform(-90, 90) for _ in range(n)],
                 "alt": [rng.uniform(0, 3) for _ in range(n)]})
    pool.append({"m": "get_last_an_time", "tk": rng.choice(["np", "py"]), "us": [us(-day / 4, day / 4)]})
    pool.extend(fill_queries(rng))
    pool.extend(obj_queries(rng, us))
    pool.append({"m": "get_next_passes", "tk": "py", "us": [us(-day / 4, day / 4)], "length": rng.choice([1, 1, 2]),
                 "lon": [rng.uniform(-180, 180)], "lat": [rng.uniform(-80, 80)], "alt": [rng.uniform(0, 2)]})
    return pool


OBJ_ELEMS = ["utc", "off", "naive", "np", "mixed"]
OBJ_OFFSETS = [60, -300, 345, 570, -210, 0, 765, -720, 1]          # minutes east of Greenwich


def obj_time(rng, n, elem=None, cont=None):
    """descriptor of a time argument handed over as a container of Python objects"""
    return {"tk": "obj", "elem": elem or rng.choice(OBJ_ELEMS), "cont": cont or rng.choice(["ndarray", "ndarray", "list", "tuple"]),
            "offsets": [rng.choice(OBJ_OFFSETS) for _ in range(n)]}


def obj_queries(rng, us=None):
    """array-taking queries whose time argument is an object ndarray of aware datetimes (UTC; other offsets), and two with a
    drawn container (object ndarray, list, tuple) and element kind (aware UTC / aware other offsets / naive / datetime64
    scalars / mixed); the container and its elements must come back as they were (same objects, same tzinfo)"""
    day = 86400
    us = us or (lambda lo, hi: rng.randrange(int(lo * 1e6), int(hi * 1e6)))
    out = []
    for elem, cont in (("utc", "ndarray"), ("off", "ndarray"), (None, None), (None, None)):
        m = rng.choice(["get_position", "get_lonlatalt", "get_observer_look", "mod_get_observer_look"])
        shape = rng.choice([None, None, [2, 2], [3, 1]]) if m != "get_lonlatalt" else None
        n = shape[0] * shape[1] if shape else rng.randrange(1, 6)
        q = dict({"m": m, "us": [us(-day, day) for _ in range(n)]}, **obj_time(rng, n, elem, cont))
        if shape and q["cont"] == "ndarray":
            q["shape"] = shape
        if m == "get_position":
            q["normalize"] = rng.random() < 0.5
        if m in ("get_observer_look", "mod_get_observer_look"):
            q.update(lon=[rng.uniform(-180, 180) for _ in range(n)], lat=[rng.uniform(-90, 90) for _ in range(n)],
                     alt=[rng.uniform(0, 3) for _ in range(n)])
        if m == "mod_get_observer_look":
            q.update(slon=[rng.uniform(-180, 180) for _ in range(n)], slat=[rng.uniform(-80, 80) for _ in range(n)],
                     salt=[rng.uniform(300, 1500) for _ in range(n)])
        out.append(q)
    return out


FILLS = [-999.0, 1e30, 9999.0, float("nan"), -1e30, 361.0, float("inf"), float("-inf")]
NONFINITE = [float("inf"), float("-inf"), float("nan"), float("inf")]


def fill_grid(rng, n, lo, hi, nfill, fills=None):
    """valid coordinates with a few fill values (off-earth pixels of a swath product) among them"""
    vals = [rng.uniform(lo, hi) for _ in range(n)]
    for i in rng.sample(range(n), min(n, nfill)):
        vals[i] = rng.choice(fills or FILLS)
    return vals


def fill_queries(rng, fills=None):
    """look-angle queries (method and module-level function) on float32/float64, 1-d/2-d observer grids that contain
    fill values (finite ones, inf, -inf, nan), and array-time queries with NaT among the times; what they return for
    those pixels is compared like any other result (used vs fresh object), the argument arrays must come back
    byte-identical"""
    day = 86400
    out = []
    for m in ("get_observer_look", "mod_get_observer_look"):
        shape = rng.choice([None, None, [2, 3], [3, 2], [2, 2]])
        n = shape[0] * shape[1] if shape else rng.randrange(2, 7)
        tk = rng.choice(["np", "arr", "arr"])
        q = {"m": m, "tk": tk, "us": [rng.randrange(-day * 10 ** 6, day * 10 ** 6) for _ in range(n if tk == "arr" else 1)],
             "dtype": rng.choice(["f4", "f8"]), "shape": shape,
             "lon": fill_grid(rng, n, -180, 180, rng.randrange(1, 3), fills),
             "lat": fill_grid(rng, n, -90, 90, rng.randrange(0, 3), fills),
             "alt": fill_grid(rng, n, 0, 3, rng.randrange(0, 2), fills)}
        if tk == "arr" and rng.random() < 0.3:
            q["nat"] = [rng.randrange(0, n)]
        if m == "mod_get_observer_look":
            q.update(slon=[rng.uniform(-180, 180) for _ in range(n)], slat=[rng.uniform(-80, 80) for _ in range(n)],
                     salt=[rng.uniform(300, 1500) for _ in range(n)])
        out.append(q)
    n = rng.randrange(2, 6)
    out.append({"m": "get_position", "tk": "arr", "us": [rng.randrange(-day * 10 ** 6, day * 10 ** 6) for _ in range(n)],
                "normalize": rng.random() < 0.5, "nat": [rng.randrange(0, n)]})
    return out


class _Timeout(Exception):
    pass


PENDING = []    # violations seen while computing reference results; drained by oracle() / replay()


def _guarded(fn, seconds=5.0):
    """Run fn() in the main thread with a guard (get_last_an_time may not terminate on exotic sets: C11's matter).
    The budget is CPU time of this process, so a loaded machine cannot turn a slow call into a 'hang'; 20x the budget
    of wall-clock time is the backstop."""
    if threading.current_thread() is not threading.main_thread():
        return fn()
    c0, w0 = time.process_time(), time.time()
    tick = max(0.25, seconds / 4.0)

    def on_alarm(signum, frame):
        if time.process_time() - c0 >= seconds or time.time() - w0 >= 20 * seconds:
            raise _Timeout()
        signal.setitimer(signal.ITIMER_REAL, tick)
    old = signal.signal(signal.SIGALRM, on_alarm)
    signal.setitimer(signal.ITIMER_REAL, tick)
    try:
        return fn()
    finally:
        signal.setitimer(signal.ITIMER_REAL, 0)
        signal.signal(signal.SIGALRM, old)


def _kill_threads(ths):
    """watchdog of last resort: make runaway worker threads raise at their next bytecode"""
    for t in ths:
        if t.is_alive() and t.ident is not None:
            ctypes.pythonapi.PyThreadState_SetAsyncExc(ctypes.c_ulong(t.ident), ctypes.py_object(Runaway))
    for t in ths:
        t.join(5)


class Sat:
    """One TLE: its epoch, the fresh-object reference result of every query asked so far, the canonical cache values."""

    def __init__(self, tle):
        self.tle = tuple(tle)
        o = new_orbital(tle)
        self.epoch = o.tle.epoch
        self.refs = {}
        self._canon = None
        self.branch = None      # 'e': an_time := tle.epoch (epoch at the node); 'n': an_time := get_last_an_time(epoch)

    def fresh(self, q):
        """(fingerprint, rendering) of q on a FRESH object, single-threaded; None when it does not terminate in time.
        These reference calls are the first queries of a process, so a once-only change of a module-level table (a
        lazily filled cache, a registry entry) happens here: module state is compared around them too."""
        k = qkey(q)
        if k not in self.refs:
            m0 = module_state()
            # the reference is computed in the state the process had before the first query of the run: whatever the
            # histories run so far (on this or any other object, in this thread) have left behind is set aside
            with pristine():
                p0 = proc_state()
                try:
                    def run():
                        o = new_orbital(self.tle)
                        return call(o, q, mkargs(q, self.epoch))
                    r = _guarded(run)
                    self.refs[k] = (fp(r), short(r))
                except _Timeout:
                    self.refs[k] = None
                p1 = proc_state()
            m1 = module_state()
            case = {"kind": "history", "tle": list(self.tle), "hist": [q], "index": 0}
            if m1 != m0:
                PENDING.append(("module_state_modified", case,
                                "changed: " + ", ".join(mod_diff(m0, m1)), "module tables unchanged", q["m"]))
            if p1 != p0 and self.refs[k] is not None:
                PENDING.append(("process_state_modified", case, "changed by %s on a fresh object: %s" % (
                    q["m"], state_change_text(p0, p1)), "process/thread state unchanged by a query", q["m"]))
        return self.refs[k]

    def canon(self):
        """fingerprints of the values a fresh get_orbit_number leaves in the two slots (None: unset)"""
        if self._canon is None:
            np = _np()

            def run():
                o = new_orbital(self.tle)
                call(o, {"m": "get_orbit_number"}, [self.epoch + np.timedelta64(1, "h")])
                d = o.orbit_elements.__dict__
                br = "e" if d.get("an_time") is o.tle.epoch else "n"
                return tuple(fp(d[n]) if n in d else None for n in ("an_time", "an_period")), br
            try:
                self._canon, self.branch = _guarded(run)
            except _Timeout:
                self._canon = (None, None)
        return self._canon


def screen(sat, pool):
    """queries of the pool whose fresh reference terminates"""
    return [q for q in pool if sat.fresh(q) is not None]


def usable_sat(ctx, tle):
    """a Sat on which a fresh get_orbit_number terminates and returns a number, else None"""
    try:
        sat = Sat(tle)
    except Exception:  # noqa  not a usable element set (deep space, checksum ...): not this property's subject
        ctx.count("tle_skipped")
        return None
    probe = {"m": "get_orbit_number", "tk": "np", "us": [3600 * 10 ** 6], "tbus": False, "as_float": False}
    ref = sat.fresh(probe)
    if ref is None or ref[0][0] in ("exc",) or sat.canon()[0] is None:
        ctx.count("tle_skipped")
        return None
    return sat


def gen_sats(ctx, n):
    """near-earth element sets on which a fresh get_orbit_number terminates and returns a number: the repo's real TLEs
    first, alternating between epoch off the ascending node (the handler calls get_last_an_time twice) and epoch at the
    node (an_time := tle.epoch), then generated LEO sets"""
    cands = [(l1, l2) for (_, l1, l2) in tlegen.REAL_TLES]
    cands = sorted(set(cands))
    ctx.rng.shuffle(cands)
    by = {"n": [], "e": []}
    for tle in cands:
        sat = usable_sat(ctx, tle)
        if sat is not None:
            by[sat.branch].append(sat)
    out = []
    while (by["n"] or by["e"]) and len(out) < n:
        for b in ("n", "e"):
            if by[b] and len(out) < n:
                out.append(by[b].pop(0))
    tries = 0
    while len(out) < n and tries < 40 * n:
        tries += 1
        _, l1, l2 = tlegen.random_tle(ctx.rng, ctx.rng.choice(["leo", "leo", "near"]))
        sat = usable_sat(ctx, (l1, l2))
        if sat is not None:
            out.append(sat)
    return out


# ---------------------------------------------------------------- (1) history independence
def run_history(sat, hist, on_violation, count=None, got_out=None):
    """Execute hist on ONE object; report every deviation from the fresh-object result or any modified input."""
    _mods()
    reinstate(BASE)                                    # every history starts where a new process would
    orb = new_orbital(sat.tle)
    mod0 = module_state()
    for idx, q in enumerate(hist):
        ref = sat.fresh(q)
        if ref is None:
            if got_out is not None:
                got_out.append(None)
            continue
        args = mkargs(q, sat.epoch)
        a0 = fp(args)
        e0 = [elements(a) for a in args]               # the element objects of object arrays / lists / tuples (kept alive)
        t0 = fp(orb.tle.__dict__)
        p0 = proc_state()
        timed_out = False
        try:
            res = _guarded(lambda: call(orb, q, args), 20.0)
        except _Timeout:
            res = Runaway("no result after 20 s (fresh object: %s)" % ref[1])
            timed_out = True
        p1 = proc_state()
        got = fp(res)
        if got_out is not None:
            got_out.append((got, short(res)))
        if count:
            count()
        case = {"kind": "history", "tle": list(sat.tle), "hist": hist[:idx + 1], "index": idx}
        if got != ref[0]:
            on_violation("history_dependent", case, short(res), "fresh object: " + ref[1], q["m"])
        if p1 != p0 and not timed_out:
            on_violation("process_state_modified", case, "changed by %s: %s" % (q["m"], state_change_text(p0, p1)),
                         "process/thread state unchanged by a query", q["m"])
        if fp(args) != a0:
            on_violation("argument_modified", case, "arguments of %s changed by the call%s" % (
                q["m"], (": " + elements_changed(e0, args)) if elements_changed(e0, args) else ""), "arguments unchanged", q["m"])
        elif elements_changed(e0, args):
            on_violation("argument_modified", case, "arguments of %s changed by the call: %s" % (q["m"], elements_changed(e0, args)),
                         "arguments unchanged (the same element objects)", q["m"])
        if fp(orb.tle.__dict__) != t0:
            on_violation("tle_modified", case, "Tle attributes changed by %s" % q["m"], "Tle unchanged", q["m"])
        m1 = module_state()
        if m1 != mod0:
            on_violation("module_state_modified", case, "changed: " + ", ".join(mod_diff(mod0, m1)), "module tables unchanged", q["m"])
            mod0 = m1
        # the caller now reuses its buffers and the arrays it was given
        scribble(res)
        scribble(args)
    reinstate(BASE)
    return orb


def gen_history(rng, pool):
    n = rng.randrange(2, 11)
    hist = []
    for i in range(n):
        if hist and rng.random() < 0.3:
            hist.append(hist[-1])
        else:
            hist.append(rng.choice(pool))
    return hist


# ---------------------------------------------------------------- (1d) histories that may change the state of the thread
def gen_state_history(rng, passes, nonfinite, pool):
    """2-8 queries on one object: pass searches aimed at the ground track (they find passes, so the refinement of horizon
    crossings and culmination runs), look-angle queries over observer grids with non-finite fill values and position
    queries with NaT among the times (whether those come back as NaN entries or as an exception is decided by the
    floating-point error handling of the calling thread), ordinary queries of the pool"""
    hist = []
    for _ in range(rng.randrange(2, 9)):
        u = rng.random()
        if u < 0.3 and passes:
            hist.append(rng.choice(passes))
        elif u < 0.75 and nonfinite:
            hist.append(rng.choice(nonfinite))
        else:
            hist.append(rng.choice(pool))
    return hist


# ---------------------------------------------------------------- reference results from an interpreter nothing has touched
def _child_main():
    """(child interpreter) stdin: JSON [[tle, query], ...]; stdout: JSON [[fingerprint, rendering] | null, ...].
    Every query is evaluated on a fresh object in its own forked copy of this freshly started interpreter, so no query
    - not even an earlier reference query - has run in the process that answers it."""
    items = json.load(sys.stdin)
    _mods()
    out = []
    for tle, q in items:
        r, w = os.pipe()
        pid = os.fork()
        if pid == 0:
            rc = 0
            try:
                os.close(r)
                signal.alarm(30)                       # a query that does not return: the copy is killed, no reference
                o = new_orbital(tle)
                res = call(o, q, mkargs(q, o.tle.epoch))
                os.write(w, json.dumps([fp(res), short(res)]).encode())
            except BaseException:  # noqa
                rc = 1
            finally:
                os._exit(rc)
        os.close(w)
        buf = b""
        while True:
            chunk = os.read(r, 65536)
            if not chunk:
                break
            buf += chunk
        os.close(r)
        _, status = os.waitpid(pid, 0)
        out.append(json.loads(buf.decode()) if buf and status == 0 else None)
    sys.stdout.write(json.dumps(out))
    sys.stdout.flush()


CHILD_TROUBLE = []      # why a child interpreter gave no reference results (infrastructure; reported as a note)


def child_start(items):
    """start a new interpreter (with the environment and working directory this run started with) that computes the
    fresh-object results of the (tle, query) pairs; it runs beside the check, child_finish collects"""
    _mods()
    code = ("import sys; sys.path.insert(0, %r); import lib; from props import c18; c18._child_main()"
            % os.path.dirname(os.path.dirname(os.path.abspath(__file__))))
    cmd = [sys.executable] + (["-O"] if sys.flags.optimize else []) + ["-c", code]
    try:
        fin, fout, ferr = tempfile.TemporaryFile(), tempfile.TemporaryFile(), tempfile.TemporaryFile()
        fin.write(json.dumps(items).encode())
        fin.seek(0)
        p = subprocess.Popen(cmd, stdin=fin, stdout=fout, stderr=ferr, env=dict(BASE["environ"]), cwd=BASE["cwd"])
        fin.close()
        return p, fout, len(items), ferr
    except Exception as e:  # noqa  infrastructure, not a verdict
        CHILD_TROUBLE.append("not started: %r" % (e,))
        return None


def child_finish(handle, timeout=300):
    """the child's answers; None when it could not be run or did not finish (no verdict from it then)"""
    if handle is None:
        return None
    p, fout, n, ferr = handle
    try:
        try:
            p.wait(timeout)
        except subprocess.TimeoutExpired:
            p.kill()
            p.wait()
            CHILD_TROUBLE.append("no answer after %d s" % timeout)
            return None
        if p.returncode != 0:
            ferr.seek(0)
            CHILD_TROUBLE.append("exit status %s: %s" % (p.returncode, ferr.read().decode(errors="replace")[-600:]))
            return None
        fout.seek(0)
        out = json.loads(fout.read().decode())
        if len(out) != n:
            CHILD_TROUBLE.append("%d answers to %d questions" % (len(out), n))
            return None
        return out
    except Exception as e:  # noqa
        CHILD_TROUBLE.append("answers unreadable: %r" % (e,))
        return None
    finally:
        fout.close()
        ferr.close()


def child_begin(samples):
    """samples: [(sat, hist, got)] with got[i] = (fingerprint, rendering) of query i of the history as run_history saw it
    (None: not evaluated).  Starts the child interpreter that answers every query of those histories on a fresh object."""
    items, index = [], {}
    for sat, hist, got in samples:
        for q in hist:
            key = (tuple(sat.tle), qkey(q))
            if key not in index:
                index[key] = len(items)
                items.append([list(sat.tle), q])
    return (child_start(items) if items else None), index, samples


def compare_with_child(begun, on_violation, count=None, note=None):
    """Each sampled result of a history is compared with the result of the same query on a fresh object in an interpreter
    that no query has touched."""
    handle, index, samples = begun
    if not index:
        return
    refs = child_finish(handle)
    if refs is None:
        if note:
            note("reference results from a child interpreter not available; that comparison was skipped (%s)"
                 % "; ".join(CHILD_TROUBLE[-2:]))
        return
    for sat, hist, got in samples:
        for idx, q in enumerate(hist):
            ref = refs[index[(tuple(sat.tle), qkey(q))]]
            if ref is None or idx >= len(got) or got[idx] is None:
                continue
            if count:
                count()
            if ref[0] != json.loads(json.dumps(got[idx][0])):
                case = {"kind": "history", "tle": list(sat.tle), "hist": hist[:idx + 1], "index": idx}
                on_violation("history_dependent", case, got[idx][1],
                             "fresh object in an interpreter no query has touched: " + ref[1], q["m"])


# ---------------------------------------------------------------- (1e) one query, several process environments
ENV_KINDS = ["get_position", "get_lonlatalt", "get_observer_look", "mod_get_observer_look", "get_orbit_number",
             "get_last_an_time", "get_next_passes"]
ENV_REPRS = [{"tk": "py"}, {"tk": "pyutc"}, {"tk": "np"}, {"tk": "np", "unit": "s"}, {"tk": "np", "unit": "ms"},
             {"tk": "np", "unit": "ns"}, {"tk": "np", "unit": "m"}, {"tk": "arr"},
             {"tk": "obj", "elem": "utc", "cont": "ndarray", "offsets": [0]},
             {"tk": "obj", "elem": "off", "cont": "ndarray", "offsets": [345, -300, 60, 765]}]
LONG_PASS_HOURS = [6, 12, 24]                       # pass searches that find several passes


def gen_env_queries(rng, sat, full):
    """every kind of query with every representation of its time argument: naive datetime.datetime, aware (UTC)
    datetime.datetime, numpy.datetime64 scalars of several units, datetime64 arrays (full: all combinations, else the naive
    datetime and three others per kind)"""
    day = 86400 * 10 ** 6
    out = []
    for m in ENV_KINDS:
        reps = ENV_REPRS if full else [ENV_REPRS[0]] + rng.sample(ENV_REPRS[1:], 3)
        for rep in reps:
            n = rng.randrange(2, 5) if rep["tk"] in ("arr", "obj") else 1
            if m == "get_next_passes":
                q = dict(pass_query(rng, sat), **rep)
                if n > 1:
                    q["us"] = [q["us"][0] + i * 10 ** 6 for i in range(n)]
                out.append(q)
                continue
            q = dict({"m": m, "us": [rng.randrange(-day, day) for _ in range(n)]}, **rep)
            if m == "get_position":
                q["normalize"] = rng.random() < 0.5
            if m in ("get_observer_look", "mod_get_observer_look"):
                q.update(lon=[rng.uniform(-180, 180) for _ in range(n)], lat=[rng.uniform(-90, 90) for _ in range(n)],
                         alt=[rng.uniform(0, 3) for _ in range(n)])
            if m == "mod_get_observer_look":
                q.update(slon=[rng.uniform(-180, 180) for _ in range(n)], slat=[rng.uniform(-80, 80) for _ in range(n)],
                         salt=[rng.uniform(300, 1500) for _ in range(n)])
            if m == "get_orbit_number":
                q.update(tbus=rng.random() < 0.3, as_float=rng.random() < 0.7)
            out.append(q)
    # a pass search over 6-24 hours (several passes: every later horizon crossing is refined after a completed pass); first,
    # so that the time budget of the stage cannot cut it off
    q = dict(pass_query(rng, sat), tk="py")
    q["length"] = rng.choice(LONG_PASS_HOURS)
    return [q] + out


def eval_under(tle, q, env):
    """(fingerprint, rendering) of q on a fresh object built and queried while the process environment is env"""
    _mods()
    reinstate(BASE)
    with under_env(env):
        def run():
            o = new_orbital(tle)
            return call(o, q, mkargs(q, o.tle.epoch))
        r = _guarded(run, 20.0)
    return fp(r), short(r)


def run_env_case(tle, q, env, base, on_violation, count=None):
    """the same query on a fresh object under the environment `base` (the run's own zone, nothing else changed) and under
    `env`: the results must be the same bytes"""
    try:
        ref = eval_under(tle, q, base)
        got = eval_under(tle, q, env)
    except _Timeout:
        return
    if count:
        count()
    if got[0] != ref[0]:
        on_violation("environment_dependent", {"kind": "env", "tle": list(tle), "q": q, "env": env, "base": base},
                     "process environment {%s}: %s" % (env_text(env), got[1]),
                     "as with process environment {%s}: %s" % (env_text(base), ref[1]), q["m"])


# ---------------------------------------------------------------- (1c) the representation of the time argument
COARSE_UNITS = ["s", "s", "m", "h", "D"]          # clocks coarser than the epoch's microseconds
FINE_UNITS = [None, None, "ns", "ms"]             # None: datetime64[us] as it comes out of epoch + timedelta64


def time_repr(rng, coarse=None):
    """how a caller hands over an instant: datetime.datetime, or numpy.datetime64 of some unit"""
    if coarse is None:
        coarse = rng.random() < 0.35
    if coarse:
        return {"tk": "np", "unit": rng.choice(COARSE_UNITS)}
    if rng.random() < 0.4:
        return {"tk": "py"}
    u = rng.choice(FINE_UNITS)
    return {"tk": "np", "unit": u} if u else {"tk": "np"}


def gen_repr_history(rng):
    """<= 10 queries on one object that differ in the REPRESENTATION of their time argument: the first get_orbit_number
    (the query that initialises the lazily kept node time/period) mostly receives a datetime64 coarser than microseconds,
    the later ones datetime.datetime / datetime64[us] / [ns] / [ms] / coarse units of other instants; queries that do not
    touch that state may come first or in between.  Every answer must be the one a fresh object gives to the same query."""
    day = 86400 * 10 ** 6

    def orbitq(rep):
        return dict({"m": "get_orbit_number", "us": [rng.randrange(-day, 3 * day)], "tbus": rng.random() < 0.2,
                     "as_float": rng.random() < 0.75}, **rep)

    def otherq(rep):
        m = rng.choice(["get_last_an_time", "get_position", "get_lonlatalt", "get_observer_look"])
        q = dict({"m": m, "us": [rng.randrange(-day, day)]}, **rep)
        if m == "get_position":
            q["normalize"] = rng.random() < 0.5
        if m == "get_observer_look":
            q.update(lon=[rng.uniform(-180, 180)], lat=[rng.uniform(-90, 90)], alt=[rng.uniform(0, 3)])
        return q
    hist = [otherq(time_repr(rng)) for _ in range(rng.choice([0, 0, 1, 2]))]
    hist.append(orbitq(time_repr(rng, coarse=rng.random() < 0.75)))
    for _ in range(rng.randrange(2, 7)):
        hist.append(orbitq(time_repr(rng)) if rng.random() < 0.75 else otherq(time_repr(rng)))
    return hist


# ---------------------------------------------------------------- (1b) aliasing: one argument buffer re-used, changed in place
ALIAS_KINDS = [("get_position", True), ("get_position", False), ("get_lonlatalt", None), ("get_observer_look", None),
               ("get_observer_look", None), ("mod_get_observer_look", None),
               ("get_orbit_number", None)]     # the last one rejects arrays (ValueError): the same outcome is required


def alias_buffers(sat, h):
    """the caller's buffers of an aliasing history: base time array, the array it passes (base itself or a view of it),
    and one lon/lat/alt array each for the look function"""
    np = _np()
    base = (sat.epoch + np.array(h["base_us"], dtype="timedelta64[us]")).astype("datetime64[%s]" % h["unit"])
    times = base[h["view"][0]:h["view"][1]] if h.get("view") else base
    n = len(times)
    dtype = h.get("dtype", "f8")
    for i in h.get("nat") or []:
        base[i % len(base)] = np.datetime64("NaT")
    lon = np.array([float(v) for v in h["lon"][:n]], dtype=dtype)
    lat = np.array([float(v) for v in h["lat"][:n]], dtype=dtype)
    alt = np.array([float(v) for v in h["alt"][:n]], dtype=dtype)
    return base, times, lon, lat, alt


def alias_mutate(h, mut, base, times, lon, lat, alt):
    """what the caller does to ITS OWN buffers between two queries (the objects stay the same)"""
    np = _np()
    op = mut["op"]
    if op == "iadd":                          # times += step
        times += np.timedelta64(mut["d"], h["unit"])
    elif op == "setitem":                     # times[i] = times[i] + d
        i = mut["i"] % len(times)
        times[i] = times[i] + np.timedelta64(mut["d"], h["unit"])
    elif op == "base_iadd":                   # the base array of the view that is passed is advanced
        base += np.timedelta64(mut["d"], h["unit"])
    elif op == "base_setitem":
        i = mut["i"] % len(base)
        base[i] = base[i] + np.timedelta64(mut["d"], h["unit"])
    elif op == "obs_iadd":                    # observer buffers moved in place
        ok = np.abs(lon) <= 360.0                     # fill values stay fill values
        lon[ok] = ((lon[ok] + mut["dlon"]) + 180.0) % 360.0 - 180.0
        ok = np.abs(lat) <= 90.0
        lat[ok] = np.clip(lat[ok] + mut["dlat"], -89.0, 89.0)
    elif op == "obs_setitem":
        i = mut["i"] % len(lon)
        lon[i] = float(mut["lon"])
        lat[i] = float(mut["lat"])
    else:
        raise ValueError(op)


def alias_args(step, times, lon, lat, alt, copy):
    c = (lambda a: a.copy()) if copy else (lambda a: a)
    m = step["m"]
    if m == "get_position":
        return [c(times), bool(step["normalize"])]
    if m in ("get_lonlatalt", "get_orbit_number"):
        return [c(times)]
    if m == "get_observer_look":
        return [c(times), c(lon), c(lat), c(alt)]
    if m == "mod_get_observer_look":                   # satellite grids derived from the observer buffers (fresh, valid)
        np = _np()
        k = np.arange(len(lon), dtype=float)
        return [(k * 7.0) % 360.0 - 180.0, (k * 3.0) % 120.0 - 60.0, 800.0 + k, c(times), c(lon), c(lat), c(alt)]
    raise ValueError(m)


def run_alias_history(sat, h, on_violation, count=None):
    """ONE Orbital object, ONE time-array object (and one lon/lat/alt array object) passed to consecutive queries, its
    contents changed in place by the caller in between.  Every result must equal, byte for byte, what a FRESH object
    returns for a FRESH copy of the same values; the queries must leave the buffers alone."""
    _mods()
    reinstate(BASE)
    orb = new_orbital(sat.tle)
    base, times, lon, lat, alt = alias_buffers(sat, h)
    for idx, step in enumerate(h["steps"]):
        for mut in step.get("mut") or []:
            alias_mutate(h, mut, base, times, lon, lat, alt)
        case = {"kind": "alias", "tle": list(sat.tle), "alias": dict(h, steps=h["steps"][:idx + 1]), "index": idx}
        try:
            with pristine():
                ref = _guarded(lambda: call(new_orbital(sat.tle), step, alias_args(step, times, lon, lat, alt, True)), 20.0)
        except _Timeout:
            continue
        args = alias_args(step, times, lon, lat, alt, False)     # the very same objects every time
        b0 = fp([base, times, lon, lat, alt])
        p0 = proc_state()
        timed_out = False
        try:
            res = _guarded(lambda: call(orb, step, args), 20.0)
        except _Timeout:
            res = Runaway("no result after 20 s (fresh object: %s)" % short(ref))
            timed_out = True
        p1 = proc_state()
        if count:
            count()
        if p1 != p0 and not timed_out:
            on_violation("process_state_modified", case, "changed by %s: %s" % (step["m"], state_change_text(p0, p1)),
                         "process/thread state unchanged by a query", step["m"])
        if fp(res) != fp(ref):
            on_violation("aliasing_dependent", case,
                         "%s on the re-used buffer (step %d, after %s): %s" % (
                             step["m"], idx, "+".join(m["op"] for m in step.get("mut") or []) or "no change", short(res)),
                         "fresh object, fresh copy of the same values: " + short(ref), step["m"])
        if fp([base, times, lon, lat, alt]) != b0:
            on_violation("argument_modified", case, "argument buffers of %s changed by the call" % step["m"],
                         "arguments unchanged", step["m"])


def gen_alias_history(rng):
    unit = rng.choice(["us", "ms", "ms", "s"])
    per = {"us": 1, "ms": 1000, "s": 10 ** 6}[unit]
    nbase = rng.randrange(2, 9)
    t0 = rng.randrange(-86400, 86400) * 10 ** 6
    dt = rng.choice([1, 10, 30, 60, 600]) * 10 ** 6
    base_us = [t0 + i * dt for i in range(nbase)]
    view = None
    if nbase >= 3 and rng.random() < 0.4:
        lo = rng.randrange(0, nbase - 1)
        view = [lo, rng.randrange(lo + 1, nbase + 1)]
    n = (view[1] - view[0]) if view else nbase
    fills = rng.random() < 0.5                         # observer buffers with fill values among the coordinates
    h = {"unit": unit, "base_us": base_us, "view": view, "dtype": rng.choice(["f4", "f8"]),
         "lon": fill_grid(rng, n, -180, 180, rng.randrange(1, 3) if fills else 0),
         "lat": fill_grid(rng, n, -70, 70, rng.randrange(0, 3) if fills else 0),
         "alt": [rng.uniform(0, 3) for _ in range(n)], "steps": []}
    if rng.random() < 0.1:
        h["nat"] = [rng.randrange(0, nbase)]           # get_lonlatalt does not return on NaN: those steps are skipped (guard)

    def delta():
        return rng.choice([1, -1]) * rng.choice([1, 30, 120, 3600, 5400]) * (10 ** 6 // per) * rng.randrange(1, 4)
    for k in range(rng.randrange(2, 9)):
        if h["steps"] and rng.random() < 0.35:
            m, norm = h["steps"][-1]["m"], h["steps"][-1].get("normalize")
        else:
            kinds = [k for k in ALIAS_KINDS[:6] * 4 + ALIAS_KINDS[6:] if not (h.get("nat") and k[0] == "get_lonlatalt")]
            m, norm = rng.choice(kinds)
        muts = []
        if k > 0 and rng.random() < 0.85:
            ops = ["iadd", "iadd", "setitem"] + (["base_iadd", "base_iadd", "base_setitem"] if view else [])
            op = rng.choice(ops)
            muts.append({"op": op, "d": delta(), "i": rng.randrange(0, 8)})
            if rng.random() < 0.3:
                muts.append(rng.choice([{"op": "obs_iadd", "dlon": rng.uniform(-20, 20), "dlat": rng.uniform(-5, 5)},
                                        {"op": "obs_setitem", "i": rng.randrange(0, 8),
                                         "lon": rng.choice([rng.uniform(-180, 180), -999.0, 1e30]),
                                         "lat": rng.choice([rng.uniform(-70, 70), -999.0, 9999.0])}]))
        elif k > 0 and rng.random() < 0.5:
            muts.append({"op": "obs_iadd", "dlon": rng.uniform(-20, 20), "dlat": rng.uniform(-5, 5)})
        st = {"m": m, "mut": muts}
        if m == "get_position":
            st["normalize"] = bool(norm)
        h["steps"].append(st)
    return h


# ---------------------------------------------------------------- (1f) results held by the caller; other objects in the process
# "The result of a query depends only on its TLE and the arguments": (i) a result that was correct when it was returned and
# CHANGES afterwards - because a later query, on this or on any other object, writes into storage the returned array still
# shares - is not a function of the arguments; (ii) neither is a result that depends on which OTHER objects have been
# constructed or queried in the process meanwhile.  A case is {"kind": "world", "tle": <the object under test>, "others":
# [<element sets of other objects>], "steps": [...]}; a step is {"o": k, "new": 1} (construct object k >= 1 from
# others[k-1]; an earlier object of that slot is dropped) or {"o": k, "q": <query>} (query on object k, 0 = the object under
# test, times relative to THAT object's epoch).  The caller keeps every array it got (the object and a byte copy).
def arrays_in(x, out=None):
    """the numeric ndarray objects inside a result (tuples/lists are walked)"""
    np = _np()
    out = [] if out is None else out
    if isinstance(x, np.ndarray):
        if x.dtype != object:
            out.append(x)
    elif isinstance(x, (tuple, list)):
        for v in x:
            arrays_in(v, out)
    return out


def _same_bytes(a, copy):
    return a.shape == copy[0] and a.dtype.str == copy[1] and _np().ascontiguousarray(a).tobytes() == copy[2]


def world_sat(tle, satmap):
    """the Sat (reference results of a fresh object) of an element set; None when no object can be built from it"""
    tle = tuple(tle)
    if tle not in satmap:
        try:
            satmap[tle] = Sat(tle)
        except Exception:  # noqa
            satmap[tle] = None
    return satmap[tle]


def run_world(sat, w, on_violation, count=None, satmap=None):
    """The history w["steps"] on ONE object under test while OTHER objects are constructed and queried in between; every
    result (of every object) must be the bytes a fresh object returns, and every array any query returned must still hold
    the bytes it held when it was returned after every later step."""
    _mods()
    np = _np()
    satmap = {} if satmap is None else satmap
    satmap.setdefault(tuple(sat.tle), sat)
    tles = [tuple(sat.tle)] + [tuple(t) for t in w["others"]]
    # ALL fresh-object references first, from the pristine state: no object is built for a reference while the history runs
    refs = []
    for st in w["steps"]:
        s = world_sat(tles[st["o"]], satmap) if "q" in st else None
        refs.append(s.fresh(st["q"]) if s is not None else None)
    reinstate(BASE)
    objs = {0: new_orbital(sat.tle)}
    held = []                                              # [array object, (shape, dtype, bytes), step, query, object index]
    for idx, st in enumerate(w["steps"]):
        o = st["o"]
        case = {"kind": "world", "tle": list(sat.tle), "others": [list(t) for t in w["others"]],
                "steps": w["steps"][:idx + 1], "index": idx}
        if st.get("new"):
            try:
                objs[o] = new_orbital(tles[o])
            except Exception:  # noqa  no object from this element set (its construction may still have run code)
                objs.pop(o, None)
            what = "the construction of another Orbital (object %d)" % o
        else:
            q, ref = st["q"], refs[idx]
            if ref is None or o not in objs:
                continue
            args = mkargs(q, satmap[tles[o]].epoch)
            try:
                res = _guarded(lambda: call(objs[o], q, args), 20.0)
            except _Timeout:
                res = Runaway("no result after 20 s (fresh object: %s)" % ref[1])
            if count:
                count()
            what = "%s on %s" % (q["m"], "the same object" if o == 0 else "another object (object %d)" % o)
            if fp(res) != ref[0]:
                on_violation("history_dependent", case,
                             "%s, %d other object(s) constructed in the process: %s" % (
                                 what, sum(1 for s in w["steps"][:idx] if s.get("new")), short(res)),
                             "fresh object: " + ref[1], q["m"])
            for a in arrays_in(res):
                held.append([a, (a.shape, a.dtype.str, np.ascontiguousarray(a).tobytes()), idx, q, o])
            scribble(args)                                 # the caller reuses its argument buffers; it KEEPS what it was given
        for h in held:
            if h[2] < idx and h[1] is not None and not _same_bytes(h[0], h[1]):
                was = np.frombuffer(h[1][2], dtype=h[1][1]).reshape(h[1][0])
                on_violation("returned_value_changed_later", dict(case, held=h[2]),
                             "array returned by step %d (%s on object %d) was %s and is %s after %s" % (
                                 h[2], h[3]["m"], h[4], short(was, 100), short(h[0], 100), what),
                             "a returned array keeps the values it was returned with (no later query writes into it)",
                             h[3]["m"])
                h[1] = None                                # reported once
    reinstate(BASE)


def gen_other_sets(rng, sats, n=6):
    """element sets for the OTHER objects of the process: the other real sets of the run, generated near-earth sets with high
    drag (B* of 1e-3 .. 1e-2), and low ones of the other near-earth mode (perigee below 220 km)"""
    out = [tuple(s.tle) for s in sats]
    for k in range(n):
        kind = ("drag", "low", "leo")[k % 3]
        for _ in range(20):
            if kind == "drag":
                ov = {"bstar": tlegen.fmt_expo("".join(rng.choice("123456789") for _ in range(5)), rng.choice(" -+"),
                                               rng.choice([-3, -2, -2]), expsign="-")}
                _, l1, l2 = tlegen.random_tle(rng, rng.choice(["near", "leo"]), ov)
            elif kind == "low":
                _, l1, l2 = tlegen.random_tle(rng, "leo", {"mmotion": "%11.8f" % rng.uniform(16.1, 16.6)})
            else:
                _, l1, l2 = tlegen.random_tle(rng, "leo")
            try:
                new_orbital((l1, l2))
            except Exception:  # noqa
                continue
            out.append((l1, l2))
            break
    return out


WORLD_ARRAY_KINDS = ["get_position", "get_position", "get_position", "get_lonlatalt", "get_observer_look"]


def gen_world(rng, sat, pool, other_sets):
    """3-10 steps: array queries that all have ONE shape (other instants every time: two time windows on one satellite, or one
    time grid on two satellites), ordinary queries of the pool, constructions of and queries on two other objects"""
    day = 86400 * 10 ** 6
    cands = [t for t in other_sets if tuple(t) != tuple(sat.tle)]
    others = [list(t) for t in rng.sample(cands, min(2, len(cands)))]
    shape = rng.choice([None, None, None, [2, 2], [3, 2], [1, 4]])
    n = shape[0] * shape[1] if shape else rng.randrange(1, 7)
    grids = []

    def arrq(other=False):
        if grids and rng.random() < 0.3:
            us = rng.choice(grids)                         # one time grid (relative to the epoch) for several queries/satellites
        elif rng.random() < 0.5:
            t0, step = rng.randrange(-day, day), rng.choice([1, 10, 60, 600]) * 10 ** 6
            us = [t0 + i * step for i in range(n)]         # a time window
        else:
            us = [rng.randrange(-day, day) for _ in range(n)]
        grids.append(us)
        m = rng.choice([k for k in WORLD_ARRAY_KINDS if not (other and k == "get_lonlatalt")])
        q = {"m": m, "tk": "arr", "us": us}
        if shape and m != "get_lonlatalt":
            q["shape"] = shape
        if m == "get_position":
            q["normalize"] = rng.random() < 0.5
        if m == "get_observer_look":
            q.update(lon=[rng.uniform(-180, 180) for _ in range(n)], lat=[rng.uniform(-90, 90) for _ in range(n)],
                     alt=[rng.uniform(0, 3) for _ in range(n)])
        return q

    def scalq():
        m = rng.choice(["get_position", "get_observer_look"])
        q = {"m": m, "tk": rng.choice(["np", "py"]), "us": [rng.randrange(-3 * day, 3 * day)]}
        if m == "get_position":
            q["normalize"] = rng.random() < 0.5
        else:
            q.update(lon=[rng.uniform(-180, 180)], lat=[rng.uniform(-90, 90)], alt=[rng.uniform(0, 3)])
        return q
    steps = []
    built = set()
    for k in range(rng.randrange(3, 11)):
        u = rng.random()
        if others and (u < 0.2 or (u < 0.45 and not built)):
            o = rng.randrange(1, len(others) + 1)
            steps.append({"o": o, "new": 1})
            built.add(o)
        elif built and u < 0.5:
            steps.append({"o": rng.choice(sorted(built)), "q": arrq(True) if rng.random() < 0.7 else scalq()})
        else:
            v = rng.random()
            steps.append({"o": 0, "q": arrq() if v < 0.55 else scalq() if v < 0.75 or not pool else rng.choice(pool)})
    if not any(s["o"] == 0 and "q" in s for s in steps[1:]):
        steps.append({"o": 0, "q": arrq()})
    return {"others": others, "steps": steps}


# ---------------------------------------------------------------- (2) deterministic scheduler
class SchedulerError(Exception):
    pass


class Runaway(BaseException):
    """raised inside a thread that executes far more source lines than any fresh call (the code under test does not
    terminate under this schedule); an outcome, compared like any other"""


class Sched:
    """Token-passing scheduler. plan = [[tid, n], ...]: thread tid executes n source lines (line events in frames of
    pyorbital/orbital.py) and is pre-empted BEFORE its next one; when the plan is exhausted (or a segment's thread has
    finished) the thread holding the token runs to completion, then the unfinished threads in thread order.
    Exactly one thread runs at any time (the others wait on their semaphores), so a run is deterministic.
    Watchdogs: a thread executing more than max_lines source lines raises Runaway (an outcome); a semaphore wait or a
    join that times out aborts the run with SchedulerError (harness failure, not a verdict) after killing the workers."""

    def __init__(self, fns, plan, filename, record_lines=False, timeout=60.0, max_lines=1500000):
        self.fns = fns
        self.n = len(fns)
        self.plan = [[int(a), int(b)] for a, b in plan]
        self.pos = 0
        self.filename = filename
        self.sems = [threading.Semaphore(0) for _ in fns]
        self.done = [False] * self.n
        self.results = [None] * self.n
        self.lines = [0] * self.n
        self.linelog = [[] for _ in fns] if record_lines else None
        self.timeout = timeout
        self.max_lines = max_lines
        self.runaway = False
        self.abort = None
        self.idents = {}
        self.switches = 0

    # --- plan bookkeeping (only ever touched by the thread holding the token)
    def _active(self):
        while self.pos < len(self.plan) and self.done[self.plan[self.pos][0]]:
            self.pos += 1
        return self.plan[self.pos] if self.pos < len(self.plan) else None

    def _next(self):
        seg = self._active()
        if seg is not None:
            return seg[0]
        for i in range(self.n):
            if not self.done[i]:
                return i
        return None

    def _handover(self, i, finishing):
        nxt = self._next()
        if nxt is None or nxt == i:
            return
        self.switches += 1
        self.sems[nxt].release()
        if not finishing:
            if not self.sems[i].acquire(timeout=self.timeout):
                self._fail("thread %d starved" % i)

    def _fail(self, why):
        if self.abort is None:
            self.abort = why
            for s in self.sems:
                for _ in range(4):
                    s.release()

    def on_line(self, i, frame):
        if self.runaway:
            raise Runaway("stopped: another thread ran away")
        if self.abort is not None:
            return
        if self.lines[i] > self.max_lines:
            self.runaway = True
            raise Runaway("no result after %d source lines" % self.lines[i])
        while True:
            seg = self._active()
            if seg is None:
                # plan exhausted: the token holder runs on (nobody else holds a token)
                break
            if seg[0] != i:
                self._handover(i, False)
                if self.runaway:
                    raise Runaway("stopped: another thread ran away")
                if self.abort is not None:
                    return
                continue
            if seg[1] <= 0:
                self.pos += 1
                continue
            seg[1] -= 1
            break
        self.lines[i] += 1
        if self.linelog is not None:
            self.linelog[i].append((frame.f_code.co_name, frame.f_lineno))

    def _worker(self, i):
        if not self.sems[i].acquire(timeout=self.timeout):
            self._fail("thread %d never started" % i)
        self.idents[threading.get_ident()] = i
        fname = self.filename

        def local(frame, event, arg):
            if event == "line":
                self.on_line(i, frame)
            return local

        def glob(frame, event, arg):
            if event == "call" and frame.f_code.co_filename == fname:
                return local
            return None
        sys.settrace(glob)
        try:
            try:
                r = self.fns[i]()
            except BaseException as e:  # noqa
                r = e
        finally:
            sys.settrace(None)
        self.results[i] = r
        self.done[i] = True
        if self.abort is None:
            self._handover(i, True)

    def tid(self):
        return self.idents.get(threading.get_ident(), -1)

    def run(self):
        ths = [threading.Thread(target=self._worker, args=(i,), daemon=True) for i in range(self.n)]
        for t in ths:
            t.start()
        first = self._next()
        self.sems[first].release()
        deadline = time.time() + self.timeout * 2
        for t in ths:
            t.join(max(0.0, deadline - time.time()))
            if t.is_alive():
                self._fail("join timed out")
        if self.abort is not None:
            _kill_threads(ths)
            raise SchedulerError(self.abort)
        return self.results


def install_spy(orb, log, tid):
    """Record every load/store/delete of the two cache slots (observation only: semantics of the attribute access kept)."""
    base = type(orb.orbit_elements)
    epoch_obj = orb.tle.epoch

    class Spy(base):
        def __getattribute__(self, name):
            tag = SPY_NAMES.get(name)
            if tag is None:
                return object.__getattribute__(self, name)
            try:
                v = object.__getattribute__(self, name)
            except AttributeError:
                log.append((tid(), "L" + tag, False, None, ""))
                raise
            log.append((tid(), "L" + tag, True, fp(v), ""))
            return v

        def __setattr__(self, name, value):
            tag = SPY_NAMES.get(name)
            if tag is not None:
                # the `epoch at the node` statement stores the very object tle.epoch, the other one a new datetime64
                log.append((tid(), "S" + tag, True, fp(value), ("e" if value is epoch_obj else "n") if tag == "T" else ""))
            object.__setattr__(self, name, value)

        def __delattr__(self, name):
            tag = SPY_NAMES.get(name)
            if tag is not None:
                log.append((tid(), "D" + tag, True, None, ""))
            object.__delattr__(self, name)
    orb.orbit_elements.__class__ = Spy


def run_schedule(sat, queries, plan, spy=False, record_lines=False, warm=None):
    """Run the queries as concurrent threads on ONE fresh object (optionally after a warm-up history)."""
    orbital = _mods()[0]
    reinstate(BASE)
    orb = new_orbital(sat.tle)
    for q in (warm or []):
        call(orb, q, mkargs(q, sat.epoch))
    cache0 = cache_letters(sat, orb)
    argss = [mkargs(q, sat.epoch) for q in queries]
    a0 = [fp(a) for a in argss]
    t0 = fp(orb.tle.__dict__)
    log = []
    tstates = [None] * len(queries)

    def mkfn(i, q, a):
        def fn():
            s0 = thread_state()                        # a new thread: numpy's / decimal's defaults
            r = call(orb, q, a)
            tstates[i] = (s0, thread_state())
            return r
        return fn
    fns = [mkfn(i, q, a) for i, (q, a) in enumerate(zip(queries, argss))]
    p0 = proc_state()
    fname = orbital.__file__
    if fname.endswith(".pyc"):
        fname = fname[:-1]
    s = Sched(fns, plan, fname, record_lines=record_lines)
    if spy:
        install_spy(orb, log, s.tid)
    res = s.run()
    p1 = proc_state()
    state = []
    for i, ts in enumerate(tstates):
        if ts is not None and ts[0] != ts[1]:
            state.append((i, "state of thread %d changed by its query: %s" % (i, state_change_text(ts[0], ts[1]))))
    if p1 != p0:
        state.append((0, "state of the process changed while the threads ran: " + state_change_text(p0, p1)))
    return {"results": res, "fps": [fp(r) for r in res], "log": log, "lines": s.lines, "linelog": s.linelog, "state": state,
            "args_ok": [fp(a) == b for a, b in zip(argss, a0)], "tle_ok": fp(orb.tle.__dict__) == t0,
            "cache": cache_of(orb), "cache0": cache0, "switches": s.switches}


def cache_of(orb):
    d = orb.orbit_elements.__dict__
    return tuple(fp(d[n]) if n in d else None for n in ("an_time", "an_period"))


def cache_letters(sat, orb):
    """state of the two slots in the driver's notation: `_` empty, `c` canonical, `x` anything else"""
    canon = sat.canon()
    return "".join("_" if c is None else ("c" if c == k else "x") for c, k in zip(cache_of(orb), canon))


def is_orbit(q):
    return q["m"] == "get_orbit_number"


def points_of(sat, q, occ=2):
    """line events of a solo run of q on a fresh object: (count, indices in the query's own frame,
    indices of the first `occ` occurrences of every distinct source line, the line log)"""
    r = run_schedule(sat, [q], [], record_lines=True)
    ll = r["linelog"][0]
    own = [i for i, (f, _) in enumerate(ll) if f == q["m"]]
    seen = {}
    firsts = []
    for i, key in enumerate(ll):
        c = seen.get(key, 0)
        if c < occ:
            firsts.append(i)
        seen[key] = c + 1
    return len(ll), own, firsts, ll


def judge_results(sat, queries, plan, r, on_violation, warm=None):
    case = {"kind": "schedule", "tle": list(sat.tle), "queries": queries, "plan": plan, "warm": warm or []}
    bad = False
    for i, q in enumerate(queries):
        ref = sat.fresh(q)
        if r["fps"][i] != ref[0]:
            bad = True
            on_violation("interleaving_dependent", case, "thread %d (%s): %s" % (i, q["m"], short(r["results"][i])),
                         "fresh single-threaded call: " + ref[1], q["m"])
        if not r["args_ok"][i]:
            bad = True
            on_violation("argument_modified", case, "arguments of thread %d changed" % i, "arguments unchanged", q["m"])
    if not r["tle_ok"]:
        bad = True
        on_violation("tle_modified", case, "Tle attributes changed", "Tle unchanged", "Orbital")
    for i, text in r.get("state") or []:
        bad = True
        on_violation("process_state_modified", case, text, "process/thread state unchanged by a query", queries[i]["m"])
    return bad


def fmt_events(log):
    out = []
    for (tid, kind, hit, _v, extra) in log:
        if kind[0] == "L":
            out.append("%d:%s%s" % (tid, kind, "+" if hit else "-"))
        else:
            out.append("%d:%s%s" % (tid, kind, extra))
    return ",".join(out) if out else "-"


def model_line(sat, queries, log, cache0="__"):
    """driver op: the calls, the store statement a fresh call uses on this TLE, the initial cache state, and the thread
    order of the observed load/store events (nothing else of the observation goes in)"""
    calls = ",".join(("o%d" if is_orbit(q) else "q%d") % i for i, q in enumerate(queries))
    sched = ",".join(str(e[0]) for e in log) if log else "-"
    return "c18vis %s %s %s %s" % (sat.branch or "n", cache0, calls, sched)


def model_expect(sat, queries, fps, log, cache):
    """what the model's output line must be if the implementation's run is a run of the model
    (the model instance has canonical an_time 7 and an_period 128; thread i returns i.7.128)"""
    canon = sat.canon()
    res = []
    for i, q in enumerate(queries):
        ok = fps[i] == sat.fresh(q)[0]
        res.append(("D:%d.7.128" % i if is_orbit(q) else "D:%d" % i) if ok else "differs-from-fresh")
    cache = "%s/%s" % ("_" if cache[0] is None else ("7" if cache[0] == canon[0] else "non-canonical"),
                       "_" if cache[1] is None else ("128" if cache[1] == canon[1] else "non-canonical"))
    return "ev=%s res=%s cache=%s" % (fmt_events(log), ",".join(res), cache)


def stored_values_ok(sat, log):
    canon = sat.canon()
    bad = []
    for (tid, kind, hit, v, _x) in log:
        if kind == "ST" and v != canon[0]:
            bad.append("thread %d stored a non-final an_time" % tid)
        if kind == "SP" and v != canon[1]:
            bad.append("thread %d stored a non-final an_period" % tid)
        if kind in ("LT",) and hit and v != canon[0]:
            bad.append("thread %d loaded a non-canonical an_time" % tid)
        if kind in ("LP",) and hit and v != canon[1]:
            bad.append("thread %d loaded a non-canonical an_period" % tid)
        if kind[0] == "D":
            bad.append("thread %d deleted a cache slot" % tid)
    return bad


def orbit_query(rng, as_float=None):
    """as_float=True is the sharp observer: int() truncation hides most differences of the node time"""
    return {"m": "get_orbit_number", "tk": rng.choice(["np", "py"]),
            "us": [rng.randrange(-86400 * 10 ** 6, 2 * 86400 * 10 ** 6)], "tbus": rng.random() < 0.3,
            "as_float": (rng.random() < 0.6) if as_float is None else as_float}


def sample(rng, xs, n):
    xs = list(xs)
    return xs if n is None or len(xs) <= n else sorted(rng.sample(xs, n))


class Budget:
    """wall-clock budget of one stage: enumeration stops (and says so in the evidence) instead of overrunning the tier"""

    def __init__(self, ctx, seconds):
        self.ctx = ctx
        self.t0 = time.time()
        self.seconds = seconds
        self.skipped = 0

    def over(self):
        if time.time() - self.t0 > self.seconds:
            if not self.skipped:
                self.ctx.note("time budget of %d s reached; remaining cases of this part skipped" % self.seconds)
            self.skipped += 1
            self.ctx.count("skipped_over_budget")
            return True
        return False

    def share(self, parts, weight=1):
        """a budget for the next one of `parts` remaining parts of this stage (it counts `weight` times)"""
        left = max(0.0, self.seconds - (time.time() - self.t0))
        return Budget(self.ctx, left * weight / max(1, parts - 1 + weight))


def concurrency(ctx, sats, judge, spy, mode, budget, scale=1):
    """Enumerate schedules; judge(sat, queries, plan, r, warm) is called for every run.
    mode 'model': the points at which the cache protocol can be observed (own frame of get_orbit_number);
    mode 'full': in addition every distinct source line below it (scratch state of the propagator)."""
    rng = ctx.rng
    thorough = ctx.tier == "thorough"

    part = [budget]

    found0 = len(ctx.disagreements) if spy else len(ctx.violations)

    def go(sat, qs, plan, label, warm=None):
        if (len(ctx.disagreements) if spy else len(ctx.violations)) - found0 > 25:
            return                                              # enough evidence from this stage; do not pile up
        if part[0].over():
            return
        try:
            r = run_schedule(sat, qs, plan, spy=spy, warm=warm)
        except SchedulerError:                                  # a stalled machine, not the code under test: once more
            ctx.count("scheduler_aborted")
            r = run_schedule(sat, qs, plan, spy=spy, warm=warm)
        judge(sat, qs, plan, r, warm)
        ctx.bump("schedules", label)

    for si, sat in enumerate(sats):
        lead = si == 0
        part[0] = budget.share(len(sats) - si, 2 if lead else 1)   # every element set gets its share of the stage
        pool = screen(sat, gen_pool(rng))
        qa, qb, qc = orbit_query(rng, True), orbit_query(rng, True), orbit_query(rng, True)
        if any(sat.fresh(q) is None for q in (qa, qb, qc)):
            continue
        n, own, firsts, _ = points_of(sat, qa, occ=2 if thorough else 1)
        ctx.bump("schedule_points", "source lines executed by one fresh get_orbit_number", n)
        ctx.bump("schedule_points", "of which in its own frame", len(own))
        ctx.bump("store_statement", {"e": "epoch at the node", "n": "get_last_an_time(epoch)"}.get(sat.branch, "?"))
        # --- two get_orbit_number calls: single pre-emption of A by a complete B
        ks = set(own) | {n}                                     # ALL pre-emption points of the own frame
        for k in sorted(ks):
            go(sat, [qa, qb], [[0, k], [1, INF]], "orbit|orbit single pre-emption")
        # --- three calls: A pre-empted, B complete, A a few more lines, C complete, A resumes
        #     (a value A stores late is read by a call that finds the cache complete)
        triple = [[[0, k], [1, INF], [0, m], [2, INF], [0, INF]] for k in own for m in (1, 2, 3)]
        if not lead:
            triple = [triple[i] for i in sample(rng, range(len(triple)), (40 if thorough else 20) * scale)]
        for plan in triple:
            go(sat, [qa, qb, qc], plan, "orbit|orbit|orbit A^k B* A^m C* A*")
        # --- single pre-emption below the own frame (scratch state of the propagator, the node search)
        more = set(firsts if thorough else sample(rng, firsts, 60 * scale)) if mode == "full" and lead else set()
        rest = [k for k in range(n + 1) if k not in ks and k not in more]
        more |= set(sample(rng, rest, ((250 if lead and mode == "full" else 100) if thorough else 20) * scale))
        for k in sorted(more):
            go(sat, [qa, qb], [[0, k], [1, INF]], "orbit|orbit single pre-emption")
        # --- two pre-emptions: A^k B^m A* B*
        ms = (set(range(1, 6)) | set(sample(rng, own[5:], 6))) if thorough and lead else \
            (set(range(1, 4 if not thorough else 6)) | set(sample(rng, own[5:], ((scale - 1) if not thorough else 4 * scale))))
        double = [[[0, k], [1, m], [0, INF], [1, INF]] for k in own for m in sorted(ms)]
        if not lead:
            double = [double[i] for i in sample(rng, range(len(double)), (100 if thorough else 30) * scale)]
        for plan in double:
            go(sat, [qa, qb], plan, "orbit|orbit two pre-emptions")
        # --- get_orbit_number against every other kind of query, both roles
        others, seen_m = [], set()
        for q in pool:                                          # one query per kind (thorough, first TLE: all of the pool)
            if not is_orbit(q) and ((thorough and lead) or q["m"] not in seen_m):
                seen_m.add(q["m"])
                others.append(q)
        for q in others:
            kk = own if thorough and lead else (sample(rng, own, 8) if thorough else (own[::3] if lead else sample(rng, own, 5 * scale)))
            if mode == "full" and thorough and lead:
                kk = sorted(set(kk) | set(firsts[::3]))
            for k in kk:
                go(sat, [qa, q], [[0, k], [1, INF]], "orbit pre-empted by " + q["m"])
            nq, ownq, firstsq, _ = points_of(sat, q, occ=1)
            pts = sorted(set(ownq) | set(firstsq) | {nq})
            pts = sample(rng, pts, ((25 if lead else 8) if thorough else ((8 if lead else 4) if mode == "full" else 4)) * scale)
            for k in pts:
                go(sat, [qa, q], [[1, k], [0, INF]], q["m"] + " pre-empted by orbit")
        # --- sampled multi-pre-emption schedules; 3 threads in the thorough tier; sometimes on a warmed object
        nthreads = 3 if thorough else 2
        for _ in range(ctx.size(25, 120) * scale):
            qs = [orbit_query(rng) if rng.random() < 0.7 else rng.choice(pool) for _ in range(nthreads)]
            if any(sat.fresh(q) is None for q in qs):
                continue
            plan = []
            for _s in range(rng.randrange(2, 9)):
                small = rng.random() < 0.6
                plan.append([rng.randrange(nthreads), rng.randrange(1, 8) if small else rng.randrange(1, max(2, n))])
            warm = [rng.choice(pool)] if rng.random() < 0.2 else None
            go(sat, qs, plan, "sampled multi-pre-emption x%d" % nthreads, warm)


_SKIP = object()


def run_free(sat, qs, timeout=60.0):
    """No scheduler: real pre-emptive threads on one fresh object; results (Runaway for a thread that never returned)."""
    orb = new_orbital(sat.tle)
    argss = [mkargs(q, sat.epoch) for q in qs]
    res = [Runaway("no result after %d s" % timeout)] * len(qs)
    bar = threading.Barrier(len(qs))

    def work(i):
        try:
            bar.wait(timeout)
        except threading.BrokenBarrierError:                    # the threads never got going together: no observation
            res[i] = _SKIP
            return
        try:
            res[i] = call(orb, qs[i], argss[i])
        except BaseException as e:  # noqa  (Runaway injected by the watchdog)
            res[i] = e
    ths = [threading.Thread(target=work, args=(i,), daemon=True) for i in range(len(qs))]
    for t in ths:
        t.start()
    deadline = time.time() + timeout
    for t in ths:
        t.join(max(0.0, deadline - time.time()))
    if any(t.is_alive() for t in ths):
        _kill_threads(ths)
    return res


def free_running(ctx, sat, on_violation, rounds, budget, nthreads=4):
    """No scheduler: real pre-emptive threads on one fresh object with a 1 us switch interval."""
    old = sys.getswitchinterval()
    sys.setswitchinterval(1e-6)
    try:
        for _ in range(rounds):
            if budget.over() or len(ctx.violations) > 25:
                return
            qs = [orbit_query(ctx.rng) for _ in range(nthreads)]
            if any(sat.fresh(q) is None for q in qs):
                continue
            res = run_free(sat, qs)
            if any(r is _SKIP for r in res):
                ctx.count("free_round_skipped")
                continue
            ctx.count("eval_free_running", nthreads)
            for i, q in enumerate(qs):
                if fp(res[i]) != sat.fresh(q)[0]:
                    on_violation("interleaving_dependent", {"kind": "free", "tle": list(sat.tle), "queries": qs},
                                 "thread %d: %s" % (i, short(res[i])), "fresh single-threaded call: " + sat.fresh(q)[1],
                                 "get_orbit_number")
    finally:
        sys.setswitchinterval(old)


# ---------------------------------------------------------------- (2b) overlapping queries that share more than the cache
PASS_FRAMES = ("get_next_passes", "_elevation", "_elevation_inv", "_get_root", "_get_max_parab")
PROP_FRAMES = ("propagate", "calculate")


def pass_query(rng, sat):
    """A pass search whose station lies near the ground track some minutes after its start (so that the refinement of
    horizon crossings and culmination runs), with its own start time, length, altitude and horizon."""
    np = _np()
    us = rng.randrange(-6 * 3600 * 10 ** 6, 6 * 3600 * 10 ** 6)
    ahead = rng.randrange(8 * 60, 50 * 60) * 10 ** 6
    dlon, dlat = rng.uniform(-4, 4), rng.uniform(-4, 4)
    try:
        lon, lat, _ = _guarded(lambda: new_orbital(sat.tle).get_lonlatalt(sat.epoch + np.timedelta64(us + ahead, "us")))
        lon, lat = float(lon) + dlon, float(lat) + dlat
    except (_Timeout, Exception):  # noqa  no sub-point to aim at: any station will do
        lon, lat = rng.uniform(-180, 180), rng.uniform(-60, 60)
    if not (abs(lon) <= 360 and abs(lat) <= 85):
        lon, lat = rng.uniform(-180, 180), rng.uniform(-60, 60)
    q = {"m": "get_next_passes", "tk": "py", "us": [us], "length": rng.choice([1, 1, 2]),
         "lon": [(lon + 180.0) % 360.0 - 180.0], "lat": [lat], "alt": [rng.uniform(0, 2)]}
    h = rng.choice([None, None, 5, 10, 2.5])
    if h is not None:
        q["horizon"] = h
    return q


def has_passes(ref):
    return ref is not None and ref[0][0] == "list" and len(ref[0][1]) > 0


def frame_points(ll, firsts, frames, rng, extra):
    """pre-emption points of a solo run: the first occurrence of every distinct source line of the named frames, plus a
    sample of `extra` later line events of those frames"""
    fs = [i for i in firsts if ll[i][0] in frames]
    rest = [i for i, (f, _) in enumerate(ll) if f in frames and i not in set(fs)]
    return sorted(set(fs) | set(sample(rng, rest, extra)))


def stratified(rng, ll, pts, frames, quota):
    """at most `quota` of the points, every named frame represented (its first lines first), the rest drawn at random"""
    if len(pts) <= quota:
        return pts
    per = max(1, quota // (2 * len(frames)))
    keep = set()
    for f in frames:
        keep |= set([i for i in pts if ll[i][0] == f][:per])
    rest = [i for i in pts if i not in keep]
    keep |= set(sample(rng, rest, max(0, quota - len(keep))))
    return sorted(keep)


def overlapping(ctx, sats, judge, budget, scale=1):
    """Single pre-emption schedules for queries that run through the same helper objects:
    (a) one get_next_passes pre-empted at the first occurrence of every source line of its own frame and of its
        refinement callbacks (_elevation, _elevation_inv, _get_root, _get_max_parab; plus sampled later ones) while ANOTHER
        get_next_passes with a different observer / start / length / horizon runs to completion; both roles;
    (b) one propagating query (get_position, get_lonlatalt, get_observer_look; scalar and array times) pre-empted at the first
        occurrence of every source line of _SGDP4.propagate / _Keplerians.calculate (plus sampled lines below them) while
        another propagating query for another time (other shape) runs to completion.
    Every thread's result must be the fresh single-threaded one, byte for byte; an exception in a thread is a result."""
    rng = ctx.rng
    thorough = ctx.tier == "thorough"
    found0 = len(ctx.violations)
    part = [budget]

    def go(sat, qs, plan, label):
        if len(ctx.violations) - found0 > 25 or part[0].over():
            return
        try:
            r = run_schedule(sat, qs, plan)
        except SchedulerError:
            ctx.count("scheduler_aborted")
            r = run_schedule(sat, qs, plan)
        judge(sat, qs, plan, r, None)
        ctx.bump("schedules", label)

    for si, sat in enumerate(sats):
        satb = budget.share(len(sats) - si)                     # every element set gets its share, 2/3 of it for (a)
        part[0] = satb.share(2, 2)
        # --- (a) two pass searches with different arguments
        for _pair in range((2 if thorough else 1) * scale):
            qa = qb = None
            for _try in range(6):                               # a search that finds at least one pass
                q = pass_query(rng, sat)
                if has_passes(sat.fresh(q)):
                    qa = q
                    break
            for _try in range(6):
                q = pass_query(rng, sat)
                if sat.fresh(q) is not None and qa is not None and qkey(dict(q, us=0)) != qkey(dict(qa, us=0)):
                    qb = q
                    if has_passes(sat.fresh(q)):
                        break
            if qa is None or qb is None:
                ctx.count("pass_pair_skipped")
                continue
            for (x, y) in ((qa, qb), (qb, qa)):
                n, _own, firsts, ll = points_of(sat, x, occ=2 if thorough else 1)
                lead = x is qa
                pts = frame_points(ll, firsts, PASS_FRAMES, rng, (30 if thorough else 6) * scale if lead else 4)
                if not thorough:
                    pts = stratified(rng, ll, pts, PASS_FRAMES, (32 if lead and si == 0 else 12) * scale)
                elif not lead:
                    pts = stratified(rng, ll, pts, PASS_FRAMES, 40)
                ctx.bump("schedule_points", "source lines executed by one fresh get_next_passes", n)
                for k in pts:
                    go(sat, [x, y], [[0, k], [1, INF]], "passes pre-empted by passes of another observer/start/horizon")
        part[0] = satb.share(1)
        # --- (b) two propagations for different times
        day = 86400 * 10 ** 6

        def propq():
            m = rng.choice(["get_position", "get_lonlatalt", "get_observer_look"])
            n = rng.choice([1, 1, 3, 5])
            q = {"m": m, "tk": "arr" if n > 1 else rng.choice(["np", "py"]), "us": [rng.randrange(-day, day) for _ in range(n)]}
            if m == "get_position":
                q["normalize"] = rng.random() < 0.5
            if m == "get_observer_look":
                q.update(lon=[rng.uniform(-180, 180) for _ in range(n)], lat=[rng.uniform(-80, 80) for _ in range(n)],
                         alt=[rng.uniform(0, 3) for _ in range(n)])
            return q
        for _pair in range((6 if thorough else 3) * scale):
            qa, qb = propq(), propq()
            if sat.fresh(qa) is None or sat.fresh(qb) is None:
                continue
            n, _own, firsts, ll = points_of(sat, qa, occ=1)
            pts = frame_points(ll, firsts, PROP_FRAMES, rng, 0)
            below = [i for i in firsts if i not in set(pts) and pts and pts[0] <= i <= pts[-1]]
            pts = sorted(set(pts) | set(sample(rng, below, (40 if thorough else 10) * scale)))
            if not thorough:
                pts = sample(rng, pts, 20 * scale)
            for k in pts:
                go(sat, [qa, qb], [[0, k], [1, INF]], "propagation pre-empted by a propagation for another time")


# ---------------------------------------------------------------- protocol stages
def spied_history(sat, hist):
    """A history on one object with the two slots observed; event 'thread' ids are positions in the history."""
    _mods()
    reinstate(BASE)
    orb = new_orbital(sat.tle)
    log = []
    cur = [0]
    install_spy(orb, log, lambda: cur[0])
    fps = []
    for idx, q in enumerate(hist):
        cur[0] = idx
        try:
            res = _guarded(lambda: call(orb, q, mkargs(q, sat.epoch)), 20.0)
        except _Timeout:
            res = Runaway("no result after 20 s")
        fps.append(fp(res))
    reinstate(BASE)
    return fps, log, cache_of(orb)


def corr_schedule(sat, queries, plan, warm, r=None):
    """(driver line, expected output, value complaints) of one scheduled run"""
    if r is None:
        r = run_schedule(sat, queries, plan, spy=True, warm=warm)
    return (model_line(sat, queries, r["log"], r["cache0"]), model_expect(sat, queries, r["fps"], r["log"], r["cache"]),
            stored_values_ok(sat, r["log"]), r)


def corr_history(sat, hist):
    fps, log, cache = spied_history(sat, hist)
    return model_line(sat, hist, log), model_expect(sat, hist, fps, log, cache), stored_values_ok(sat, log), log


def correspond(ctx):
    """Model vs implementation: the observed load/store sequence of an_time/an_period (real threads under the deterministic
    scheduler; sequential histories) must be the model's trace when replayed in the observed thread order; every stored or
    loaded value must be the canonical one."""
    drv = ctx.driver()
    budget = Budget(ctx, 28 if ctx.tier == "quick" else 190)
    sats = gen_sats(ctx, ctx.size(2, 6))
    lines, expects, cases = [], [], []

    def judge(sat, queries, plan, r, warm):
        ctx.count("eval_corr_schedule")
        case = {"kind": "schedule", "tle": list(sat.tle), "queries": queries, "plan": plan, "warm": warm or []}
        ln, exp, bad, _ = corr_schedule(sat, queries, plan, warm, r)
        lines.append(ln)
        expects.append(exp)
        cases.append(case)
        if bad:
            ctx.disagree("c18values", case, "; ".join(sorted(set(bad))[:4]), "every stored/loaded slot value is canonical")
        ctx.distinct((sat.tle[0][2:7], r["cache0"], fmt_events(r["log"])))
        ctx.bump("events_per_run", len(r["log"]))
        if len(cases) <= 3 and r["log"]:
            ctx.sample({"queries": [q["m"] for q in queries], "plan": plan, "events": fmt_events(r["log"])})

    concurrency(ctx, sats, judge, spy=True, mode="model", budget=budget)
    # sequential histories, slots observed: same model, the 'threads' run one after the other
    for sat in sats:
        pool = screen(sat, gen_pool(ctx.rng))
        for _ in range(ctx.size(10, 100)):
            hist = gen_history(ctx.rng, pool)
            case = {"kind": "history", "tle": list(sat.tle), "hist": hist, "index": len(hist) - 1}
            ln, exp, bad, log = corr_history(sat, hist)
            ctx.count("eval_corr_history", len(hist))
            lines.append(ln)
            expects.append(exp)
            cases.append(case)
            if bad:
                ctx.disagree("c18values", case, "; ".join(sorted(set(bad))[:4]), "every stored/loaded slot value is canonical")
            ctx.distinct((sat.tle[0][2:7], "h", fmt_events(log)))
    outs = drv.run(lines)
    for ln, exp, got, case in zip(lines, expects, outs, cases):
        if exp != got:
            ctx.disagree("c18vis", dict(case, driver_line=ln), exp, got)


def oracle(ctx):
    """The property on the implementation, from the statement alone (no model, no instrumentation of the object)."""
    scale = 4 if ctx.intensified else 1
    quick = ctx.tier == "quick"
    budget = Budget(ctx, (18 if not ctx.intensified else 40) if quick else 200)
    sats = gen_sats(ctx, ctx.size(3, 10))

    def viol(kind, case, observed, required, site):
        ctx.violation(kind, case, observed, required, site="Orbital." + site)

    def drain():
        while PENDING:
            viol(*PENDING.pop(0))
    clock = [time.time()]

    def mark(name):
        ctx.bump("oracle_stage_seconds", name, round(time.time() - clock[0], 1))
        clock[0] = time.time()
    mark("element sets")
    drain()
    samples = []                                        # histories whose results are also compared with a child interpreter's
    nsample = ctx.size(2, 6)
    # (1) histories
    pools = {}
    for sat in sats:
        pool = pools[sat.tle] = screen(sat, gen_pool(ctx.rng))
        for k in range(ctx.size(40, 400)):
            if budget.over():
                break
            if k and k % 10 == 0:
                # a new pool every 10 histories, alternately with all times within one revolution of one instant (the
                # epoch or any other) and spread over days
                centre = ctx.rng.choice([0, ctx.rng.randrange(-86400 * 10 ** 6, 86400 * 10 ** 6)]) if k % 20 == 10 else None
                pool = screen(sat, gen_pool(ctx.rng, centre))
                ctx.bump("history_pools", "times within 50 min of one instant" if centre is not None else "times spread over days")
            hist = gen_history(ctx.rng, pool)
            got = [] if k < nsample else None
            run_history(sat, hist, viol, count=lambda: ctx.count("eval_history_query"), got_out=got)
            if got is not None:
                samples.append((sat, hist, got))
            ctx.distinct((sat.tle[0][2:7], "h", tuple(qkey(q) for q in hist)))
            ctx.bump("history_length", len(hist))
            if len(ctx.violations) > 20:
                return
    mark("(1) histories")
    # (1d) histories of pass searches that find passes, queries over grids with non-finite fill values, ordinary queries
    budget = Budget(ctx, (6 if not ctx.intensified else 12) if quick else 40)
    for sat in sats:
        passes = [q for q in (pass_query(ctx.rng, sat) for _ in range(3)) if sat.fresh(q) is not None]
        nonfinite = screen(sat, fill_queries(ctx.rng, NONFINITE) + fill_queries(ctx.rng, NONFINITE) + fill_queries(ctx.rng))
        ctx.bump("state_history_pool", "pass searches that find passes", sum(1 for q in passes if has_passes(sat.fresh(q))))
        for k in range(ctx.size(20, 200) * scale):
            if budget.over():
                break
            hist = gen_state_history(ctx.rng, passes, nonfinite, pools[sat.tle])
            got = [] if k < nsample else None
            run_history(sat, hist, viol, count=lambda: ctx.count("eval_history_query"), got_out=got)
            if got is not None:
                samples.append((sat, hist, got))
            ctx.distinct((sat.tle[0][2:7], "h", tuple(qkey(q) for q in hist)))
            ctx.bump("history_length", len(hist))
            if len(ctx.violations) > 20:
                return
    mark("(1d) state histories")
    # a sample of those histories against reference results from an interpreter that no query has touched
    begun = child_begin(samples)                        # (it works beside the next stages; collected below)
    # (1e) the same query under different process environments (time zone, working directory, environment variables,
    #      locale, decimal context, numpy print options and error modes)
    budget = Budget(ctx, (8 if not ctx.intensified else 16) if quick else 60)
    envs = gen_envs(ctx.rng)
    base = {"tz": own_zone()}
    for e in envs:
        ctx.bump("process_environments", env_text(e))
    for si, sat in enumerate(sats):
        for q in gen_env_queries(ctx.rng, sat, full=(si == 0 or not quick)):
            for env in envs:
                if budget.over() or len(ctx.violations) > 20:
                    break
                run_env_case(sat.tle, q, env, base, viol, count=lambda: ctx.count("eval_environment_query"))
            ctx.distinct((sat.tle[0][2:7], "e", qkey(q)))
            ctx.bump("environment_queries", "%s(%s%s)" % (q["m"], {"py": "naive datetime", "pyutc": "aware UTC datetime",
                                                                     "np": "datetime64", "arr": "datetime64 array",
                                                                     "obj": "object array of aware datetimes"}[q["tk"]],
                                                            "[%s]" % q["unit"] if q.get("unit") else ""))
    mark("(1e) environments")
    # (1b) aliasing histories: one argument buffer re-used and changed in place between consecutive queries
    budget = Budget(ctx, (6 if not ctx.intensified else 15) if quick else 50)
    for sat in sats:
        for _ in range(ctx.size(40, 400) * scale):
            if budget.over():
                break
            h = gen_alias_history(ctx.rng)
            run_alias_history(sat, h, viol, count=lambda: ctx.count("eval_alias_query"))
            ctx.distinct((sat.tle[0][2:7], "a", json.dumps(h, sort_keys=True)))
            ctx.bump("alias_history_length", len(h["steps"]))
            for st in h["steps"]:
                ctx.bump("alias_steps", "%s after %s" % (st["m"], "+".join(m["op"] for m in st["mut"]) or "no change"))
            if len(ctx.violations) > 20:
                break
    mark("(1b) aliasing")
    # (1f) results held by the caller across later queries (same object, other objects); other objects constructed and queried
    #      between the queries of a history
    budget = Budget(ctx, (6 if not ctx.intensified else 15) if quick else 50)
    other_sets = gen_other_sets(ctx.rng, sats)
    satmap = {tuple(s.tle): s for s in sats}
    for sat in sats:
        for _ in range(ctx.size(30, 300) * scale):
            if budget.over() or len(ctx.violations) > 20:
                break
            w = gen_world(ctx.rng, sat, pools[sat.tle], other_sets)
            run_world(sat, w, viol, count=lambda: ctx.count("eval_world_query"), satmap=satmap)
            ctx.distinct((sat.tle[0][2:7], "w", json.dumps(w, sort_keys=True)))
            ctx.bump("world_history_length", len(w["steps"]))
            for st in w["steps"]:
                ctx.bump("world_steps", "construct another object" if st.get("new") else "%s%s on %s" % (
                    st["q"]["m"], " (array)" if st["q"]["tk"] in ("arr", "obj") else "",
                    "the object under test" if st["o"] == 0 else "another object"))
    mark("(1f) held results, other objects")
    compare_with_child(begun, viol, count=lambda: ctx.count("eval_untouched_interpreter_reference"), note=ctx.note)
    mark("child interpreter references (waiting)")
    if len(ctx.violations) > 20:
        return
    budget = Budget(ctx, (30 if not ctx.intensified else 60) if quick else 330)

    # (2) schedules
    def judge(sat, queries, plan, r, warm):
        ctx.count("eval_schedule")
        judge_results(sat, queries, plan, r, viol, warm)
        ctx.distinct((sat.tle[0][2:7], "s", tuple(qkey(q) for q in queries), json.dumps(plan)))
    concurrency(ctx, sats[:ctx.size(2, 6)], judge, spy=False, mode="full", budget=budget, scale=scale)
    mark("(2) schedules")
    budget = Budget(ctx, 6 if quick else 40)
    for si, sat in enumerate(sats[:2]):
        free_running(ctx, sat, viol, ctx.size(10, 200), budget.share(2 - si))
    if len(ctx.violations) > 20:
        drain()
        return
    mark("(2) free-running threads")
    # (2b) overlapping pass searches with different arguments; overlapping propagations for different times
    overlapping(ctx, sats[:ctx.size(2, 3)], judge, Budget(ctx, (14 if not ctx.intensified else 30) if quick else 90), scale=scale)
    mark("(2b) overlapping")
    # (1c) histories whose queries differ in the representation (datetime, datetime64 unit) of the time argument
    budget = Budget(ctx, (5 if not ctx.intensified else 12) if quick else 30)
    for sat in sats:
        for _ in range(ctx.size(25, 250) * scale):
            if budget.over() or len(ctx.violations) > 20:
                break
            hist = gen_repr_history(ctx.rng)
            run_history(sat, hist, viol, count=lambda: ctx.count("eval_history_query"))
            ctx.distinct((sat.tle[0][2:7], "h", tuple(qkey(q) for q in hist)))
            ctx.bump("history_length", len(hist))
            ctx.bump("first_orbit_number_time", next("%s%s" % (q["tk"], "[%s]" % q["unit"] if q.get("unit") else "")
                                                     for q in hist if is_orbit(q)))
    mark("(1c) representations")
    drain()
    m = module_state()
    ctx.sample({"tles": [s.tle[0][2:7] for s in sats], "module_level_values_hashed": len(m)})


def match_known(entry, v):
    return False


def _replay_one(inp, found, corr):
    """re-run one recorded case; `found` collects (kind, observed, required)"""
    sat = Sat(inp["tle"])
    sat.canon()                                          # fixes sat.branch (the store statement a fresh call uses)

    def viol(kind, c, observed, required, site):
        found.append((kind, observed, required))

    def model_says(line, exp):
        try:
            out = lib.Driver().run([line])[0]
        except Exception as e:  # noqa
            print("  model not available:", e)
            return
        print("  model, same thread order:", out)
        if out != exp:
            print("  implementation          :", exp)
            if corr:
                found.append(("trace_not_a_model_trace", exp, out))
    if inp.get("kind") == "history":
        print("history on one object (%d queries):" % len(inp["hist"]))
        for q in inp["hist"]:
            print("  ", qkey(q))
        got = []
        run_history(sat, inp["hist"], viol, got_out=got)
        if not found:                                    # also against an interpreter that no query has touched
            compare_with_child(child_begin([(sat, inp["hist"], got)]), viol)
        line, exp, bad, log = corr_history(sat, inp["hist"])
        print("  load/store events:", fmt_events(log))
        if bad:
            print("  cache protocol:", "; ".join(sorted(set(bad))))
            if corr:
                found.append(("non_canonical_slot_value", "; ".join(sorted(set(bad))[:3]), "canonical values only"))
        model_says(line, exp)
    elif inp.get("kind") == "schedule":
        print("threads:", [q["m"] for q in inp["queries"]], "plan [thread, source lines]:", inp["plan"],
              "warm-up:", len(inp.get("warm") or []))
        warm = inp.get("warm") or None
        line, exp, bad, r = corr_schedule(sat, inp["queries"], inp["plan"], warm)
        print("  load/store events:", fmt_events(r["log"]))
        for i, q in enumerate(inp["queries"]):
            print("  thread %d %s -> %s   (fresh: %s)" % (i, q["m"], short(r["results"][i], 80), sat.fresh(q)[1][:80]))
        if bad:
            print("  cache protocol:", "; ".join(sorted(set(bad))))
            if corr:
                found.append(("non_canonical_slot_value", "; ".join(sorted(set(bad))[:3]), "canonical values only"))
        judge_results(sat, inp["queries"], inp["plan"], r, viol, warm)
        model_says(line, exp)
    elif inp.get("kind") == "alias":
        h = inp["alias"]
        print("one time buffer (%d x datetime64[%s]%s) re-used by %d consecutive queries on one object:" % (
            len(h["base_us"]), h["unit"], ", passed as the view [%d:%d]" % tuple(h["view"]) if h.get("view") else "",
            len(h["steps"])))
        for st in h["steps"]:
            print("   caller:", ", ".join(json.dumps(m, sort_keys=True) for m in st.get("mut") or []) or "(no change)",
                  " then", st["m"], "" if st.get("normalize") is None else "normalize=%s" % st["normalize"])
        run_alias_history(sat, h, viol)
    elif inp.get("kind") == "world":
        print("one object under test, %d other element set(s); the caller keeps every array it is given:" % len(inp["others"]))
        for i, st in enumerate(inp["steps"]):
            print("   step %d:" % i, "construct object %d from %s" % (st["o"], inp["others"][st["o"] - 1][0][2:7]) if st.get("new")
                  else "object %d: %s" % (st["o"], qkey(st["q"])))
        run_world(sat, inp, viol)
    elif inp.get("kind") == "env":
        print("one query on a fresh object under two process environments:")
        print("  ", qkey(inp["q"]))
        print("   {%s}  vs  {%s}" % (env_text(inp["base"]), env_text(inp["env"])))
        run_env_case(tuple(inp["tle"]), inp["q"], inp["env"], inp["base"], viol)
    elif inp.get("kind") == "free":
        old = sys.getswitchinterval()
        sys.setswitchinterval(1e-6)
        try:
            for _ in range(200):
                res = run_free(sat, inp["queries"])
                if any(r is _SKIP for r in res):
                    continue
                for i, q in enumerate(inp["queries"]):
                    if fp(res[i]) != sat.fresh(q)[0]:
                        found.append(("interleaving_dependent", short(res[i]), sat.fresh(q)[1]))
                if found:
                    break
        finally:
            sys.setswitchinterval(old)
    else:
        print("unknown kind of case:", inp.get("kind"))
    while PENDING:
        k, _c, o, rq, _s = PENDING.pop(0)
        found.append((k, o, rq))


def replay(ctx, case):
    found = []
    if "input" in case:                                  # a violating input found by the oracle
        _replay_one(case["input"], found, corr=False)
    elif case.get("first_disagreements"):                # a broken correspondence (no failing input was found)
        print("recorded correspondence disagreements: %d" % len(case["first_disagreements"]))
        for d in case["first_disagreements"][:3]:
            _replay_one(d["case"], found, corr=True)
    else:
        for b in case.get("broken", []):
            print("broken: %s: %s" % (b.get("stage"), str(b.get("detail"))[:400]))
        print("nothing to re-run in this file (proof obligations are re-checked by ./check C18 --tier quick)")
        return 1 if case.get("broken") else 0
    for k, o, rq in found[:6]:
        print("VIOLATES %s: observed %s; required %s" % (k, o, rq))
    if not found:
        print("no deviation: every result equals the fresh-object result, inputs unchanged, traces are model traces")
    return 1 if found else 0
