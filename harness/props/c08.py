"""C08 — array, scalar, time-type and dtype semantics are uniform across the API."""
import datetime as dt
import inspect
import math
import sys
import warnings

import numpy as np

import lib
import orbits

ID = "C08"
LEAN_TARGETS = ["PV.Props.C08"]
# T-D: functions translated from the source by harness/pytrans.py, proved equal to the model (DESIGN section 0)
EQUIV = {"PV.Equiv.TranslatedTime": ["dt2np_kinds", "dt2np_datetime", "dt2np_scalar", "dt2np_objarr", "dt2np_dtarr", "days_eq", "daysOf_branch", "jdays2000_kinds", "sibling_kinds"]}
RULE = ("(1) kinds: the COMPLETE product {sun_zenith_angle, cos_zen, get_alt_az, observer_position, gmst, jdays} x 10 time kinds "
        "{datetime, datetime64[ns|us|ms|s|m], object array 1-d/2-d, datetime64 array 1-d/2-d} x 23 coordinate kinds {python int, "
        "float, numpy float32/float64/int64 scalars, 0-d/1-d/2-d float32/float64/int64 ndarrays, 0-d/1-d/2-d "
        "float32/float64/int64 dask arrays}: branches taken (dt2np, _days, cast-back guards: observed by line tracing) and "
        "container/dtype/rank of every returned component, model vs code (exhaustive; base instant = a seeded whole minute "
        "1990-2040, distinct values per element); the transfer functions of the abstract domain vs numpy/dask on all pairs of "
        "abstract values (exhaustive); joint loops: iteration counts of the real latitude and Newton loops (line tracing) for a "
        "5-element array call vs its scalar calls; (2) one seeded instant (epoch +-30 d of an element set; 35 % whole seconds, "
        "15 % whole minutes, 10 % whole milliseconds) in every representation (datetime, datetime64[ns|us|ms|s|m] where "
        "representable, 1-d/2-d object arrays, datetime64[us|ns|ms] arrays): bit-identical results of jdays, jdays2000, gmst, "
        "the sun functions, observer_position, get_position, get_lonlatalt and both look functions; (3) array calls (times "
        "(6,) with coordinates (6,) or (2,1), times (2,3) with coordinates (2,3) or scalar) vs the scalar calls after "
        "broadcasting (1e-6 of the unit, angles modulo a turn) for get_position, get_lonlatalt, both look functions, the sun "
        "functions, observer_position, gmst, jdays; element sets: real near-circular ones, generated near-earth ones and "
        "eccentric near-earth ones (e 0.02-0.35), instants with a propagated radius of 6300-100000 km; "
        "every second case: the arrays are KEPT by the caller across the same array call 1-600 s later and one "
        "for another satellite (as far from its own epoch), and compared with the scalar calls afterwards as well; "
        "(4) sequences of 5-15 array-taking queries (get_position normalised / km, get_lonlatalt, both look functions, sun functions, "
        "observer_position, gmst) on ONE Orbital object that reuse ONE time-array object and ONE lon/lat/alt array object, with "
        "in-place shifts of those arrays in between (one fixed swath sequence + seeded random ones, shapes (6,) and (2,3)): every "
        "result vs the scalar calls on a second object (1e-6 of the unit), when returned and - the returned arrays being kept "
        "by the caller - again after every later array call of the sequence; in every second sequence some of the queries go "
        "to ANOTHER satellite (time arrays of the same shape, moved by the whole seconds between the two epochs); "
        "(5) shapes of variation of the time array: the same ten functions x time kind {object array of datetimes, "
        "datetime64[ns|us|ms|s] arrays} x 1-d (5-9 elements) / 2-d ((2,3) (2,4) (4,2) (3,3) (1,7) (5,1), pattern along rows or down "
        "the columns) x order of the instants {increasing, constant, reversed, shuffled, out and back (first == last), sorted by "
        "another key (longitude), repeated instants scattered through the array, first == last with a different middle, all equal "
        "but one, periodic} x coordinates {one per element, one scalar observer}; instants = a track (spacing 1 s / 37 s / 10 min) "
        "or seeded instants within 3 d / 0.1 d of the epoch: every element vs the scalar call given that element (1e-6 of the "
        "unit, angles modulo a turn); "
        "(6) shapes that coincide ambiguously: the six functions that take coordinates x times / lon / lat / alt shapes in which every "
        "axis is N or 1 (N 2..4: times (N,) with (N,N), (N,1), (1,N), (N,N,N) grids, times (N,1) / (N,N) / (1,N) / (N,1,1) with (N,) "
        "and (N,1) coordinates, lon / lat / alt of different shapes; 13 fixed combinations + seeded trailing parts of one (K,N,M)) x "
        "{datetime64 array, object array}: every element vs the scalar call on the elements numpy's own rule pairs "
        "(np.broadcast_arrays of the inputs), first component of the broadcast shape (1e-6 of the unit); "
        "(7) integer types: COMPLETE product {sun_zenith_angle, cos_zen, get_alt_az, observer_position} x {int8, int16, int32, int64, "
        "uint8, uint16, uint32, uint64, float16; Python int} x {scalar, 0-d, 1-d, 2-d ndarray, 1-d dask} x time {datetime, datetime64, "
        "datetime64 array}, seeded longitudes -180..359 as far as the type holds them (always one above 180, one negative for signed "
        "types, one in 0..180), latitudes, altitudes 0..3: no call raises, scalars give scalars, broadcast shape, every element vs the "
        "float call at the same real numbers (1e-6 of the unit where numpy computes in binary64; for 8- and 16-bit types, which "
        "numpy itself computes in float16 / float32: 16 eps of that type on the cosines, through the conditioning of arccos / arcsin / "
        "arctan2 at the reference; 16 eps of 6400 km / 0.5 km/s for observer_position); "
        "distinct = (function, time kind, coordinate kind) cell, instant, (function, shapes, element set, first instant), "
        "(element set, first instant, operation sequence) or (function, time kind, rank, order, coordinates, element set, first instant)")
ASSUMPTIONS = ["8- and 16-bit integer (and float16) coordinates: numpy itself computes these in float16 / float32; they are judged "
               "against the real values at the resolution of that type, and elements with the sun within arccos(1 - 64 eps) of the "
               "zenith or nadir (20 deg for float16, 0.2 deg for float32) are not judged",
               "orbit cases are (element set, instant) pairs at which the propagated radius is 6300..100000 km; decayed element sets "
               "(radius 1e6 km and more a few days from epoch) are outside the sampled domain",
               "dask laziness and xarray wrappers are library behaviour (dask enumerated by kind and probed for laziness with a "
               "side-effecting block function; xarray not covered)",
               "instants are representable in microseconds (datetime resolution); sub-microsecond datetime64[ns] values have no "
               "datetime counterpart to be bit-identical with",
               "the 1e-6 array-vs-scalar bound through the joint loops (np.all exits) relies on the contraction of the "
               "iterations: measured, the theorem gives 'scalar iterate continued k >= 0 steps'",
               "binary64: int -> double exact below 2**53, division correctly rounded, x + 0.0 == x: assumed (IEEE-754), the "
               "rounding function itself is arbitrary in the theorems"]
TRUSTED = ["model PV.Model.Kinds (abstract interpretation of the dtype/scalar guards; its transfer functions are compared with "
           "numpy 2.x / dask on all pairs of abstract values)", "PV.Model.Time (tick arithmetic incl. the ns split)",
           "PV.Model.Joint (np.all loop exits)"]
LEVEL_TEXT = ("Theorems: over the complete finite product of function x time kind x coordinate kind (6 x 10 x 23) the model's "
              "result descriptors (scalar/ndarray/dask, float32/float64, rank), the cast-back guards with their dtype and the "
              "dt2np/_days branches equal the statement's table (ints at real values, scalars give scalars, float32 gives "
              "float32, dask stays lazy, results broadcast to the common shape) and no cell raises; an instant held in any "
              "unit denotes the same rational day count; for ANY rounding function equal rationals with operands below 2^53 "
              "give the same double, tick counts 1900-2100 are below 2^53 in us and coarser units, the ns path's remainder term "
              "is exactly zero, hence one double for every representation; ns tick counts exceed 2^53 beyond 104 days from "
              "J2000 and are then in general no doubles; an element of a joint (np.all) iteration equals its own scalar "
              "iterate continued for k >= 0 further steps (do-while and test-first/Newton forms, any step and test), a stuck "
              "(NaN) element blocks the unrepaired exit test for ever but not the repaired one. Tie: exhaustive enumeration of "
              "the kind product and of the abstract transfer functions against the real functions / numpy / dask; day counts "
              "bit-exact; bit-identity and array-vs-scalar agreement measured on sampled instants.")
LEVEL_NOTE = ("Trusted: Lean kernel; hand-written kind model + exhaustive correspondence; numpy/dask casting rules as observed "
              "(numpy >= 2 promotion); IEEE-754 exactness facts are hypotheses of the bit-identity theorems; the 1e-6 "
              "continuation bound is measured.")
TECHNIQUE = ("Lean 4 proof (decide over the finite kind product; tick-arithmetic identities over Q; induction on joint "
             "iteration) + exhaustive kind correspondence with line tracing + bit-identity oracle")

UNITS = ["ns", "us", "ms", "s", "m"]
DTS = {"f32": "float32", "f64": "float64", "i64": "int64"}
TIME_KINDS = ["datetime"] + ["dt64" + u for u in UNITS] + ["objarr1", "objarr2", "dtarr1", "dtarr2"]
COORD_KINDS = (["pyint", "pyfloat"] + ["np" + d for d in DTS] + ["arr%d_%s" % (r, d) for d in DTS for r in (0, 1, 2)]
               + ["dask%d_%s" % (r, d) for d in DTS for r in (0, 1, 2)])
FNS = ["sun_zenith_angle", "cos_zen", "get_alt_az", "observer_position", "gmst", "jdays"]
COORD_FNS = FNS[:4]
SHAPES = {0: (), 1: (3,), 2: (2, 3)}
EPOCH70 = dt.datetime(1970, 1, 1)


# ------------------------------------------------------------------ kinds: construction of the arguments
def coord_rank(ck):
    return int(ck[3]) if ck.startswith("arr") else int(ck[4]) if ck.startswith("dask") else 0


def coord_dt(ck):
    if ck in ("pyint", "pyfloat"):
        return {"pyint": "i64", "pyfloat": "f64"}[ck]
    return ck[2:] if ck.startswith("np") else ck.split("_")[1]


def time_rank(tk):
    return int(tk[-1]) if tk.startswith(("objarr", "dtarr")) else 0


def grid(shape, start):
    """Distinct whole numbers start, start+1, ... of the given shape."""
    n = int(np.prod(shape)) if shape else 1
    return (np.arange(n) + start).reshape(shape)


class Probe:
    """Block function that records whether a dask graph was executed."""

    def __init__(self):
        self.calls = 0

    def __call__(self, x):
        self.calls += 1
        return x


def mk_coord(ck, start, probe=None):
    vals = grid(SHAPES[coord_rank(ck)], start)
    if ck == "pyint":
        return int(vals)
    if ck == "pyfloat":
        return float(vals)
    d = np.dtype(DTS[coord_dt(ck)])
    if ck.startswith("np"):
        return d.type(vals)
    arr = np.asarray(vals, dtype=d)
    if ck.startswith("dask"):
        import dask.array as da
        x = da.from_array(arr, chunks=arr.shape if arr.shape else -1)
        if probe is not None:
            x = x.map_blocks(probe, dtype=d, meta=np.array((), dtype=d))
        return x
    return arr


def time_grid(tk, t0):
    """datetimes of the time argument, as an object array of the argument's shape."""
    hours = grid(SHAPES[time_rank(tk)], 0)
    out = np.empty(hours.shape, dtype=object)
    for idx in np.ndindex(hours.shape):
        out[idx] = t0 + dt.timedelta(hours=int(hours[idx]))
    return out


def mk_time(tk, t0):
    g = time_grid(tk, t0)
    if tk == "datetime":
        return g[()]
    if tk.startswith("dt64"):
        return np.datetime64(g[()]).astype("datetime64[%s]" % tk[4:])
    if tk.startswith("objarr"):
        return g
    return g.astype("datetime64[us]")


def descr(x):
    import dask.array as da
    if isinstance(x, da.Array):
        return "dask:%s:%d" % (x.dtype, x.ndim)
    if isinstance(x, np.ndarray):
        return "ndarray:%s:%d" % (x.dtype, x.ndim)
    if isinstance(x, np.generic):
        return "scalar:%s:0" % x.dtype
    if type(x) is float:
        return "pyscalar:float64:0"
    if type(x) is int:
        return "pyscalar:int:0"
    return "other:%s" % type(x).__name__


def flat(r):
    if isinstance(r, tuple):
        out = []
        for x in r:
            out += flat(x)
        return out
    return [r]


def call(fn, t, lon, lat, alt):
    from pyorbital import astronomy
    if fn == "observer_position":
        return flat(astronomy.observer_position(t, lon, lat, alt))
    if fn in ("gmst", "jdays"):
        return [getattr(astronomy, fn)(t)]
    return flat(getattr(astronomy, fn)(t, lon, lat))


# ------------------------------------------------------------------ line tracing: which branch / guard ran
def source_current(func):
    """True when the source text on disk is still the text the loaded function was compiled from (line tracing maps line
    numbers of the loaded code to text read from disk; a tree that is modified while the check runs would be misread)."""
    import textwrap
    try:
        lines, _ = inspect.getsourcelines(func)
        mod = compile(textwrap.dedent("".join(lines)), "<src>", "exec")
        codes = [c for c in mod.co_consts if hasattr(c, "co_code") and c.co_name == func.__code__.co_name]
        if not codes:
            return False
        import dis

        def ops(code):
            return [(i.opname, i.argval if isinstance(i.argval, (str, int, float, tuple, type(None))) else type(i.argval).__name__)
                    for i in dis.get_instructions(code)]
        return ops(codes[0]) == ops(func.__code__)
    except Exception:  # noqa
        return False


class Tracer:
    """Records the executed source lines of the watched functions (by stripped text)."""

    def __init__(self):
        from pyorbital import astronomy
        import pyorbital
        self.funcs = {}
        for name in ("jdays2000", "_days", "cos_zen", "sun_zenith_angle", "get_alt_az", "observer_position"):
            self.funcs[name] = getattr(astronomy, name)
        self.funcs["dt2np"] = pyorbital.dt2np
        self.stale = not all(source_current(f) for f in self.funcs.values())
        self.src = {}
        self.codes = {}
        for name, f in self.funcs.items():
            lines, first = inspect.getsourcelines(f)
            self.src[name] = {first + i: ln.strip() for i, ln in enumerate(lines)}
            self.codes[f.__code__] = name
        self.seen = []

    def _global(self, frame, event, arg):
        name = self.codes.get(frame.f_code)
        if name is None:
            return None

        def local(frame, event, arg):
            if event == "line":
                self.seen.append((name, self.src[name].get(frame.f_lineno, "")))
            return local
        return local

    def run(self, f):
        self.seen = []
        old = sys.gettrace()
        sys.settrace(self._global)
        try:
            return f()
        finally:
            sys.settrace(old)

    def branches(self, fn):
        """(dt2np branch, _days branch, guards in execution order) as the model names them."""
        a = "astype" if any(n == "dt2np" and "astype" in s for n, s in self.seen) else "direct"
        b = "split" if any(n == "_days" and s.startswith("whole =") for n, s in self.seen) else "direct"
        guards = []
        order = {"sun_zenith_angle": ["cos_zen", "sun_zenith_angle"], "cos_zen": ["cos_zen"], "get_alt_az": ["get_alt_az"],
                 "observer_position": ["observer_position"]}.get(fn, [])
        for g in order:
            entered = any(n == g for n, s in self.seen)
            fired = any(n == g and ".astype(" in s for n, s in self.seen)
            guards.append("cast" if fired else "skip" if entered else "missing")
        return a, b, ",".join(guards) if guards else "-"


def observe(fn, tk, ck, t0, tracer):
    """The real call, rendered like the model's `c08kind` line."""
    t = mk_time(tk, t0)
    lon, lat, alt = mk_coord(ck, 10), mk_coord(ck, 40), mk_coord(ck, 1)
    try:
        res = tracer.run(lambda: call(fn, t, lon, lat, alt))
    except Exception as e:  # noqa
        return "error:" + type(e).__name__
    a, b, g = tracer.branches(fn)
    return "%s/%s %s %s" % (a, b, g, " ".join(descr(x) for x in res))


# ------------------------------------------------------------------ transfer functions of the abstract domain
AV_TOKENS = (["pyint", "pyfloat"] + ["np:" + d for d in DTS.values()] + ["nd:%s:%d" % (d, r) for d in DTS.values() for r in (0, 1, 2)]
             + ["da:%s:%d" % (d, r) for d in DTS.values() for r in (0, 1, 2)])


def av_value(tok):
    p = tok.split(":")
    if p[0] == "pyint":
        return 1
    if p[0] == "pyfloat":
        return 1.0
    d = np.dtype(p[1])
    if p[0] == "np":
        return d.type(1)
    arr = np.ones(SHAPES[int(p[2])], dtype=d)
    if p[0] == "da":
        import dask.array as da
        return da.from_array(arr, chunks=arr.shape if arr.shape else -1)
    return arr


def av_token(x):
    import dask.array as da
    if isinstance(x, da.Array):
        return "da:%s:%d" % (x.dtype, x.ndim)
    if isinstance(x, np.ndarray):
        return "nd:%s:%d" % (x.dtype, x.ndim)
    if isinstance(x, np.generic):
        return "np:%s" % x.dtype
    if type(x) is float:
        return "pyfloat"
    if type(x) is int:
        return "pyint"
    return "other:" + type(x).__name__


def impl_op(op, a, b=None):
    """All numpy spellings of one abstract operation must agree; returns the set of observed tokens."""
    from pyorbital import astronomy
    import operator

    def guard(f):
        try:
            return f()
        except Exception as e:  # noqa
            return "error:" + type(e).__name__
    if op == "ufl":
        return {guard(lambda f=f: av_token(f(a))) for f in (np.deg2rad, np.rad2deg, np.sin, np.cos, np.tan, np.sqrt, np.arcsin, np.arccos)}
    if op == "neg":
        return {guard(lambda: av_token(-a))}
    if op == "isfloat":
        return {"true" if isinstance(a, float) else "false"}
    if op == "dtype":
        return {guard(lambda: str(a.dtype))}
    if op in ("astype32", "astype64"):
        d = np.float32 if op == "astype32" else np.float64
        return {guard(lambda: av_token(a.astype(d))), guard(lambda: av_token(a.astype(d, copy=False)))}
    if op == "sibling":
        return {guard(lambda: av_token(astronomy._float_to_sibling_result(0.0, a)))}
    if op == "arith":
        return {guard(lambda f=f: av_token(f(a, b))) for f in (operator.add, operator.sub, operator.mul, operator.mod, operator.pow)}
    if op == "tdiv":
        return {guard(lambda: av_token(a / b))}
    if op == "ufl2":
        return {guard(lambda: av_token(np.arctan2(a, b)))}
    raise ValueError(op)


UNARY_OPS = ["ufl", "neg", "isfloat", "dtype", "astype32", "astype64", "sibling"]
BINARY_OPS = ["arith", "tdiv", "ufl2"]


# ------------------------------------------------------------------ joint loops: iteration counts of the real code
def count_lines(func, marker, f):
    """Run f(); count executions of the source line of `func` that starts with `marker`."""
    lines, first = inspect.getsourcelines(func)
    target = {first + i for i, ln in enumerate(lines) if ln.strip().startswith(marker)}
    code = func.__code__
    n = [0]

    def glob(frame, event, arg):
        if frame.f_code is not code:
            return None

        def local(frame, event, arg):
            if event == "line" and frame.f_lineno in target:
                n[0] += 1
            return local
        return local
    old = sys.gettrace()
    sys.settrace(glob)
    try:
        res = f()
    finally:
        sys.settrace(old)
    return n[0], res


def sane(o, t):
    """The propagator answers at t with a radius a satellite can have (6300 .. 100000 km). Decayed element sets (B* ~ 0.1, days
    from epoch) give radii of 1e6 km and more, where the ulp-level effect of extra joint Newton steps exceeds 1e-6 km."""
    try:
        p, _ = o.get_position(t, normalize=False)
    except Exception:  # noqa  refusals are C13's subject
        return False
    r = float(np.sqrt(np.sum(np.asarray(p, dtype=float) ** 2)))
    return 6300.0 <= r <= 100000.0


def epoch_offset_s(o, o2):
    """whole seconds from o's epoch to o2's: instants moved by it are as far from o2's epoch as they were from o's"""
    return int((o2.tle.epoch - o.tle.epoch) / np.timedelta64(1, "s"))


def sane_times(ctx, o, k, days):
    out = []
    tries = 0
    while len(out) < k and tries < 8 * k + 10:
        tries += 1
        t = orbits.rand_time(ctx, o, days)
        if sane(o, t):
            out.append(t)
    return out


def orbit_pool(ctx, n, n_ecc):
    """n real / generated near-circular element sets plus n_ecc eccentric near-earth ones (e 0.02 .. 0.35, perigee 300 .. 1500 km,
    period < 220 min): on those the elements of one array call need different numbers of Newton steps."""
    import tlegen
    from pyorbital import orbital
    out = orbits.make_orbitals(ctx, n)
    ecc = []
    for (_, a, b) in tlegen.REAL_TLES:
        if int(b[26:33]) / 1e7 >= 0.02 and float(b[52:63]) >= 6.5:
            ecc.append((a, b))
    tries = 0
    k = 0
    while k < n_ecc and tries < 60 * n_ecc + 60:
        tries += 1
        if ecc:
            a, b = ecc.pop(0)
        else:
            e = ctx.rng.uniform(0.03, 0.35)
            a_km = (ctx.rng.uniform(300, 1500) + 6378.135) / (1 - e)
            per = 2 * math.pi * math.sqrt(a_km ** 3 / 398600.8) / 60.0
            if per >= 220:
                continue
            _, a, b = tlegen.random_tle(ctx.rng, "near", overrides={"ecc": "%07d" % int(e * 1e7), "mmotion": "%11.8f" % (1440.0 / per)})
        try:
            o = orbital.Orbital("x", line1=a, line2=b)
            if not sane(o, o.tle.epoch.astype(dt.datetime)):
                continue
        except Exception:  # noqa  refusals are C13's subject
            continue
        out.append((a, b, o))
        k += 1
    return out


def base_instant(ctx):
    """A seeded whole minute between 1990 and 2040 (representable in every unit)."""
    lo = int((dt.datetime(1990, 1, 1) - EPOCH70).total_seconds()) // 60
    hi = int((dt.datetime(2040, 1, 1) - EPOCH70).total_seconds()) // 60
    return EPOCH70 + dt.timedelta(minutes=ctx.rng.randrange(lo, hi))


def correspond(ctx):
    from pyorbital import astronomy, orbital
    drv = ctx.driver()
    with warnings.catch_warnings():
        warnings.simplefilter("ignore")
        # (a) the abstract transfer functions against numpy / dask on every (pair of) abstract value(s)
        lines, exp = [], []
        for op in UNARY_OPS:
            for a in AV_TOKENS:
                lines.append("c08op %s %s" % (op, a))
                exp.append((op, a, None, impl_op(op, av_value(a))))
        for op in BINARY_OPS:
            for a in AV_TOKENS:
                for b in AV_TOKENS:
                    lines.append("c08op %s %s %s" % (op, a, b))
                    exp.append((op, a, b, impl_op(op, av_value(a), av_value(b))))
        for (op, a, b, got), o in zip(exp, drv.run(lines)):
            ctx.count("eval_corr_ops")
            if got != {o}:
                ctx.disagree("c08op", {"op": op, "a": a, "b": b}, sorted(got), o)
        # (b) the complete product of kinds against the real functions
        t0 = base_instant(ctx)
        tracer = Tracer()
        lines, exp = [], []
        for fn in FNS:
            for tk in TIME_KINDS:
                for ck in COORD_KINDS:
                    lines.append("c08kind %s %s %s" % (fn, tk, ck))
                    exp.append((fn, tk, ck, observe(fn, tk, ck, t0, tracer)))
        outs = drv.run(lines)
        for (fn, tk, ck, got), o in zip(exp, outs):
            ctx.count("eval_corr_kinds")
            ctx.distinct((fn, tk, ck))
            ctx.bump("result_kind", got.split()[2] if len(got.split()) > 2 else got)
            ctx.bump("branches", " ".join(got.split()[:2]))
            if tracer.stale and not got.startswith("error") and not o.startswith("error"):
                got, o = " ".join(got.split()[2:]), " ".join(o.split()[2:])     # descriptors only
            if got != o:
                ctx.disagree("c08kind", {"fn": fn, "time": tk, "coord": ck, "t0": t0.isoformat()}, got, o)
        if tracer.stale:
            ctx.note("the source files of the tree changed on disk after import: branches / guards not compared by line tracing")
        ctx.exhaustive = True
        ctx.note("kind product complete: %d cells; transfer functions complete: %d cases" % (
            len(FNS) * len(TIME_KINDS) * len(COORD_KINDS), len(UNARY_OPS) * len(AV_TOKENS) + len(BINARY_OPS) * len(AV_TOKENS) ** 2))
        for k in (0, 700, 1379):
            ctx.sample({"fn": exp[k][0], "time": exp[k][1], "coord": exp[k][2], "observed": exp[k][3]})
    # (c) day counts: the ns path of the model (whole microseconds + zero remainder) is bit-identical to the us path
    lines, exp = [], []
    for _ in range(ctx.size(1500, 100000)):
        us = ctx.rng.randrange(-2208988800 * 10 ** 6, 4133980800 * 10 ** 6)
        lines.append("jd us %d" % us)
        lines.append("jd ns %d" % (us * 1000))
        exp.append(us)
    outs = drv.run_parallel(lines)
    for i, us in enumerate(exp):
        ctx.count("eval_corr_ticks")
        a, b = outs[2 * i], outs[2 * i + 1]
        impl = lib.f2h(float(astronomy.jdays2000(np.datetime64(us * 1000, "ns"))))
        impl_us = lib.f2h(float(astronomy.jdays2000(np.datetime64(us, "us"))))
        if a != b or a != impl or a != impl_us:
            ctx.disagree("jd-ns-vs-us", {"us": us}, [impl_us, impl], [a, b])
    # (d) joint loops: the model's loop shape against a numpy transcription of the code's loop on a toy step, and the
    #     theorem's n <= N on the iteration counts of the real loops (line tracing)
    lines, exp = [], []
    for _ in range(ctx.size(40, 400)):
        xs = [ctx.rng.choice([-1, ctx.rng.randrange(0, 10 ** 6)]) if ctx.rng.random() < 0.15 else ctx.rng.randrange(0, 10 ** 6)
              for _ in range(ctx.rng.randrange(1, 6))]
        for mode in "ur":
            lines.append("c08joint 60 2 %s %s" % (mode, " ".join(map(str, xs))))
            exp.append((mode, xs, toy_joint(xs, mode, 60)))
    for (mode, xs, got), o in zip(exp, drv.run(lines)):
        ctx.count("eval_corr_joint_toy")
        if got != o:
            ctx.disagree("c08joint", {"mode": mode, "xs": xs}, got, o)
    objs = orbit_pool(ctx, ctx.size(3, 8), ctx.size(5, 16))
    for k in range(ctx.size(32, 400)):
        a_, b_, o = objs[k % len(objs)]
        ts = sane_times(ctx, o, 5, 2.0)
        if len(ts) < 5:
            continue
        tarr = np.array([np.datetime64(t) for t in ts])
        for label, func, marker, f_arr, f_one in (
                ("lonlatalt", orbital.Orbital.get_lonlatalt, "lat2 = lat", lambda: o.get_lonlatalt(tarr), lambda t: o.get_lonlatalt(t)),
                ("newton", orbital._Keplerians._iterate_newton_raphson, "self._sinEPW", lambda: o.get_position(tarr), lambda t: o.get_position(t))):
            if not source_current(func):
                ctx.note("source of %s changed on disk after import: iteration counts not traced" % func.__name__)
                continue
            big_n, _ = count_lines(func, marker, f_arr)
            ns = [count_lines(func, marker, lambda t=t: f_one(t))[0] for t in ts]
            ctx.count("eval_corr_joint_counts")
            ctx.bump("joint_extra_steps_" + label, big_n - min(ns))
            if big_n < max(ns) or big_n == 0:
                ctx.disagree("joint-steps", {"loop": label, "line1": a_, "line2": b_, "times": [t.isoformat() for t in ts]},
                             {"array": big_n, "scalars": ns}, "array steps >= every scalar's steps")


def toy_joint(xs, mode, fuel):
    """numpy transcription of the code's loop shape on the toy step x -> x // 2 (negative = stuck, like NaN)."""
    lat = np.array(xs, dtype=np.int64)
    for n in range(1, fuel + 1):
        lat2 = lat
        lat = np.where(lat2 < 0, lat2, lat2 // 2)
        conv = (np.abs(lat - lat2) < 2) & ~(lat < 0)
        test = conv | (lat < 0) if mode == "r" else conv
        if np.all(test):
            return "%d %s" % (n, " ".join(str(int(v)) for v in lat))
    return "none"


# ------------------------------------------------------------------ oracle (1): the statement's clauses on one cell
UNIT = {"sun_zenith_angle": 1.0, "cos_zen": 1.0, "get_alt_az": 1.0, "observer_position": 1.0, "gmst": 1.0, "jdays": 1.0}


def scalar_of(ck, v):
    d = coord_dt(ck)
    if d == "f32":
        return np.float32(v)
    if d == "i64":
        return int(v)
    return float(v)


def angle_diff(fn, i, a, b):
    d = abs(a - b)
    if (fn == "get_alt_az" and i == 1) or fn == "gmst":
        d = min(d, abs(d - 2 * math.pi))
    return d


def check_cell(fn, tk, ck, t0):
    """Every clause of the statement on one cell of the product. Returns [(kind, detail, observed, required)]."""
    import dask.array as da
    bad = []
    takes_coords = fn in COORD_FNS
    probe = Probe()
    t = mk_time(tk, t0)
    lon, lat, alt = mk_coord(ck, 10, probe), mk_coord(ck, 40, probe), mk_coord(ck, 1, probe)
    with warnings.catch_warnings():
        warnings.simplefilter("ignore")
        try:
            res = call(fn, t, lon, lat, alt)
        except Exception as e:  # noqa
            return [("raises", {}, type(e).__name__ + ": " + str(e)[:120], "a result")]
        tshape = SHAPES[time_rank(tk)]
        cshape = SHAPES[coord_rank(ck)] if takes_coords else ()
        common = np.broadcast_shapes(tshape, cshape)
        is_dask = takes_coords and ck.startswith("dask")
        want_dtype = "float32" if (takes_coords and coord_dt(ck) == "f32") else "float64"
        all_scalar = common == () and not is_dask
        if is_dask and probe.calls:
            bad.append(("dask_computed_eagerly", {}, "%d block evaluations during the call" % probe.calls, "a lazy dask array"))
        tg = time_grid(tk, t0)
        lon_v, lat_v, alt_v = grid(cshape, 10), grid(cshape, 40), grid(cshape, 1)
        computed = list(res)
        if any(isinstance(x, da.Array) for x in res):
            import dask
            computed = list(dask.compute(*res, scheduler="synchronous"))
        for i, x in enumerate(res):
            where = {"index": i}
            d = descr(x)
            # dtype: ints and floats at real values (float64), float32 stays float32
            xd = str(getattr(x, "dtype", "float64" if type(x) is float else type(x).__name__))
            if xd != want_dtype:
                bad.append(("dtype", where, d, want_dtype + (" (integers are taken at their real values)" if coord_dt(ck) == "i64" else "")))
            # scalars give scalars
            if all_scalar and not (isinstance(x, np.generic) or type(x) is float):
                bad.append(("scalar_in_not_scalar_out", where, d, "a scalar"))
            # dask stays lazy dask (and nothing else becomes dask)
            if isinstance(x, da.Array) != is_dask:
                bad.append(("dask_not_preserved", where, d, "a dask array" if is_dask else "no dask array"))
            # shape: broadcasts to the common shape; the first component has it
            shp = tuple(np.shape(x))
            try:
                ok = np.broadcast_shapes(shp, common) == common
            except ValueError:
                ok = False
            if not ok or (i == 0 and shp != common):
                bad.append(("shape", where, list(shp), "broadcastable to %s%s" % (list(common), ", equal for the first component" if i == 0 else "")))
                continue
            # values: equal, after broadcasting, to the scalar calls with scalars of the same dtype (1e-6 of the unit),
            # and integer inputs are taken at their real values (= the float call)
            xv = np.asarray(computed[i], dtype=np.float64)
            xv = np.broadcast_to(xv, common)
            for idx in np.ndindex(common):
                tt = np.broadcast_to(tg, common)[idx]
                lo, la, al = (np.broadcast_to(g, common)[idx] for g in (lon_v, lat_v, alt_v))
                try:
                    ref = call(fn, tt, scalar_of(ck, lo), scalar_of(ck, la), scalar_of(ck, al))[i]
                except Exception as e:  # noqa
                    bad.append(("scalar_call_raises", dict(where, element=list(idx)), type(e).__name__ + ": " + str(e)[:120], "a result"))
                    break
                if not angle_diff(fn, i, float(xv[idx]), float(ref)) <= 1e-6 * UNIT[fn]:
                    bad.append(("array_vs_scalar", dict(where, element=list(idx)), float(xv[idx]), float(ref)))
                    break
                if takes_coords and coord_dt(ck) != "f64":
                    real = float(call(fn, tt, float(lo), float(la), float(al))[i])
                    tol = 1e-6 * UNIT[fn] if coord_dt(ck) == "i64" else 2e-3 * max(1.0, abs(real))
                    if not angle_diff(fn, i, float(xv[idx]), real) <= tol:
                        bad.append(("not_at_real_value", dict(where, element=list(idx)), float(xv[idx]), real))
                        break
    return bad


# ------------------------------------------------------------------ oracle (2): one instant, every representation
def representations(t):
    us = int((t - EPOCH70) / dt.timedelta(microseconds=1))
    reps = {"datetime": t, "dt64us": np.datetime64(us, "us"), "dt64ns": np.datetime64(us * 1000, "ns"),
            "objarr1": np.array([t], dtype=object), "dtarr1": np.array([np.datetime64(us, "us")]),
            "dtarr1ns": np.array([np.datetime64(us * 1000, "ns")]),
            "objarr2": np.array([[t]], dtype=object)}
    if us % 1000 == 0:
        reps["dt64ms"] = np.datetime64(us // 1000, "ms")
        reps["dtarr1ms"] = np.array([np.datetime64(us // 1000, "ms")])
    if us % 10 ** 6 == 0:
        reps["dt64s"] = np.datetime64(us // 10 ** 6, "s")
    if us % (60 * 10 ** 6) == 0:
        reps["dt64m"] = np.datetime64(us // (60 * 10 ** 6), "m")
    return us, reps


def time_fns(o, lon, lat, alt):
    from pyorbital import astronomy, orbital

    def vec(r):
        return np.array([np.asarray(x, dtype=np.float64).reshape(-1)[0] for x in flat(r)])
    return {
        "jdays": lambda r: vec(astronomy.jdays(r)),
        "jdays2000": lambda r: vec(astronomy.jdays2000(r)),
        "gmst": lambda r: vec(astronomy.gmst(r)),
        "sun_zenith_angle": lambda r: vec(astronomy.sun_zenith_angle(r, lon, lat)),
        "cos_zen": lambda r: vec(astronomy.cos_zen(r, lon, lat)),
        "get_alt_az": lambda r: vec(astronomy.get_alt_az(r, lon, lat)),
        "observer_position": lambda r: vec(astronomy.observer_position(r, lon, lat, alt)),
        "get_position": lambda r: np.array(o.get_position(r, normalize=False), dtype=np.float64).reshape(-1),
        "get_lonlatalt": lambda r: vec(o.get_lonlatalt(r)),
        "get_observer_look": lambda r: vec(o.get_observer_look(r, lon, lat, alt)),
        "module_look": lambda r: vec(orbital.get_observer_look(np.float64(lon + 1), np.float64(lat / 2), np.float64(800.0), r,
                                                               np.float64(lon), np.float64(lat), np.float64(alt))),
    }


def check_repr(o, t, lon, lat, alt, only=None):
    """[(fn, representation, observed, reference)] where a representation is not bit-identical to the datetime's."""
    us, reps = representations(t)
    bad = []
    n = 0
    with warnings.catch_warnings():
        warnings.simplefilter("ignore")
        for name, f in time_fns(o, lon, lat, alt).items():
            if only and name != only:
                continue
            try:
                ref = f(reps["datetime"])
            except Exception as e:  # noqa
                bad.append((name, "datetime", type(e).__name__ + ": " + str(e)[:120], "a result"))
                continue
            for rk, rv in reps.items():
                if rk == "datetime":
                    continue
                n += 1
                try:
                    got = f(rv)
                except Exception as e:  # noqa
                    bad.append((name, rk, type(e).__name__ + ": " + str(e)[:120], ref.tolist()))
                    break
                if got.shape != ref.shape or got.tobytes() != ref.tobytes():
                    bad.append((name, rk, got.tolist(), ref.tolist()))
                    break
    return us, n, bad


# ------------------------------------------------------------------ oracle (3): arrays vs broadcast scalar calls
VARIANTS = {"flat": ((6,), (6,)), "outer": ((6,), (2, 1)), "grid": ((2, 3), (2, 3)), "time_only": ((2, 3), ())}


def broadcast_calls(o):
    from pyorbital import astronomy, orbital
    # name -> (array call, scalar call, needs coordinates, wrap period per component or None)
    return {
        "get_position": (lambda T, lo, la, al: flat(o.get_position(T, normalize=False)),
                         lambda t, lo, la, al: flat(tuple(tuple(v) for v in o.get_position(t, normalize=False))), False, None, True),
        "get_lonlatalt": (lambda T, lo, la, al: flat(o.get_lonlatalt(T)), lambda t, lo, la, al: flat(o.get_lonlatalt(t)), False, [360.0, None, None], False),
        "get_observer_look": (lambda T, lo, la, al: flat(o.get_observer_look(T, lo, la, al)),
                              lambda t, lo, la, al: flat(o.get_observer_look(t, lo, la, al)), True, [360.0, None], False),
        "module_look": (lambda T, lo, la, al: flat(orbital.get_observer_look(lo + 1.0, la / 2.0, al * 0 + 800.0, T, lo, la, al)),
                        lambda t, lo, la, al: flat(orbital.get_observer_look(lo + 1.0, la / 2.0, 800.0, t, lo, la, al)), True, [360.0, None], False),
        "sun_zenith_angle": (lambda T, lo, la, al: [astronomy.sun_zenith_angle(T, lo, la)], lambda t, lo, la, al: [astronomy.sun_zenith_angle(t, lo, la)], True, None, False),
        "cos_zen": (lambda T, lo, la, al: [astronomy.cos_zen(T, lo, la)], lambda t, lo, la, al: [astronomy.cos_zen(t, lo, la)], True, None, False),
        "get_alt_az": (lambda T, lo, la, al: flat(astronomy.get_alt_az(T, lo, la)), lambda t, lo, la, al: flat(astronomy.get_alt_az(t, lo, la)), True, [None, 2 * math.pi], False),
        "observer_position": (lambda T, lo, la, al: flat(astronomy.observer_position(T, lo, la, al)),
                              lambda t, lo, la, al: flat(astronomy.observer_position(t, lo, la, al)), True, None, False),
        "gmst": (lambda T, lo, la, al: [astronomy.gmst(T)], lambda t, lo, la, al: [astronomy.gmst(t)], False, [2 * math.pi], False),
        "jdays": (lambda T, lo, la, al: [astronomy.jdays(T)], lambda t, lo, la, al: [astronomy.jdays(t)], False, None, False),
    }


def check_broadcast(o, name, variant, times_us, lons, lats, alts, then=None):
    """Array call of `name` with the variant's shapes vs the scalar calls. Returns (n_compared, [violations]).
    then = {"shift_s": s, "other": [line1, line2, whole seconds between the epochs] | None}: the caller keeps the arrays it was given, makes the same array call
    s seconds later (same shapes; same satellite) and once more for another satellite, and compares what it kept with the
    scalar calls AFTERWARDS as well."""
    tshape, cshape = VARIANTS[variant]
    fa, fs, needs_coords, wrap, pos_layout = broadcast_calls(o)[name]
    T = np.array([np.datetime64(int(u), "us") for u in times_us]).reshape(tshape)
    ts = np.array([EPOCH70 + dt.timedelta(microseconds=int(u)) for u in times_us], dtype=object).reshape(tshape)
    n = int(np.prod(cshape)) if cshape else 1
    if cshape == ():
        lo, la, al = float(lons[0]), float(lats[0]), float(alts[0])
    else:
        lo, la, al = (np.array(v[:n], dtype=float).reshape(cshape) for v in (lons, lats, alts))
    common = np.broadcast_shapes(tshape, cshape) if needs_coords else tshape
    bad = []
    cnt = 0
    with warnings.catch_warnings():
        warnings.simplefilter("ignore")
        arr = fa(T, lo, la, al)
        if pos_layout:
            # get_position returns two (3, *shape) arrays
            arr = [c for block in arr for c in np.asarray(block)]
        kept = None
        if then:
            kept = arr                                     # the objects the caller was given
            arr = [np.array(a, copy=True) for a in kept]   # their values as returned
            fa(T + np.timedelta64(int(then["shift_s"]), "s"), lo, la, al)
            if then.get("other"):
                from pyorbital import orbital
                o2 = orbital.Orbital("y", line1=then["other"][0], line2=then["other"][1])
                broadcast_calls(o2)[name][0](T + np.timedelta64(int(then["other"][2]), "s"), lo, la, al)
        for idx in np.ndindex(common):
            tt = np.broadcast_to(ts, common)[idx]
            l1, l2, l3 = (float(np.broadcast_to(np.asarray(v), common)[idx]) if needs_coords else 0.0 for v in (lo, la, al))
            one = fs(tt, l1, l2, l3)
            for kind, arrs in (("array_vs_scalar", arr), ("array_vs_scalar_after_later_call", kept)):
                if arrs is None:
                    continue
                for i, (a, s) in enumerate(zip(arrs, one)):
                    cnt += 1
                    shp = tuple(np.shape(a))
                    try:
                        av = float(np.broadcast_to(np.asarray(a, dtype=float), common)[idx])
                    except ValueError:
                        bad.append(("shape", i, list(idx), list(shp), list(common)))
                        return cnt, bad
                    d = abs(av - float(s))
                    if wrap and wrap[i]:
                        d = min(d, abs(d - wrap[i]))
                    if not d <= 1e-6:
                        bad.append((kind, i, list(idx), av, float(s)))
                        return cnt, bad
            if len(arr) != len(one):
                bad.append(("arity", 0, list(idx), len(arr), len(one)))
                return cnt, bad
    return cnt, bad


# ------------------------------------------------------------------ oracle (5): shapes of variation of the time array
TS_KINDS = ["obj", "ns", "us", "ms", "s"]         # object array of datetimes, datetime64 arrays of four units
TS_PATTERNS = ["increasing", "constant", "reversed", "shuffled", "out_and_back", "other_key", "repeats_scattered",
               "first_eq_last", "all_equal_but_one", "periodic"]
TS_SHAPES = {1: [(5,), (6,), (7,), (8,), (9,)], 2: [(2, 3), (2, 4), (4, 2), (3, 3), (1, 7), (5, 1)]}


def ts_index(pattern, n, rng, key):
    """Which of n distinct instants (numbered in order of time) each of the n elements of the time array holds.
    `key` = another quantity per instant (the order of 'other_key')."""
    def monotone(seq):
        d = [b - a for a, b in zip(seq, seq[1:])]
        return all(x >= 0 for x in d) or all(x <= 0 for x in d)
    if pattern == "increasing":
        return list(range(n))
    if pattern == "constant":
        return [rng.randrange(n)] * n
    if pattern == "reversed":
        return list(range(n - 1, -1, -1))
    if pattern == "other_key":
        return sorted(range(n), key=lambda i: key[i])
    if pattern == "out_and_back":
        h = (n + 1) // 2
        up = sorted(rng.sample(range(n), h))
        if rng.random() < 0.5:
            up = up[::-1]                           # back and out
        return up + (up[::-1] if n % 2 == 0 else up[-2::-1])
    if pattern == "periodic":
        per = rng.choice([p for p in range(2, n) if (n - 1) % p == 0] or [2])
        cyc = rng.sample(range(n), per)
        return [cyc[i % per] for i in range(n)]
    if pattern == "all_equal_but_one":
        a, b = rng.sample(range(n), 2)
        seq = [a] * n
        seq[rng.randrange(1, n - 1) if rng.random() < 0.6 else rng.randrange(n)] = b
        return seq
    for _ in range(200):
        if pattern == "shuffled":
            seq = rng.sample(range(n), n)
        elif pattern == "first_eq_last":
            rest = rng.sample(range(n), n - 1)
            seq = [rest[0]] + rest[1:] + [rest[0]]
        elif pattern == "repeats_scattered":
            pool = rng.sample(range(n), max(2, n // 2))
            seq = [rng.choice(pool) for _ in range(n)]
            if not any(seq[i] == seq[j] for i in range(n) for j in range(i + 2, n) if any(seq[k] != seq[i] for k in range(i, j))):
                continue
        else:
            raise ValueError(pattern)
        if not monotone(seq):
            return seq
    return seq


def ts_arrays(kind, shape, layout, base_us, index):
    """The time array (elements: base instants picked by `index`, laid along rows 'C' or down the columns 'F') and the
    array of the picked numbers."""
    idx = np.ascontiguousarray(np.array(index, dtype=np.int64).reshape(shape, order=layout))
    if kind == "obj":
        T = np.empty(shape, dtype=object)
        for e in np.ndindex(shape):
            T[e] = EPOCH70 + dt.timedelta(microseconds=int(base_us[idx[e]]))
    else:
        T = np.array(base_us, dtype=np.int64)[idx].astype("datetime64[us]").astype("datetime64[%s]" % kind)
    return T, idx


def check_timeshape(o, name, kind, shape, layout, coords, base_us, index, lons, lats, alts, cache=None):
    """Array call of `name` on a time array with the given shape of variation (coordinates: one per element, following
    the element's instant, or one scalar observer) vs the scalar call at each element's own instant (the element itself:
    a datetime for object arrays, a datetime64 of the array's unit otherwise), 1e-6 of the unit, angles modulo a turn.
    Returns (n_compared, [violations])."""
    fa, fs, needs_coords, wrap, pos_layout = broadcast_calls(o)[name]
    T, idx = ts_arrays(kind, shape, layout, base_us, index)
    if coords == "elementwise":
        lo, la, al = (np.array(v, dtype=float)[idx] for v in (lons, lats, alts))
    else:
        lo, la, al = float(lons[0]), float(lats[0]), float(alts[0])
    cache = {} if cache is None else cache
    bad = []
    cnt = 0
    with warnings.catch_warnings():
        warnings.simplefilter("ignore")
        arr = fa(T, lo, la, al)
        if pos_layout:
            arr = [c for block in arr for c in np.asarray(block)]
        try:
            full = [np.broadcast_to(np.asarray(a, dtype=float), shape) for a in arr]
        except ValueError:
            return 1, [("shape", 0, [], [list(np.shape(a)) for a in arr], list(shape))]
        for e in np.ndindex(shape):
            b = int(idx[e])
            ck = (name, kind, coords if needs_coords else "-", b)
            one = cache.get(ck)
            if one is None:
                if coords == "elementwise":
                    one = fs(T[e], float(lons[b]), float(lats[b]), float(alts[b]))
                else:
                    one = fs(T[e], lo, la, al)
                one = cache[ck] = [float(x) for x in one]
            if len(full) != len(one):
                bad.append(("arity", 0, list(e), len(full), len(one)))
                return cnt, bad
            for i, (a, s) in enumerate(zip(full, one)):
                cnt += 1
                d = abs(float(a[e]) - s)
                if wrap and wrap[i]:
                    d = min(d, abs(d - wrap[i]))
                if not d <= 1e-6:
                    bad.append(("array_vs_scalar", i, list(e), float(a[e]), s))
                    return cnt, bad
    return cnt, bad


# ------------------------------------------------------------------ oracle (6): shapes that coincide ambiguously
# [times, lon, lat, alt] shapes as functions of one length N: every axis is N or 1, so that numpy's rule (align the LAST
# axes) is the only thing that says which axis of one argument goes with which axis of another
AMBIGUOUS = [
    lambda n: [(n,), (n, n), (n, n), (n, n)],              # 1-d times with a square grid: times run along the LAST axis
    lambda n: [(n,), (n, 1), (n, 1), (n, 1)],
    lambda n: [(n,), (1, n), (1, n), (1, n)],
    lambda n: [(n,), (n, n, n), (n, n, n), (n, n, n)],
    lambda n: [(n, 1), (n,), (n,), (n,)],
    lambda n: [(n, n), (n,), (n,), (n,)],
    lambda n: [(1, n), (n, 1), (n, 1), (n, 1)],
    lambda n: [(n,), (n, n), (n,), ()],
    lambda n: [(n,), (n, 1), (1, n), (n,)],
    lambda n: [(n, n), (n, 1), (n,), (n, n)],
    lambda n: [(n,), (n, n, 1), (n, 1, n), (1, n)],
    lambda n: [(n, 1, 1), (n,), (n, n), ()],
    lambda n: [(n,), (n, n), (n, n), ()],
]


def random_shapes(rng):
    """[times, lon, lat, alt] shapes: trailing parts of one (K, N, M) with axes replaced by 1 at random (always
    broadcast-compatible); K, N, M in 2..4 and mostly equal."""
    if rng.random() < 0.6:
        dims = (rng.choice([2, 3, 4]),) * 3
    else:
        dims = tuple(rng.choice([2, 3, 4]) for _ in range(3))
    out = []
    for k in range(4):
        r = rng.choice([1, 1, 2, 2, 3] if k == 0 else [0, 1, 1, 2, 2, 2, 3])
        out.append(tuple(1 if rng.random() < 0.25 else d for d in dims[3 - r:]))
    if all(d == 1 for d in out[0]):
        out[0] = dims[2:]
    return out


def check_shapes(o, name, kind, shapes, times_us, lons, lats, alts):
    """Array call of `name` with times / lon / lat / alt of the given (broadcast-compatible) shapes vs the scalar calls on
    the elements numpy's broadcasting pairs (np.broadcast_arrays of the inputs), 1e-6 of the unit, angles modulo a turn.
    kind: 'us' (datetime64[us] array) or 'obj' (object array of datetimes). Returns (n_compared, [violations])."""
    fa, fs, needs_coords, wrap, pos_layout = broadcast_calls(o)[name]
    shapes = [tuple(s) for s in shapes]

    def arg(vals, shape):
        n = int(np.prod(shape)) if shape else 1
        return float(vals[0]) if shape == () else np.array(vals[:n], dtype=float).reshape(shape)
    nt = int(np.prod(shapes[0]))
    ts = np.empty(nt, dtype=object)
    for k in range(nt):
        ts[k] = EPOCH70 + dt.timedelta(microseconds=int(times_us[k]))
    ts = ts.reshape(shapes[0])
    T = ts.copy() if kind == "obj" else np.array([np.datetime64(int(u), "us") for u in times_us[:nt]]).reshape(shapes[0])
    lo, la, al = (arg(v, s) for v, s in zip((lons, lats, alts), shapes[1:]))
    if name in ("sun_zenith_angle", "cos_zen", "get_alt_az"):
        al = 0.0                                                    # these take no altitude
    tb, lob, lab, alb = np.broadcast_arrays(ts, lo, la, al)         # numpy's own rule: which elements go together
    common = tb.shape
    bad = []
    cnt = 0
    with warnings.catch_warnings():
        warnings.simplefilter("ignore")
        arr = fa(T, lo, la, al)
        if pos_layout:
            arr = [c for block in arr for c in np.asarray(block)]
        full = []
        for i, a in enumerate(arr):
            try:
                full.append(np.broadcast_to(np.asarray(a, dtype=float), common))
            except ValueError:
                return cnt + 1, [("shape", i, [], list(np.shape(a)), "broadcastable to %s" % list(common))]
        if tuple(np.shape(arr[0])) != common:
            return cnt + 1, [("shape", 0, [], list(np.shape(arr[0])), list(common))]
        for idx in np.ndindex(common):
            one = fs(tb[idx], float(lob[idx]), float(lab[idx]), float(alb[idx]))
            if len(full) != len(one):
                bad.append(("arity", 0, list(idx), len(full), len(one)))
                return cnt, bad
            for i, (a, s) in enumerate(zip(full, one)):
                cnt += 1
                d = abs(float(a[idx]) - float(s))
                if wrap and wrap[i]:
                    d = min(d, abs(d - wrap[i]))
                if not d <= 1e-6:
                    bad.append(("array_vs_scalar", i, list(idx), float(a[idx]), float(s)))
                    return cnt, bad
    return cnt, bad


# ------------------------------------------------------------------ oracle (7): every integer type at its real values
INT_TYPES = ["pyint", "int64", "uint64", "int32", "uint32", "int16", "uint16", "int8", "uint8", "float16"]
INT_CONTAINERS = ["scalar", "arr0", "arr1", "arr2", "dask1"]
INT_TIMES = ["datetime", "dt64us", "dtarr"]


def int_values(rng, tname, n):
    """n (lon, lat, alt) triples the type can hold: longitudes in -180..359 (both conventions), at least one above 180 and,
    for signed types, at least one negative where the type has them; whole numbers (float16: any float16 value)."""
    if tname == "float16":
        lo = [float(np.float16(rng.uniform(-180, 359))) for _ in range(n)]
        lo[rng.randrange(n)] = float(np.float16(rng.uniform(181, 359)))
        return lo, [float(np.float16(rng.uniform(-90, 90))) for _ in range(n)], [float(np.float16(rng.uniform(0, 3))) for _ in range(n)]
    info = np.iinfo(np.int64 if tname == "pyint" else np.dtype(tname))
    lo_min, lo_max = max(-180, int(info.min)), min(359, int(info.max))
    lons = [rng.randint(lo_min, lo_max) for _ in range(n)]
    slots = rng.sample(range(n), 3)
    if lo_max > 180:
        lons[slots[0]] = rng.randint(181, lo_max)
    if lo_min < 0:
        lons[slots[1]] = rng.randint(lo_min, -1)
    lons[slots[2]] = rng.randint(max(0, lo_min), min(180, lo_max))
    lats = [rng.randint(max(-90, int(info.min)), 90) for _ in range(n)]
    alts = [rng.randint(0, 3) for _ in range(n)]
    return lons, lats, alts


def compute_eps(tname):
    """Machine epsilon of the floating type numpy itself computes in when given that type (np.deg2rad's result type:
    float16 for 8-bit integers, float32 for 16-bit ones, float64 otherwise)."""
    if tname == "pyint":
        return float(np.finfo(np.float64).eps)
    return float(np.finfo(np.deg2rad(np.zeros((), dtype=tname)).dtype).eps)


def real_value_tol(fn, i, ref, eps):
    """How far the result for an integer-typed input may be from the float call at the same real numbers: 1e-6 of the unit
    where numpy computes in binary64; for the types numpy computes in float32 / float16 the resolution of that type:
    16 eps on a cosine or sine, carried through the arccos / arcsin / arctan2 by their conditioning at the reference, 16 eps
    of the earth radius / of the rotation speed for the observer's position / velocity."""
    if eps <= float(np.finfo(np.float64).eps):
        return 1e-6 * UNIT[fn]
    d = 16 * eps
    if fn == "cos_zen":
        return d
    if fn == "sun_zenith_angle":
        return math.degrees(2 * d / max(math.sin(math.radians(ref[0])), math.sqrt(d))) + 2 * eps * 180.0
    if fn == "get_alt_az":
        c = math.cos(ref[0])
        if i == 0:
            return 2 * d / max(c, math.sqrt(d)) + eps * math.pi
        return min(math.pi, 2 * d / max(c, 1e-300)) + 2 * eps * math.pi
    if fn == "observer_position":
        return d * (6400.0 if i < 3 else 0.5)
    raise ValueError(fn)


def near_zenith(fn, ref, eps):
    """Reduced-precision types only: the sun is so close to the zenith or the nadir (|cos of the zenith angle| > 1 - 64 eps)
    that sines and cosines rounded to that type may leave [-1, 1]; such elements are not judged."""
    if eps <= float(np.finfo(np.float64).eps) or fn == "observer_position":
        return False
    c = {"cos_zen": lambda: ref[0], "sun_zenith_angle": lambda: math.cos(math.radians(ref[0])), "get_alt_az": lambda: math.sin(ref[0])}[fn]()
    return not abs(c) <= 1 - 64 * eps


def check_inttype(fn, tname, cont, tkind, times_us, lons, lats, alts):
    """One astronomy function given coordinates of one integer type (or float16 / Python int) in one container, values
    incl. longitudes above 180 and negative numbers: every element vs the float call at the same real numbers
    (real_value_tol), scalars give scalars, the result has the broadcast shape, nothing raises.
    Returns (n_compared, [(kind, detail, observed, required)])."""
    import dask.array as da
    n = len(lons)
    ts = [EPOCH70 + dt.timedelta(microseconds=int(u)) for u in times_us]
    eps = compute_eps(tname)

    def one(v):
        return int(v) if tname == "pyint" else np.dtype(tname).type(v)

    def pack(vals):
        if cont == "arr0":
            return np.array(vals[0], dtype=tname)
        a = np.array(vals, dtype=tname)
        if cont == "arr2":
            return a.reshape(2, n // 2)
        return da.from_array(a, chunks=a.shape) if cont == "dask1" else a
    if cont == "scalar":
        calls = [(k, one(lons[k]), one(lats[k]), one(alts[k]), [lons[k]], [lats[k]], [alts[k]], ()) for k in range(n)]
    else:
        cshape = {"arr0": (), "arr1": (n,), "arr2": (2, n // 2), "dask1": (n,)}[cont]
        m = int(np.prod(cshape)) if cshape else 1
        calls = [(0, pack(lons), pack(lats), pack(alts), lons[:m], lats[:m], alts[:m], cshape)]
    bad = []
    cnt = 0
    with warnings.catch_warnings():
        warnings.simplefilter("ignore")
        for k, lo, la, al, lo_r, la_r, al_r, cshape in calls:
            if tkind == "dtarr":
                tshape = cshape if cshape else (n,)
                tt = np.empty(int(np.prod(tshape)), dtype=object)
                tt[:] = ts[:len(tt)]
                tt = tt.reshape(tshape)
                T = np.array([np.datetime64(int(u), "us") for u in times_us[:tt.size]]).reshape(tshape)
            else:
                tt = np.empty((), dtype=object)
                tt[()] = ts[k]
                T = ts[k] if tkind == "datetime" else np.datetime64(int(times_us[k]), "us")
            where = {"call": k}
            try:
                res = call(fn, T, lo, la, al)
                if cont == "dask1":
                    import dask
                    res = list(dask.compute(*res, scheduler="synchronous"))
            except Exception as e:  # noqa
                bad.append(("raises", where, type(e).__name__ + ": " + str(e)[:120], "a result"))
                return cnt + 1, bad
            tb, lob, lab, alb = np.broadcast_arrays(tt, *(np.array(v, dtype=float).reshape(cshape) for v in (lo_r, la_r, al_r)))
            common = tb.shape
            for i, x in enumerate(res):
                w = dict(where, index=i)
                if cont == "scalar" and tkind != "dtarr" and not (isinstance(x, np.generic) or type(x) is float):
                    bad.append(("scalar_in_not_scalar_out", w, descr(x), "a scalar"))
                    return cnt + 1, bad
                try:
                    xv = np.broadcast_to(np.asarray(x, dtype=np.float64), common)
                    ok = i != 0 or tuple(np.shape(x)) == common
                except ValueError:
                    ok = False
                if not ok:
                    bad.append(("shape", w, list(np.shape(x)), "broadcastable to %s%s" % (list(common), ", equal for the first component" if i == 0 else "")))
                    return cnt + 1, bad
            for idx in np.ndindex(common):
                ref = [float(r) for r in call(fn, tb[idx], float(lob[idx]), float(lab[idx]), float(alb[idx]))]
                if near_zenith(fn, ref, eps):
                    continue
                for i, x in enumerate(res):
                    cnt += 1
                    got = float(np.broadcast_to(np.asarray(x, dtype=np.float64), common)[idx])
                    if not angle_diff(fn, i, got, ref[i]) <= real_value_tol(fn, i, ref, eps):
                        bad.append(("not_at_real_value", dict(where, index=i, element=list(idx), lon=float(lob[idx]), lat=float(lab[idx]),
                                                              alt=float(alb[idx])), got, ref[i]))
                        return cnt, bad
    return cnt, bad


# ------------------------------------------------------------------ oracle (4): sequences reusing one array object
SEQ_OPS = ["pos_n", "pos_km", "lla", "look", "modlook", "sza", "alt_az", "obs", "gmst"]
FIXED_SEQ = ["pos_n", "lla", "pos_km", "shift:60", "lla", "pos_km", "pos_n", "look", "cshift:0.5", "look", "obs", "shift:-17", "sza", "pos_n", "pos_n"]


def random_sequence(ctx, other=False):
    ops = []
    for _ in range(ctx.rng.randrange(5, 11)):
        r = ctx.rng.random()
        if other and ctx.rng.random() < 0.3:
            ops.append(ctx.rng.choice(["o:pos_n", "o:pos_km", "o:pos_km", "o:lla", "o:look"]))   # arrays of the same shape, another satellite
        elif r < 0.2:
            ops.append("shift:%d" % ctx.rng.choice([1, -1, 37, 60, -90, 600]))
        elif r < 0.27:
            ops.append("cshift:%s" % ctx.rng.choice(["0.25", "-0.5", "1.0"]))
        elif r < 0.75:
            ops.append(ctx.rng.choice(["pos_n", "pos_km", "lla"]))
        else:
            ops.append(ctx.rng.choice(SEQ_OPS))
    return ops


def run_sequence(line1, line2, tshape, times_us, lons, lats, alts, ops, other=None):
    """Consecutive array-taking queries on ONE Orbital object, all given the SAME ndarray of times (and the same
    longitude / latitude / altitude arrays), with in-place shifts of those arrays in between.  Every result is compared
    with the scalar calls for the instants the array holds at that moment, made on a second object that only ever sees
    scalars (1e-6 of the unit, angles modulo a turn).  The caller KEEPS the arrays it was given: after every later array
    call (all have the same shape) and at the end, every kept result is compared again with the scalar values of its own
    call.  Ops "o:<op>" are the same queries on ANOTHER satellite (other = [line1, line2, whole seconds between the epochs]) for
    arrays of the same shape.
    Returns (comparisons, [(step, op, component, element, got, want)])."""
    from pyorbital import astronomy, orbital
    sat = orbital.Orbital("x", line1=line1, line2=line2)
    ref = orbital.Orbital("x", line1=line1, line2=line2)
    if other:
        sat_o = orbital.Orbital("y", line1=other[0], line2=other[1])
        ref_o = orbital.Orbital("y", line1=other[0], line2=other[1])
        # the other satellite is asked for the instants of T moved by a whole number of seconds (the distance between the two
        # epochs: both satellites are then equally far from their own epoch); arrays of the same shape
        off = np.timedelta64(int(other[2]) if len(other) > 2 else 0, "s")
        offdt = dt.timedelta(seconds=int(other[2]) if len(other) > 2 else 0)
    T = np.array([np.datetime64(int(u), "us") for u in times_us]).reshape(tshape)
    n = int(np.prod(tshape))
    lo, la, al = (np.array(v[:n], dtype=float).reshape(tshape) for v in (lons, lats, alts))
    held = []          # (step, op, the returned arrays themselves, wrap, {element: scalar values at the time of the call})

    def recheck(upto, after):
        """the kept results of the steps before `upto`, element by element, against the scalar values of their own call"""
        c = 0
        for hstep, hop, harr, hwrap, hwant in held:
            if hstep >= upto:
                continue
            for idx, one in hwant.items():
                for i, (a, sc) in enumerate(zip(harr, one)):
                    c += 1
                    got = float(np.broadcast_to(np.asarray(a, dtype=float), tshape)[idx])
                    d = abs(got - float(sc))
                    if hwrap and hwrap[i]:
                        d = min(d, abs(d - hwrap[i]))
                    if not d <= 1e-6:
                        return c, [(hstep, "%s (result kept by the caller, read again after %s)" % (hop, after), i, list(idx), got, float(sc))]
        return c, []
    calls = {
        "pos_n": (lambda: [c for blk in sat.get_position(T) for c in np.asarray(blk)],
                  lambda t, a, b, c: flat(tuple(tuple(v) for v in ref.get_position(t))), None),
        "pos_km": (lambda: [c for blk in sat.get_position(T, normalize=False) for c in np.asarray(blk)],
                   lambda t, a, b, c: flat(tuple(tuple(v) for v in ref.get_position(t, normalize=False))), None),
        "lla": (lambda: flat(sat.get_lonlatalt(T)), lambda t, a, b, c: flat(ref.get_lonlatalt(t)), [360.0, None, None]),
        "look": (lambda: flat(sat.get_observer_look(T, lo, la, al)), lambda t, a, b, c: flat(ref.get_observer_look(t, a, b, c)), [360.0, None]),
        "modlook": (lambda: flat(orbital.get_observer_look(lo + 1.0, la / 2.0, al * 0 + 800.0, T, lo, la, al)),
                    lambda t, a, b, c: flat(orbital.get_observer_look(a + 1.0, b / 2.0, 800.0, t, a, b, c)), [360.0, None]),
        "sza": (lambda: [astronomy.sun_zenith_angle(T, lo, la)], lambda t, a, b, c: [astronomy.sun_zenith_angle(t, a, b)], None),
        "alt_az": (lambda: flat(astronomy.get_alt_az(T, lo, la)), lambda t, a, b, c: flat(astronomy.get_alt_az(t, a, b)), [None, 2 * math.pi]),
        "obs": (lambda: flat(astronomy.observer_position(T, lo, la, al)), lambda t, a, b, c: flat(astronomy.observer_position(t, a, b, c)), None),
        "gmst": (lambda: [astronomy.gmst(T)], lambda t, a, b, c: [astronomy.gmst(t)], [2 * math.pi]),
    }
    if other:
        calls.update({
            "o:pos_n": (lambda: [c for blk in sat_o.get_position(T + off) for c in np.asarray(blk)],
                        lambda t, a, b, c: flat(tuple(tuple(v) for v in ref_o.get_position(t + offdt))), None),
            "o:pos_km": (lambda: [c for blk in sat_o.get_position(T + off, normalize=False) for c in np.asarray(blk)],
                         lambda t, a, b, c: flat(tuple(tuple(v) for v in ref_o.get_position(t + offdt, normalize=False))), None),
            "o:lla": (lambda: flat(sat_o.get_lonlatalt(T + off)), lambda t, a, b, c: flat(ref_o.get_lonlatalt(t + offdt)), [360.0, None, None]),
            "o:look": (lambda: flat(sat_o.get_observer_look(T + off, lo, la, al)),
                       lambda t, a, b, c: flat(ref_o.get_observer_look(t + offdt, a, b, c)), [360.0, None]),
        })
    bad = []
    cnt = 0
    with warnings.catch_warnings():
        warnings.simplefilter("ignore")
        for step, op in enumerate(ops):
            if op.startswith("shift:"):
                T += np.timedelta64(int(op[6:]), "s")       # in place: the same array object, new instants
                continue
            if op.startswith("cshift:"):
                lo += float(op[7:])                         # in place
                la *= 0.999
                continue
            fa, fs, wrap = calls[op]
            try:
                arr = fa()
            except Exception as e:  # noqa
                bad.append((step, op, 0, [], type(e).__name__ + ": " + str(e)[:120], "a result"))
                return cnt, bad
            snap = [np.array(np.broadcast_to(np.asarray(a, dtype=float), tshape)) for a in arr]
            want = {}
            for idx in np.ndindex(tshape):
                tt = T[idx].astype("datetime64[us]").item()
                one = fs(tt, float(lo[idx]), float(la[idx]), float(al[idx]))
                if len(one) != len(snap):
                    bad.append((step, op, 0, list(idx), len(snap), len(one)))
                    return cnt, bad
                want[idx] = [float(v) for v in one]
                for i, (a, sc) in enumerate(zip(snap, one)):
                    cnt += 1
                    d = abs(float(a[idx]) - float(sc))
                    if wrap and wrap[i]:
                        d = min(d, abs(d - wrap[i]))
                    if not d <= 1e-6:
                        bad.append((step, op, i, list(idx), float(a[idx]), float(sc)))
                        return cnt, bad
            held.append((step, op, arr, wrap, want))
            c, b = recheck(step, "step %d (%s)" % (step, op))
            cnt += c
            if b:
                return cnt, b
    return cnt, bad


def oracle(ctx):
    t0 = base_instant(ctx)
    # (1) the statement's clauses on the complete product
    for fn in FNS:
        for tk in TIME_KINDS:
            for ck in (COORD_KINDS if fn in COORD_FNS else ["pyfloat"]):
                ctx.count("eval_oracle_kinds")
                for kind, detail, obs, req in check_cell(fn, tk, ck, t0):
                    ctx.violation(kind, dict({"check": "kind", "fn": fn, "time": tk, "coord": ck, "t0": t0.isoformat()}, **detail),
                                  obs, req, site="astronomy." + fn)
    # (2) one instant, every representation: bit-identical
    objs = orbit_pool(ctx, ctx.size(4, 16), ctx.size(4, 16))
    for k in range(ctx.size(300, 20000)):
        a_, b_, o = objs[k % len(objs)]
        us_off = ctx.rng.randrange(-30 * 86400 * 10 ** 6, 30 * 86400 * 10 ** 6)
        t = (o.tle.epoch.astype(dt.datetime) + dt.timedelta(microseconds=us_off))
        r = ctx.rng.random()
        if r < 0.15:
            t = t.replace(second=0, microsecond=0)
        elif r < 0.5:
            t = t.replace(microsecond=0)
        elif r < 0.6:
            t = t.replace(microsecond=(t.microsecond // 1000) * 1000)
        if not sane(o, t):
            continue
        lon, lat, alt = ctx.rng.uniform(-180, 180), ctx.rng.uniform(-90, 90), ctx.rng.uniform(0, 2)
        us, n, bad = check_repr(o, t, lon, lat, alt)
        ctx.count("eval_oracle_repr", n)
        ctx.distinct(("repr", us))
        for name, rk, got, ref in bad:
            ctx.violation("representation_not_bit_identical",
                          {"check": "repr", "fn": name, "utc": t.isoformat(), "repr": rk, "line1": a_, "line2": b_, "lon": lon, "lat": lat, "alt": alt},
                          got, ref, site=name)
    # (3) arrays vs scalar calls after broadcasting, 1e-6 of the unit
    names = list(broadcast_calls(objs[0][2]))
    for k in range(ctx.size(32, 1500)):
        a_, b_, o = objs[k % len(objs)]
        ts = sane_times(ctx, o, 6, 3.0)
        if len(ts) < 6:
            continue
        times_us = [int((t - EPOCH70) / dt.timedelta(microseconds=1)) for t in ts]
        lons = [ctx.rng.uniform(-180, 180) for _ in ts]
        lats = [ctx.rng.uniform(-90, 90) for _ in ts]
        alts = [ctx.rng.uniform(0, 2) for _ in ts]
        variant = list(VARIANTS)[k % len(VARIANTS)]
        # every second case: the results are kept across the same array call a little later and one for another satellite
        then = None
        if (k // len(VARIANTS)) % 2 == 1:
            shift = ctx.rng.choice([1, 37, 97, 600, -600])
            if all(sane(o, t + dt.timedelta(seconds=shift)) for t in ts):
                then = {"shift_s": shift, "other": None}
                oa, ob, oo = objs[(k + 1) % len(objs)]
                off_s = epoch_offset_s(o, oo)
                if (oa, ob) != (a_, b_) and all(sane(oo, t + dt.timedelta(seconds=off_s)) for t in ts):
                    then["other"] = [oa, ob, off_s]
        for name in names:
            try:
                n, bad = check_broadcast(o, name, variant, times_us, lons, lats, alts, then)
            except Exception as e:  # noqa
                n, bad = 1, [("raises", 0, [], type(e).__name__ + ": " + str(e)[:120], "a result")]
            ctx.count("eval_oracle_broadcast", n)
            ctx.bump("broadcast_variant", variant)
            ctx.bump("broadcast_results_kept", "across a later call" + (" and another satellite's" if then and then["other"] else "")
                     if then else "compared when returned")
            ctx.distinct(("bc", name, variant, a_[2:7], times_us[0]))
            for kind, i, idx, got, ref in bad:
                ctx.violation(kind, {"check": "broadcast", "fn": name, "variant": variant, "line1": a_, "line2": b_, "times_us": times_us,
                                     "lons": lons, "lats": lats, "alts": alts, "then": then, "component": i, "element": idx},
                              got, ref, site=name)


    # (4) sequences of array-taking queries on one Orbital object reusing one time array (and one lon/lat/alt array) object
    for k in range(ctx.size(24, 600)):
        a_, b_, o = objs[k % len(objs)]
        tshape = [(6,), (2, 3)][k % 2]
        ts = sane_times(ctx, o, 6, 3.0)
        if len(ts) < 6:
            continue
        if k % 3 == 0:
            # a swath: one start instant, regular spacing
            ts = [ts[0] + dt.timedelta(seconds=37 * i) for i in range(6)]
        times_us = [int((t - EPOCH70) / dt.timedelta(microseconds=1)) for t in ts]
        lons = [ctx.rng.uniform(-179, 179) for _ in ts]
        lats = [ctx.rng.uniform(-89, 89) for _ in ts]
        alts = [ctx.rng.uniform(0, 2) for _ in ts]
        # every second sequence: some of the queries go to ANOTHER satellite (time arrays of the same shape, as far from its epoch)
        other = None
        if k % 2 == 1 or k >= 2 and k % 4 == 0:
            oa, ob, oo = objs[(k + 1 + ctx.rng.randrange(len(objs) - 1)) % len(objs)] if len(objs) > 1 else objs[0]
            off_s = epoch_offset_s(o, oo)
            if (oa, ob) != (a_, b_) and all(sane(oo, t + dt.timedelta(seconds=off_s + s_)) for t in ts for s_ in (-3600, 0, 3600)):
                other = [oa, ob, off_s]
        ops = FIXED_SEQ if k < 2 else random_sequence(ctx, other is not None)
        if k == 1 and other:
            ops = [("o:" + op_ if j % 3 == 1 and op_ in ("pos_n", "pos_km", "lla", "look") else op_) for j, op_ in enumerate(FIXED_SEQ)]
        n, bad = run_sequence(a_, b_, tshape, times_us, lons, lats, alts, ops, other)
        ctx.count("eval_oracle_sequence", n)
        ctx.bump("sequence_length", len(ops))
        ctx.bump("sequence_satellites", "two satellites" if other else "one satellite")
        ctx.distinct(("seq", a_[2:7], times_us[0], " ".join(ops)))
        for step, op, i, idx, got, ref in bad:
            ctx.violation("array_vs_scalar_in_sequence",
                          {"check": "sequence", "line1": a_, "line2": b_, "tshape": list(tshape), "times_us": times_us, "lons": lons,
                           "lats": lats, "alts": alts, "ops": list(ops), "other": other, "step": step, "op": op, "component": i,
                           "element": idx},
                          got, ref, site="Orbital (sequence of queries): " + op)


    # (5) shapes of variation of the time array: every function that takes times x time kind x 1-d / 2-d x pattern
    names = list(broadcast_calls(objs[0][2]))
    for k in range(ctx.size(4, 60)):
        a_, b_, o = objs[(k * 3 + 1) % len(objs)]
        shapes = {1: ctx.rng.choice(TS_SHAPES[1]), 2: ctx.rng.choice(TS_SHAPES[2])}
        nmax = max(int(np.prod(s)) for s in shapes.values())
        mode = k % 3
        if mode == 0:
            # a track: one start instant, regular spacing (seconds to minutes)
            start = sane_times(ctx, o, 1, 3.0)
            step = ctx.rng.choice([1.0, 37.0, 600.0])
            ts = [start[0] + dt.timedelta(seconds=step * i) for i in range(nmax)] if start else []
            ts = ts if all(sane(o, t) for t in ts) else []
        else:
            ts = sane_times(ctx, o, nmax, 3.0 if mode == 1 else 0.1)
        if len(ts) < nmax:
            continue
        if ctx.rng.random() < 0.5:
            ts = [t.replace(microsecond=0) for t in ts]
        base_all = sorted(set(int((t - EPOCH70) / dt.timedelta(microseconds=1)) for t in ts))
        if len(base_all) < nmax:
            continue
        lons = [ctx.rng.uniform(-180, 180) for _ in base_all]
        lats = [ctx.rng.uniform(-90, 90) for _ in base_all]
        alts = [ctx.rng.uniform(0, 2) for _ in base_all]
        cache = {}
        for rank in (1, 2):
            shape = shapes[rank]
            n = int(np.prod(shape))
            base_us = base_all[:n]
            for pattern in TS_PATTERNS:
                index = ts_index(pattern, n, ctx.rng, lons)
                layout = "C" if rank == 1 else ctx.rng.choice("CF")
                for kind in TS_KINDS:
                    for name in names:
                        for coords in (("elementwise", "scalar") if broadcast_calls(o)[name][2] else ("-",)):
                            try:
                                cnt, bad = check_timeshape(o, name, kind, shape, layout, coords, base_us, index, lons, lats, alts, cache)
                            except Exception as e:  # noqa
                                cnt, bad = 1, [("raises", 0, [], type(e).__name__ + ": " + str(e)[:120], "a result")]
                            ctx.count("eval_oracle_timeshape", cnt)
                            ctx.bump("timeshape_pattern", pattern)
                            ctx.distinct(("ts", name, kind, rank, pattern, coords, a_[2:7], base_us[0]))
                            for vkind, i, idx, got, ref in bad:
                                ctx.violation(vkind, {"check": "timeshape", "fn": name, "time_kind": kind, "shape": list(shape),
                                                      "layout": layout, "pattern": pattern, "coords": coords, "line1": a_, "line2": b_,
                                                      "base_us": base_us, "index": index, "lons": lons[:n], "lats": lats[:n],
                                                      "alts": alts[:n], "component": i, "element": idx}, got, ref, site=name)

    # (6) shapes that coincide ambiguously: numpy's broadcasting rule alone says which elements go together
    names = [nm for nm, c in broadcast_calls(objs[0][2]).items() if c[2]]
    n_rand = ctx.size(14, 500)
    for k in range(len(AMBIGUOUS) * ctx.size(1, 6) + n_rand):
        a_, b_, o = objs[(k * 5 + 2) % len(objs)]
        if k >= n_rand:
            shapes = AMBIGUOUS[(k - n_rand) % len(AMBIGUOUS)](ctx.rng.choice([2, 3, 4]))
        else:
            shapes = random_shapes(ctx.rng)
        kind = "obj" if ctx.rng.random() < 0.4 else "us"
        nt = int(np.prod(shapes[0]))
        nc = max(int(np.prod(s)) if s else 1 for s in shapes[1:])
        ts = sane_times(ctx, o, nt, 3.0)
        if len(ts) < nt:
            continue
        times_us = [int((t - EPOCH70) / dt.timedelta(microseconds=1)) for t in ts]
        lons = [ctx.rng.uniform(-180, 180) for _ in range(nc)]
        lats = [ctx.rng.uniform(-90, 90) for _ in range(nc)]
        alts = [ctx.rng.uniform(0, 2) for _ in range(nc)]
        for name in names:
            try:
                n, bad = check_shapes(o, name, kind, shapes, times_us, lons, lats, alts)
            except Exception as e:  # noqa
                n, bad = 1, [("raises", 0, [], type(e).__name__ + ": " + str(e)[:120], "a result")]
            ctx.count("eval_oracle_shapes", n)
            ctx.bump("ambiguous_shapes", "fixed" if k >= n_rand else "random")
            ctx.distinct(("shapes", name, str(shapes), kind, a_[2:7], times_us[0]))
            for vkind, i, idx, got, ref in bad:
                ctx.violation(vkind, {"check": "shapes", "fn": name, "time_kind": kind, "shapes": [list(s) for s in shapes], "line1": a_,
                                      "line2": b_, "times_us": times_us, "lons": lons, "lats": lats, "alts": alts, "component": i,
                                      "element": idx}, got, ref, site=name)

    # (7) every integer type (signed, unsigned, Python int; float16) in every container at its real values: complete product
    for rnd in range(ctx.size(1, 8)):
        for fn in COORD_FNS:
            for tname in INT_TYPES:
                for cont in (["scalar"] if tname == "pyint" else INT_CONTAINERS):
                    for tkind in INT_TIMES:
                        lons, lats, alts = int_values(ctx.rng, tname, 6)
                        first = ctx.rng.randrange(631152000, 2208988800) * 10 ** 6 + ctx.rng.choice([0, ctx.rng.randrange(10 ** 6)])
                        times_us = [first + ctx.rng.randrange(0, 86400 * 10 ** 6) * j for j in range(6)]
                        try:
                            n, bad = check_inttype(fn, tname, cont, tkind, times_us, lons, lats, alts)
                        except Exception as e:  # noqa
                            n, bad = 1, [("raises", {}, type(e).__name__ + ": " + str(e)[:120], "a result")]
                        ctx.count("eval_oracle_inttypes", n)
                        ctx.bump("integer_type", tname)
                        ctx.distinct(("inttype", fn, tname, cont, tkind, times_us[0]))
                        for vkind, detail, got, ref in bad:
                            ctx.violation(vkind, dict({"check": "inttype", "fn": fn, "type": tname, "container": cont, "time": tkind,
                                                       "times_us": times_us, "lons": lons, "lats": lats, "alts": alts}, **detail),
                                          got, ref, site="astronomy." + fn)


def match_known(entry, v):
    return False


def replay(ctx, case):
    from pyorbital import orbital
    inp = case.get("input", case)
    if case.get("no_failing_input_found"):
        # a tie broke without a failing input: re-evaluate the recorded correspondence disagreements on this tree
        still = 0
        tracer = Tracer()
        for d in case.get("first_disagreements", []):
            c = d["case"]
            with warnings.catch_warnings():
                warnings.simplefilter("ignore")
                if d["op"] == "c08kind":
                    got = observe(c["fn"], c["time"], c["coord"], dt.datetime.fromisoformat(c["t0"]), tracer)
                    same = got == d["model"]
                elif d["op"] == "c08op":
                    got = sorted(impl_op(c["op"], av_value(c["a"]), av_value(c["b"]) if c.get("b") else None))
                    same = got == [d["model"]]
                else:
                    print("recorded disagreement:", d["op"], c)
                    continue
            print(d["op"], c, "implementation:", got, "model:", d["model"], "->", "agree" if same else "DISAGREE")
            still += 0 if same else 1
        for b in case.get("broken", []):
            print("broken:", b.get("stage"), str(b.get("detail"))[:300])
        return 1 if still else 0
    chk = inp.get("check")
    if chk == "kind":
        bad = check_cell(inp["fn"], inp["time"], inp["coord"], dt.datetime.fromisoformat(inp["t0"]))
        for b in bad:
            print("violation:", b)
        print("cell", inp["fn"], inp["time"], inp["coord"], "->", "%d violation(s)" % len(bad))
        return 1 if bad else 0
    if chk == "inttype":
        try:
            n, bad = check_inttype(inp["fn"], inp["type"], inp["container"], inp["time"], inp["times_us"], inp["lons"], inp["lats"], inp["alts"])
        except Exception as e:  # noqa
            n, bad = 1, [("raises", {}, type(e).__name__ + ": " + str(e)[:120], "a result")]
        for b in bad:
            print("violation:", b)
        print(inp["fn"], inp["type"], inp["container"], inp["time"], "lon", inp["lons"], "lat", inp["lats"], "->",
              "%d violation(s) in %d comparisons with the float calls" % (len(bad), n))
        return 1 if bad else 0
    o = orbital.Orbital("x", line1=inp["line1"], line2=inp["line2"])
    if chk == "shapes":
        try:
            n, bad = check_shapes(o, inp["fn"], inp["time_kind"], inp["shapes"], inp["times_us"], inp["lons"], inp["lats"], inp["alts"])
        except Exception as e:  # noqa
            n, bad = 1, [("raises", type(e).__name__ + ": " + str(e)[:120])]
        for b in bad:
            print("violation:", b)
        print(inp["fn"], "times / lon / lat / alt shapes", inp["shapes"], "->", "%d violation(s) in %d comparisons" % (len(bad), n))
        return 1 if bad else 0
    if chk == "repr":
        us, n, bad = check_repr(o, dt.datetime.fromisoformat(inp["utc"]), inp["lon"], inp["lat"], inp["alt"], only=inp["fn"])
        for b in bad:
            print("not bit-identical:", b)
        print(inp["fn"], inp["utc"], "->", "%d of %d representations differ" % (len(bad), n))
        return 1 if bad else 0
    if chk == "sequence":
        n, bad = run_sequence(inp["line1"], inp["line2"], tuple(inp["tshape"]), inp["times_us"], inp["lons"], inp["lats"], inp["alts"], inp["ops"],
                              inp.get("other"))
        for b in bad:
            print("violation: step %d (%s) component %d element %s: array %r, scalar call %r" % b)
        print("sequence", " ".join(inp["ops"]), "->", "%d violation(s) in %d comparisons" % (len(bad), n))
        return 1 if bad else 0
    if chk == "timeshape":
        try:
            n, bad = check_timeshape(o, inp["fn"], inp["time_kind"], tuple(inp["shape"]), inp["layout"], inp["coords"], inp["base_us"],
                                     inp["index"], inp["lons"], inp["lats"], inp["alts"])
        except Exception as e:  # noqa
            n, bad = 1, [("raises", type(e).__name__ + ": " + str(e)[:120])]
        for b in bad:
            print("violation:", b)
        print(inp["fn"], inp["time_kind"], inp["shape"], inp["pattern"], "elements hold instants", inp["index"], "->",
              "%d violation(s) in %d comparisons" % (len(bad), n))
        return 1 if bad else 0
    if chk == "broadcast":
        try:
            n, bad = check_broadcast(o, inp["fn"], inp["variant"], inp["times_us"], inp["lons"], inp["lats"], inp["alts"], inp.get("then"))
        except Exception as e:  # noqa
            n, bad = 1, [("raises", type(e).__name__ + ": " + str(e)[:120])]
        for b in bad:
            print("violation:", b)
        print(inp["fn"], inp["variant"], "->", "%d violation(s) in %d comparisons" % (len(bad), n))
        return 1 if bad else 0
    print("unknown case", inp)
    return 0
