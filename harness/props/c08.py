"""C08 — array, scalar, time-type and dtype semantics are uniform across the API."""
import datetime as dt
import math
import warnings

import numpy as np

import lib
import orbits

ID = "C08"
LEAN_TARGETS = ["PV.Props.C08"]
RULE = ("(1) kinds: the COMPLETE product {sun_zenith_angle, cos_zen, get_alt_az, observer_position, gmst, jdays} x time kinds "
        "{datetime, datetime64[s|ms|us|ns], object array, datetime64 array} x coordinate kinds {python int, float, numpy "
        "float64/float32/int64 scalars, 0-d array, 1-d and 2-d float32/float64/int64 arrays, dask float32/float64}: result "
        "container/dtype/rank model vs code (exhaustive); (2) one instant in every time representation: bit-identical "
        "results of every time-dependent entry point; (3) array calls vs the scalar calls after broadcasting (1e-6 of the "
        "unit) for get_position, get_lonlatalt, both look functions, the sun functions, observer_position, gmst, jdays; "
        "distinct = (function, kinds) or (function, instant)")
ASSUMPTIONS = ["dask laziness and xarray wrappers are library behaviour (enumerated by kind, not modelled beyond the kind)",
               "instants are representable in microseconds (datetime resolution); sub-microsecond datetime64[ns] values have no "
               "datetime counterpart to be bit-identical with",
               "the 1e-6 array-vs-scalar bound through the joint loops (np.all exits) relies on the contraction of the "
               "iterations: measured"]
TRUSTED = ["model PV.Model.Kinds (abstract interpretation of the dtype/scalar guards)", "PV.Model.Time (tick arithmetic incl. the ns split)",
           "PV.Model.Joint (np.all loop exits)"]
LEVEL_TEXT = ("Theorems: over the complete finite product of function x time kind x coordinate kind the model's result descriptor "
              "(scalar/ndarray/dask, float32/float64, rank) equals the statement's table (ints at real values, scalars give "
              "scalars, float32 gives float32, dask stays lazy) and is never an error; an instant representable in microseconds "
              "yields the same day-count term in every unit (the ns path adds an exactly-zero remainder term); tick counts "
              "1900-2100 are below 2^53; an element of a joint (np.all) iteration equals its own scalar iterate continued for "
              "k >= 0 further steps, and a stuck (NaN) element blocks the unrepaired exit test but not the repaired one. Tie: "
              "exhaustive enumeration of the kind product against the real functions; bit-identity and array-vs-scalar "
              "agreement measured on sampled instants.")
LEVEL_NOTE = ("Trusted: Lean kernel; hand-written kind model + exhaustive correspondence; numpy/dask casting rules as observed; "
              "the 1e-6 continuation bound is measured.")
TECHNIQUE = "Lean 4 proof (decide over the finite kind product; tick-arithmetic identities; induction on joint iteration) + exhaustive kind correspondence + bit-identity oracle"

COORD_KINDS = ["pyint", "pyfloat", "npf64", "npf32", "npi64", "arr0_f64", "arr1_f32", "arr1_f64", "arr1_i64",
               "arr2_f32", "arr2_f64", "arr2_i64", "dask1_f32", "dask1_f64"]
TIME_KINDS = ["datetime", "dt64s", "dt64ms", "dt64us", "dt64ns", "objarr1", "dtarr1"]
FNS = ["sun_zenith_angle", "cos_zen", "get_alt_az", "observer_position", "gmst", "jdays"]
N1, N2 = 3, 2


def mk_coord(kind, val):
    import dask.array as da
    if kind == "pyint":
        return int(val)
    if kind == "pyfloat":
        return float(val)
    if kind == "npf64":
        return np.float64(val)
    if kind == "npf32":
        return np.float32(val)
    if kind == "npi64":
        return np.int64(val)
    if kind == "arr0_f64":
        return np.array(float(val))
    base = np.linspace(val, val + 2, N1)
    arr = np.tile(base, (N2, 1)) if kind.startswith("arr2") else base
    arr = arr.astype({"f32": "float32", "f64": "float64", "i64": "int64"}[kind.split("_")[1]])
    return da.from_array(arr) if kind.startswith("dask") else arr


def mk_time(kind, t):
    t = t.replace(microsecond=0)
    if kind == "datetime":
        return t
    if kind.startswith("dt64"):
        return np.datetime64(t).astype("datetime64[%s]" % kind[4:])
    if kind == "objarr1":
        return np.array([t] * N1, dtype=object)
    return np.array([np.datetime64(t)] * N1)


def descr(x):
    import dask.array as da
    if isinstance(x, da.Array):
        return "dask:%s:%d" % (x.dtype, x.ndim)
    if isinstance(x, np.ndarray):
        return "ndarray:%s:%d" % (x.dtype, x.ndim)
    if isinstance(x, np.generic):
        return "scalar:%s:0" % x.dtype
    if isinstance(x, float):
        return "scalar:float64:0"
    return "other:%s" % type(x).__name__


def call(fn, t, ck):
    from pyorbital import astronomy
    lon, lat = mk_coord(ck, 10), mk_coord(ck, 40)
    if fn == "observer_position":
        r = astronomy.observer_position(t, lon, lat, mk_coord(ck, 0))
        return list(r[0]) + list(r[1])
    if fn in ("gmst", "jdays"):
        return [getattr(astronomy, fn)(t)]
    r = getattr(astronomy, fn)(t, lon, lat)
    return list(r) if isinstance(r, tuple) else [r]


def spec_descr(fn, tk, ck, i=0):
    """The statement's table, written independently."""
    t_arr = tk in ("objarr1", "dtarr1")
    if fn in ("gmst", "jdays"):
        return "ndarray:float64:1" if t_arr else "scalar:float64:0"
    f32 = ck.endswith("f32")
    dtype = "float32" if f32 else "float64"
    if ck.startswith("dask"):
        rank = 1
        cont = "dask"
    elif ck.startswith("arr2"):
        cont, rank = "ndarray", 2
    elif ck.startswith("arr1"):
        cont, rank = "ndarray", 1
    else:
        cont, rank = ("ndarray", 1) if t_arr else ("scalar", 0)
    return "%s:%s:%d" % (cont, dtype, rank)


def correspond(ctx):
    drv = ctx.driver()
    t0 = dt.datetime(2020, 6, 1, 12)
    lines, exp = [], []
    with warnings.catch_warnings():
        warnings.simplefilter("ignore")
        for fn in FNS:
            for tk in TIME_KINDS:
                t = mk_time(tk, t0)
                for ck in (COORD_KINDS if fn not in ("gmst", "jdays") else ["pyfloat"]):
                    try:
                        got = " ".join(descr(x) for x in call(fn, t, ck))
                    except Exception as e:  # noqa
                        got = "error:" + type(e).__name__
                    lines.append("c08kind %s %s %s" % (fn, tk, ck))
                    exp.append((fn, tk, ck, got))
    outs = drv.run(lines)
    for (fn, tk, ck, got), o in zip(exp, outs):
        ctx.count("eval_corr_kinds")
        ctx.distinct((fn, tk, ck))
        ctx.bump("result_kind", got.split()[0])
        if got != o:
            ctx.disagree("c08kind", {"fn": fn, "time": tk, "coord": ck}, got, o)
    ctx.exhaustive = True
    ctx.sample({"fn": exp[0][0], "time": exp[0][1], "coord": exp[0][2], "result": exp[0][3]})
    # day counts: ns path of the model (whole microseconds + zero remainder) is bit-identical to the us path
    lines, exp = [], []
    from pyorbital import astronomy
    for _ in range(ctx.size(1500, 40000)):
        us = ctx.rng.randrange(-2208988800 * 10 ** 6, 4133980800 * 10 ** 6)
        lines.append("jd us %d" % us)
        lines.append("jd ns %d" % (us * 1000))
        exp.append(us)
    outs = drv.run_parallel(lines)
    for i, us in enumerate(exp):
        ctx.count("eval_corr_ticks")
        a, b = outs[2 * i], outs[2 * i + 1]
        impl = lib.f2h(float(astronomy.jdays2000(np.datetime64(us * 1000, "ns"))))
        if a != b or a != impl:
            ctx.disagree("jd-ns-vs-us", {"us": us}, impl, [a, b])


def bits(x):
    return np.asarray(x, dtype=np.float64).tobytes()


def oracle(ctx):
    from pyorbital import astronomy, orbital
    t0 = dt.datetime(2020, 6, 1, 12)
    # (1) the statement's table on the implementation (complete product)
    with warnings.catch_warnings():
        warnings.simplefilter("ignore")
        for fn in FNS:
            for tk in TIME_KINDS:
                t = mk_time(tk, t0)
                for ck in (COORD_KINDS if fn not in ("gmst", "jdays") else ["pyfloat"]):
                    ctx.count("eval_oracle_kinds")
                    case = {"fn": fn, "time": tk, "coord": ck}
                    try:
                        res = call(fn, t, ck)
                    except Exception as e:  # noqa
                        ctx.violation("raises", case, type(e).__name__ + ": " + str(e)[:100], spec_descr(fn, tk, ck), site="astronomy." + fn)
                        continue
                    want = spec_descr(fn, tk, ck)
                    for i, x in enumerate(res):
                        d = descr(x)
                        if fn == "observer_position" and i == 5:
                            # the constant z-velocity may have a lower rank (it broadcasts); container and dtype must match
                            if d.rsplit(":", 1)[0] != want.rsplit(":", 1)[0]:
                                ctx.violation("result_kind", dict(case, index=i), d, want, site="astronomy." + fn)
                        elif d != want:
                            ctx.violation("result_kind", dict(case, index=i), d, want, site="astronomy." + fn)
                    # values: ints / float32 / arrays are taken at their real values = the float64 scalar call
                    ref = call(fn, mk_time("datetime", t0), "pyfloat")
                    for i, (x, r) in enumerate(zip(res, ref)):
                        xv = np.asarray(x.compute() if hasattr(x, "compute") else x, dtype=np.float64)
                        tol = 2e-3 if ck.endswith("f32") else 1e-9
                        first = float(xv.reshape(-1)[0])
                        if abs(first - float(r)) > tol * max(1.0, abs(float(r))):
                            ctx.violation("value_changed_by_kind", dict(case, index=i), first, float(r), site="astronomy." + fn)
    # (2) one instant, every representation: bit-identical
    objs = orbits.make_orbitals(ctx, ctx.size(4, 20))
    n = ctx.size(250, 8000)
    for k in range(n):
        a_, b_, o = objs[k % len(objs)]
        us_off = ctx.rng.randrange(-30 * 86400 * 10 ** 6, 30 * 86400 * 10 ** 6)
        t = (o.tle.epoch.astype(dt.datetime) + dt.timedelta(microseconds=us_off))
        if ctx.rng.random() < 0.5:
            t = t.replace(microsecond=0)
        if not orbits.answers(o, t):
            continue
        us = int((t - dt.datetime(1970, 1, 1)) / dt.timedelta(microseconds=1))
        reps = {"datetime": t, "dt64us": np.datetime64(us, "us"), "dt64ns": np.datetime64(us * 1000, "ns"),
                "objarr": np.array([t], dtype=object), "dtarr": np.array([np.datetime64(us, "us")])}
        if us % 1000 == 0:
            reps["dt64ms"] = np.datetime64(us // 1000, "ms")
        if us % 10 ** 6 == 0:
            reps["dt64s"] = np.datetime64(us // 10 ** 6, "s")
        lon, lat, alt = ctx.rng.uniform(-180, 180), ctx.rng.uniform(-90, 90), ctx.rng.uniform(0, 2)
        fns = {
            "jdays": lambda r: astronomy.jdays(r),
            "gmst": lambda r: astronomy.gmst(r),
            "sun_zenith_angle": lambda r: astronomy.sun_zenith_angle(r, lon, lat),
            "get_alt_az": lambda r: np.array(astronomy.get_alt_az(r, lon, lat)),
            "observer_position": lambda r: np.array([np.asarray(x, dtype=float).reshape(-1)[0] for x in
                                                     (lambda pv: list(pv[0]) + list(pv[1]))(astronomy.observer_position(r, lon, lat, alt))]),
            "get_position": lambda r: np.array(o.get_position(r, normalize=False)),
            "get_lonlatalt": lambda r: np.array(o.get_lonlatalt(r)),
            "get_observer_look": lambda r: np.array(o.get_observer_look(r, lon, lat, alt)),
            "module_look": lambda r: np.array(orbital.get_observer_look(np.float64(lon + 1), np.float64(lat / 2), np.float64(800.0), r,
                                                                         np.float64(lon), np.float64(lat), np.float64(alt))),
        }
        for name, f in fns.items():
            ctx.count("eval_oracle_repr")
            ref = np.asarray(f(reps["datetime"]), dtype=np.float64).reshape(-1)
            for rk, rv in reps.items():
                if rk == "datetime":
                    continue
                got = np.asarray(f(rv), dtype=np.float64).reshape(-1)
                if got.shape != ref.shape or got.tobytes() != ref.tobytes():
                    ctx.violation("representation_not_bit_identical", {"fn": name, "utc": t.isoformat(), "repr": rk, "line1": a_, "line2": b_,
                                                                       "lon": lon, "lat": lat, "alt": alt},
                                  got.tolist(), ref.tolist(), site=name)
                    break
    # (3) arrays vs scalar calls after broadcasting, 1e-6 of the unit
    for k in range(ctx.size(25, 400)):
        a_, b_, o = objs[k % len(objs)]
        ts = orbits.rand_times(ctx, o, 6, days=3.0)
        if len(ts) < 6:
            continue
        tarr = np.array([np.datetime64(t) for t in ts])
        lons = np.array([ctx.rng.uniform(-180, 180) for _ in ts])
        lats = np.array([ctx.rng.uniform(-90, 90) for _ in ts])
        alts = np.array([ctx.rng.uniform(0, 2) for _ in ts])
        lon2 = np.tile(lons, (2, 1))
        lat2 = np.tile(lats, (2, 1))
        calls = {
            "get_position": (lambda: np.array(o.get_position(tarr, normalize=False)).reshape(6, -1),
                             lambda i: np.array(o.get_position(ts[i], normalize=False)).reshape(6), 7000.0),
            "get_lonlatalt": (lambda: np.array(o.get_lonlatalt(tarr)), lambda i: np.array(o.get_lonlatalt(ts[i])), 1.0),
            "get_observer_look": (lambda: np.array(o.get_observer_look(tarr, lons, lats, alts)),
                                  lambda i: np.array(o.get_observer_look(ts[i], lons[i], lats[i], alts[i])), 1.0),
            "sun_zenith_angle": (lambda: np.array([astronomy.sun_zenith_angle(tarr, lons, lats)]),
                                 lambda i: np.array([astronomy.sun_zenith_angle(ts[i], lons[i], lats[i])]), 1.0),
            "cos_zen_2d": (lambda: np.array([astronomy.cos_zen(tarr, lon2, lat2)[1]]),
                           lambda i: np.array([astronomy.cos_zen(ts[i], lons[i], lats[i])]), 1.0),
            "get_alt_az": (lambda: np.array(astronomy.get_alt_az(tarr, lons, lats)),
                           lambda i: np.array(astronomy.get_alt_az(ts[i], lons[i], lats[i])), 1.0),
            "observer_position": (lambda: np.array([np.broadcast_to(x, (6,)) for x in (lambda pv: list(pv[0]) + list(pv[1]))(astronomy.observer_position(tarr, lons, lats, alts))]),
                                  lambda i: np.array((lambda pv: list(pv[0]) + list(pv[1]))(astronomy.observer_position(ts[i], lons[i], lats[i], alts[i])), dtype=float), 7000.0),
            "gmst": (lambda: np.array([astronomy.gmst(tarr)]), lambda i: np.array([astronomy.gmst(ts[i])]), 1.0),
            "jdays": (lambda: np.array([astronomy.jdays(tarr)]), lambda i: np.array([astronomy.jdays(ts[i])]), 1.0),
        }
        for name, (fa, fs, unit) in calls.items():
            ctx.count("eval_oracle_broadcast")
            arr = fa()
            for i in range(len(ts)):
                one = fs(i)
                col = arr[:, i]
                d = np.abs(col - one)
                if name in ("get_observer_look", "get_alt_az", "get_lonlatalt"):
                    d = np.minimum(d, np.abs(d - 360.0)) if name != "get_alt_az" else np.minimum(d, np.abs(d - 2 * math.pi))
                if not np.all(d <= 1e-6 * unit):
                    ctx.violation("array_vs_scalar", {"fn": name, "line1": a_, "line2": b_, "utc": ts[i].isoformat(), "index": i,
                                                      "lon": float(lons[i]), "lat": float(lats[i])},
                                  col.tolist(), one.tolist(), site=name)
                    break


def match_known(entry, v):
    return False


def replay(ctx, case):
    print(case.get("input", case))
    return 0
