"""C09 \u2014 corrupted TLE lines are rejected by the modulo-10 checksum."""
import io
import os
import sys
import tempfile
import traceback

import lib
import tlegen

ID = "C09"
LEAN_TARGETS = ["PV.Props.C09"]
# T-D: functions translated from the source by harness/pytrans.py, proved equal to the model (DESIGN section 0)
EQUIV = {"PV.Equiv.TranslatedChecksum": ["checksum_unicode", "checksum_eq", "checksum_eq_outcome", "checksum_none",
                                         "lineCheckU_plain", "exotic_digit_differs", "superscript_differs"],
         "PV.Equiv.TranslatedInit": ["read_tle_lines", "read_tle_lines_ok", "read_tle_source", "init_order",
                                     "init_lines_eq", "init_lines_eq_tleOfLines", "inner_newline_raises"]}
EQUIV.update({"PV.Equiv.TranslatedBulk": ["mapM_first_error", "mapM_ok_all", "parse_damaged_raises", "parse_ok_all", "entry_damaged", "xmlFile_damaged", "read_xml_damaged"]})      # T-D, fifth wave
RULE = ("per TLE the complete single-character corruption table (2 lines x 69 positions x 95 printable ASCII "
        "replacements) through Tle(line1=, line2=); sampled corruptions through a file and a StringIO; "
        "collections of 2-4 entries (with / without name lines, LF / CRLF, one or two files) with exactly one entry "
        "corrupted digit -> other digit, read through every collection-reading entry point (tlefile.read by name from a "
        "path / a StringIO / the TLES pattern, by registered number, Tle('', StringIO), Downloader.read_tle_files, "
        "fetch_plain_tle and fetch_spacetrack with `requests` interposed), the intact collection read from the same path "
        "first; replacements by control / line-boundary / non-ASCII characters (C0, DEL, C1, the ten str.splitlines() "
        "boundaries, Unicode blanks, letters, digits of other scripts) at every column of both lines through Tle(line1=, "
        "line2=), a StringIO by name, a StringIO first entry and a file, judged by 'a corrupted set never yields elements'; "
        "valid TLEs re-issued so that a prefix of a line is itself rule-consistent, cut at that column by every "
        "line-boundary character; a case is non-trivial when the replacement differs from the original character; "
        "distinct = (tle, line, pos, char)")
ASSUMPTIONS = ["model and theorems: input restricted to printable ASCII (Python's Unicode isdigit/strip on non-ASCII is outside "
               "the model); the oracle also replaces by control / line-boundary / non-ASCII characters and demands only that "
               "no elements are returned when the rule fails under the ASCII reading and under Python's Unicode-digit reading",
               "lines are judged after strip(), as the library stores them"]
TRUSTED = ["model: PV.Model.Checksum (hand-written from tlefile.py:195-225), tied by the complete corruption table per TLE"]


def _tlefile():
    from pyorbital import tlefile
    return tlefile


def classify_exc(e, tb):
    """Map an exception of Tle(...) to the model's outcome alphabet."""
    tlefile = _tlefile()
    frames = [f.name for f in traceback.extract_tb(tb)]
    if isinstance(e, tlefile.ChecksumError):
        return "c"
    if "_checksum" in frames and "_parse_tle" not in frames:
        if isinstance(e, ValueError):
            return "v"
        if isinstance(e, IndexError):
            return "i"
        return "?" + type(e).__name__
    if "_parse_tle" in frames:
        return "a"      # checksum accepted; parsing then failed (no elements, but not a checksum matter)
    return "?" + type(e).__name__


def impl_outcome(l1, l2):
    tlefile = _tlefile()
    try:
        tlefile.Tle("x", line1=l1, line2=l2)
        return "a", True
    except Exception as e:  # noqa
        return classify_exc(e, sys.exc_info()[2]), False


def impl_outcome_source(kind, l1, l2, tmpdir):
    tlefile = _tlefile()
    text = "MYSAT\n%s\n%s\n" % (l1, l2)
    try:
        if kind == "file":
            p = os.path.join(tmpdir, "t.tle")
            with open(p, "w", newline="") as f:
                f.write(text)
            tlefile.Tle("mysat", tle_file=p)
        else:
            tlefile.Tle("mysat", tle_file=io.StringIO(text))
        return "a", True
    except Exception as e:  # noqa
        return classify_exc(e, sys.exc_info()[2]), False


def spec_weight(ch):
    return (ord(ch) - 48) if ch in "0123456789" else (1 if ch == "-" else 0)


def spec_good(line):
    """The statement's acceptance rule on a stripped line."""
    return len(line) > 0 and line[-1] in "0123456789" and sum(spec_weight(c) for c in line[:-1]) % 10 == int(line[-1])


def tles(ctx, n):
    out = [(l1, l2) for (_, l1, l2) in tlegen.REAL_TLES[:max(2, n // 3)]]
    while len(out) < n:
        _, l1, l2 = tlegen.random_tle(ctx.rng, "any")
        out.append((l1, l2))
    return out[:n]


LO, HI = 32, 126


def correspond(ctx):
    """Model's complete corruption table vs the implementation's."""
    n = ctx.size(6, 60)
    drv = ctx.driver()
    cases = tles(ctx, n)
    lines = ["c09table %s %s %d %d" % (lib.s2h(a), lib.s2h(b), LO, HI) for a, b in cases]
    outs = drv.run_parallel(lines)
    tmpdir = tempfile.mkdtemp(prefix="pv-c09-")
    try:
        for (l1, l2), tab in zip(cases, outs):
            k = 0
            for which in (1, 2):
                base = l1 if which == 1 else l2
                for i in range(len(base)):
                    for c in range(LO, HI + 1):
                        ch = chr(c)
                        m = tab[k]
                        k += 1
                        mod = base[:i] + ch + base[i + 1:]
                        a, b = (mod, l2) if which == 1 else (l1, mod)
                        got, _ = impl_outcome(a, b)
                        ctx.count("eval_corr")
                        ctx.bump("model_outcome", m)
                        if ch != base[i]:
                            ctx.distinct((l1[2:7], which, i, c))
                        if got != m:
                            ctx.disagree("c09table", {"line1": a, "line2": b, "which": which, "pos": i, "char": ch}, got, m)
                        # sampled source kinds
                        if ctx.rng.random() < 0.004 and ch not in "\r\n":
                            for kind in ("file", "stringio"):
                                g2, _ = impl_outcome_source(kind, a, b, tmpdir)
                                ctx.count("eval_corr_" + kind)
                                exp = m
                                # through a collection the lines are decoded one per physical line; a name line precedes
                                if g2 != exp:
                                    ctx.disagree("c09source", {"kind": kind, "line1": a, "line2": b}, g2, exp)
            ctx.sample({"line1": l1, "line2": l2, "table_len": len(tab), "accepted_cells": tab.count("a")})
    finally:
        import shutil
        shutil.rmtree(tmpdir, ignore_errors=True)


def oracle(ctx):
    """The property on the implementation, from the statement alone."""
    n = ctx.size(4, 40)
    for (l1, l2) in tles(ctx, n):
        got, ok = impl_outcome(l1, l2)
        if not ok:
            ctx.violation("valid_rejected", {"line1": l1, "line2": l2}, got, "accepted", site="Tle.__init__")
            continue
        positions = [(w, i) for w in (1, 2) for i in range(69)]
        for (w, i) in positions:
            base = l1 if w == 1 else l2
            chars = [chr(c) for c in range(LO, HI + 1)]
            if not ctx.intensified and ctx.tier == "quick":
                chars = list("0123456789-+. A")
            for ch in chars:
                if ch == base[i]:
                    continue
                mod = base[:i] + ch + base[i + 1:]
                a, b = (mod, l2) if w == 1 else (l1, mod)
                sa, sb = a.strip(), b.strip()
                should_accept = spec_good(sa) and spec_good(sb)
                got, yielded = impl_outcome(a, b)
                ctx.count("eval_oracle")
                case = {"line1": a, "line2": b, "which": w, "pos": i, "char": ch}
                if not should_accept:
                    if yielded:
                        ctx.violation("corrupt_accepted", case, "elements returned", "rejected", site="Tle._checksum")
                    elif got == "a":
                        ctx.violation("corrupt_passed_checksum", case, "checksum accepted (parse failed later)",
                                      "ChecksumError", site="Tle._checksum")
                    else:
                        # a changed sum must be reported as a checksum error (digit->digit in particular)
                        changed = (sa[-1:].isdigit() and sb[-1:].isdigit())
                        if changed and got != "c":
                            ctx.violation("wrong_error", case, got, "ChecksumError", site="Tle._checksum")
                else:
                    if got != "a":
                        ctx.violation("good_rejected", case, got, "accepted (sum unchanged)", site="Tle._checksum")
        # the same through a file path that is rewritten in place, and through a stream
        mods = []
        for _ in range(ctx.size(30, 200)):
            w, i = ctx.rng.choice(positions)
            base = l1 if w == 1 else l2
            ch = ctx.rng.choice("0123456789-+ A" if base[i] not in "0123456789" else "0123456789")
            if ch == base[i] or ch in "\r\n":
                continue
            mod = base[:i] + ch + base[i + 1:]
            mods.append((mod, l2) if w == 1 else (l1, mod))
        inplace_file_probe(ctx, l1, l2, mods)
    wide_probe(ctx)
    collection_probe(ctx)


# ------------------------------------------------------------------ replacement characters beyond printable ASCII
# "any single-character corruption that changes this sum ... is rejected ... and never yields elements": the clause "never
# yields elements" does not depend on the replacement being printable.  Control characters, the characters str.splitlines()
# treats as line boundaries, Unicode blanks and non-ASCII letters / digits are put at every column of both lines; the only
# demand is that NO ELEMENTS come back (any exception will do) whenever the stripped lines fail the rule - under the ASCII
# reading of "digit" AND under Python's Unicode reading (so a digit of another script standing for the same value, where the
# text leaves the reading open, demands nothing).  A "\n" is not put into files and streams: there it is the framing itself.
LINE_BOUNDARIES = ["\n", "\r", "\x0b", "\x0c", "\x1c", "\x1d", "\x1e", "\x85", "\u2028", "\u2029"]
WIDE_CHARS = (LINE_BOUNDARIES
              + [chr(c) for c in range(0, 32) if chr(c) not in LINE_BOUNDARIES] + ["\x7f"]
              + [chr(c) for c in (0x80, 0x84, 0x86, 0x8d, 0x9f)]
              + ["\xa0", "\u1680", "\u2003", "\u200b", "\u202f", "\u205f", "\u3000", "\ufeff",      # blanks and look-alikes
                 "\xe9", "\u03a9", "\u4e2d", "\U0001f6f0",                                          # letters, astral
                 "\u0663", "\uff17", "\xb2", "\u2212", "\u2010", "\xad"])                           # other digits / dashes
WIDE_VIAS = ["lines", "stream", "stream_first", "file"]


def wide_weight(ch):
    """Python's Unicode reading of "digit": the value str.isdigit() characters denote (ASCII digits included)."""
    import unicodedata
    if ch == "-":
        return 1
    d = unicodedata.digit(ch, None)
    return d if d is not None else 0


def wide_good(line):
    import unicodedata
    if not line:
        return False
    last = unicodedata.digit(line[-1], None)
    return last is not None and sum(wide_weight(c) for c in line[:-1]) % 10 == last


def wide_must_reject(a, b):
    sa, sb = a.strip(), b.strip()
    return not (spec_good(sa) and spec_good(sb)) and not (wide_good(sa) and wide_good(sb))


def wide_outcome(via, a, b, tmpdir):
    """-> (elements returned?, outcome text)."""
    tlefile = _tlefile()
    try:
        if via == "lines":
            t = tlefile.Tle("x", line1=a, line2=b)
        elif via == "stream":
            t = tlefile.Tle("mysat", tle_file=io.StringIO("MYSAT\n%s\n%s\n" % (a, b)))
        elif via == "stream_first":
            t = tlefile.Tle("", tle_file=io.StringIO("%s\n%s\n" % (a, b)))
        elif via == "file":
            p = os.path.join(tmpdir, "w.tle")
            with open(p, "wb") as f:
                f.write(("MYSAT\n%s\n%s\n" % (a, b)).encode("utf-8"))
            t = tlefile.Tle("mysat", tle_file=p)
        else:
            raise AssertionError(via)
        return True, "elements returned (line1=%r line2=%r orbit=%r)" % (t.line1, t.line2, t.orbit)
    except AssertionError:
        raise
    except Exception as e:  # noqa
        return False, type(e).__name__


def wide_case(ctx, a, b, via, meta, tmpdir):
    """One corrupted pair through one way of giving it.  Returns 1 when a set that fails the rule yields elements."""
    if via != "lines" and ("\n" in a or "\n" in b):
        return 0
    if not wide_must_reject(a, b):
        ctx.count("wide_rule_still_met")
        return 0
    yielded, what = wide_outcome(via, a, b, tmpdir)
    ctx.count("eval_oracle_wide_" + via)
    if yielded:
        case = dict(meta)
        case.update({"line1": a, "line2": b, "via": via, "wide": True})
        ctx.violation("corrupt_accepted" if via == "lines" else "corrupt_accepted_from_source", case, what,
                      "no elements (the stripped lines fail the rule)", site="Tle._read_tle / Tle._checksum")
        return 1
    return 0


def truncation_columns(line):
    """Columns c such that the part of the line in front of column c is, by itself, consistent with the rule."""
    return [c for c in range(2, len(line)) if spec_good(line[:c].rstrip())]


def self_consistent_variant(rng, l1, l2):
    """A valid element set (both lines satisfy the rule) one of whose lines has a chosen proper prefix that satisfies the rule
    too: the digit in front of the chosen column is set to the checksum of what precedes it and the line's own check digit is
    recomputed.  -> (line1, line2, which, column)"""
    w = rng.choice([1, 2, 2])
    base = l1 if w == 1 else l2
    cols = [c for c in range(3, 68) if base[c - 1] in "0123456789"]
    tail = [c for c in cols if c >= 64]
    c = rng.choice(tail if tail and rng.random() < 0.6 else cols)
    new = base[:c - 1] + str(tlegen.checksum(base[:c - 1])) + base[c:68]
    new = new + str(tlegen.checksum(new))
    return ((new, l2) if w == 1 else (l1, new)) + (w, c)


def wide_probe(ctx):
    import shutil
    rng = ctx.rng
    if ctx.intensified and ctx.violations:
        return                                              # the search has its failing input already
    full = ctx.intensified or ctx.tier == "thorough"
    tmpdir = tempfile.mkdtemp(prefix="pv-c09-wide-")
    found = 0
    try:
        for (l1, l2) in tles(ctx, ctx.size(4, 12)):
            if not wide_outcome("lines", l1, l2, tmpdir)[0]:
                continue                                    # judged by the printable stream (valid_rejected)
            # every column of both lines x every wide character as lines; a sample of them through streams and files
            for w in (1, 2):
                base = l1 if w == 1 else l2
                for i in range(len(base)):
                    others = rng.sample(WIDE_CHARS, 4 if full else 2)
                    for ch in WIDE_CHARS:
                        mod = base[:i] + ch + base[i + 1:]
                        a, b = (mod, l2) if w == 1 else (l1, mod)
                        meta = {"which": w, "pos": i, "char": ch}
                        ctx.distinct((l1[2:7], w, i, ord(ch)))
                        for via in (WIDE_VIAS if ch in others else WIDE_VIAS[:1]):
                            found += wide_case(ctx, a, b, via, meta, tmpdir)
                if found > 12:
                    return
            # self-consistent truncations: the set itself and re-issued sets with a rule-consistent prefix, cut at that
            # column by every line-boundary character, through every way of giving the set
            variants = [(l1, l2, None, None)] + [self_consistent_variant(rng, l1, l2) for _ in range(8 if full else 5)]
            for (v1, v2, vw, vc) in variants:
                if not wide_outcome("lines", v1, v2, tmpdir)[0]:
                    ctx.count("wide_variant_not_accepted")
                    continue
                for w in (1, 2):
                    base = v1 if w == 1 else v2
                    cols = truncation_columns(base)
                    ctx.bump("self_consistent_prefix_columns", len(cols))
                    for c in cols:
                        for ch in LINE_BOUNDARIES:
                            mod = base[:c] + ch + base[c + 1:]
                            a, b = (mod, v2) if w == 1 else (v1, mod)
                            meta = {"which": w, "pos": c, "char": ch, "self_consistent_prefix": c,
                                    "valid_line1": v1, "valid_line2": v2}
                            ctx.distinct((v1[2:7], "cut", base[:c], w, ord(ch)))
                            for via in WIDE_VIAS:
                                found += wide_case(ctx, a, b, via, meta, tmpdir)
                if found > 12:
                    return
    finally:
        shutil.rmtree(tmpdir, ignore_errors=True)


def inplace_file_probe(ctx, l1, l2, mods, tmpdir=None):
    """From files and streams: the intact set is read from a path first, then the SAME path is overwritten in place with
    each corrupted set and read again (a result remembered for the path must not outlive the file's content)."""
    own = tmpdir is None
    tmpdir = tmpdir or tempfile.mkdtemp(prefix="pv-c09-")
    bad = 0
    try:
        g0, _ = impl_outcome_source("file", l1, l2, tmpdir)
        if g0 != "a":
            ctx.violation("valid_rejected", {"line1": l1, "line2": l2, "via": "file"}, g0, "accepted", site="Tle.__init__")
            return 1
        for (a, b) in mods:
            should = spec_good(a.strip()) and spec_good(b.strip())
            for kind in ("file", "stringio"):
                got, _ = impl_outcome_source(kind, a, b, tmpdir)
                ctx.count("eval_oracle_" + kind)
                if (not should and got == "a") or (should and got != "a"):
                    ctx.violation("corrupt_accepted_from_source" if not should else "good_rejected",
                                  {"line1": a, "line2": b, "via": kind, "intact_line1": l1, "intact_line2": l2,
                                   "sequence": "intact set read from the path first, then the path rewritten in place"},
                                  got, "rejected" if not should else "accepted", site="tlefile.read / Tle.__init__")
                    bad += 1
                    break
            if bad:
                break
            # and the intact file again (so that every corrupted read follows a successful one)
            impl_outcome_source("file", l1, l2, tmpdir)
    finally:
        if own:
            import shutil
            shutil.rmtree(tmpdir, ignore_errors=True)
    return bad


# ------------------------------------------------------------------ collections: files and streams with several entries
# "for TLEs given as lines, from files and from streams": an element set that reaches the library as one entry of a
# multi-entry file or stream is accepted only if its two lines satisfy the rule; a digit -> other digit corruption of one
# entry is rejected with a checksum error and never yields elements - neither the corrupted lines nor another object standing
# in for the damaged entry.
COLL_NAMES = ["PVSAT-A", "PVSAT B2", "X-RAY 7 (TEST)", "QUARK 12", "OBJECT Z"]      # not registered platforms, no "1 " prefix
WHOLE_ROUTES = ["dl_files", "dl_files2", "dl_glob", "dl_plain", "dl_spacetrack"]      # return every entry of the collection
NAME_ROUTES = ["byname_file", "byname_stringio", "byname_env"]                        # look one entry up by its name line
ST_LOGIN = "https://www.space-track.org/ajaxauth/login"


class _Reply:
    def __init__(self, status, text):
        self.status_code = status
        self.text = text
        self.content = text.encode("utf-8")
        self.ok = status < 400


class _Interposed:
    """requests.get / requests.Session answer with the given text for the duration of the block (no network)."""

    def __init__(self, text):
        import requests
        self.rq = requests
        self.text = text

    def __enter__(self):
        rq, me = self.rq, self
        self.saved = (rq.get, rq.post, rq.Session, rq.request)

        def fake_get(url, **kw):
            return _Reply(200, me.text)

        class FakeSession:
            def __init__(self, *a, **k):
                pass

            def __enter__(self):
                return self

            def __exit__(self, *a):
                return False

            def close(self):
                pass

            def post(self, url, data=None, **kw):
                return _Reply(200, "")

            def get(self, url, **kw):
                return _Reply(200, me.text)

        def refuse(*a, **k):
            raise AssertionError("unexpected request")

        rq.get, rq.post, rq.Session, rq.request = fake_get, refuse, FakeSession, refuse
        return self

    def __exit__(self, *a):
        rq = self.rq
        rq.get, rq.post, rq.Session, rq.request = self.saved
        return False


def coll_text(entries, sep, trailing=True):
    lines = []
    for (name, l1, l2) in entries:
        if name is not None:
            lines.append(name)
        lines += [l1, l2]
    return sep.join(lines) + (sep if trailing else "")


def _write(path, text):
    with open(path, "w", newline="") as f:
        f.write(text)


def run_route(route, entries, sep, tmpdir, lookup=None):
    """Read the collection through one entry point -> ('exc', 'c' | class name, message) | ('objs', [(line1, line2), ...])."""
    tlefile = _tlefile()
    text = coll_text(entries, sep)
    pa = os.path.join(tmpdir, "coll-a.tle")
    pb = os.path.join(tmpdir, "coll-b.tle")
    saved_env = os.environ.get("TLES")
    try:
        try:
            if route in ("dl_files", "dl_glob", "byname_file", "bynumber_file", "byname_env"):
                _write(pa, text)
                if os.path.exists(pb):
                    os.remove(pb)
            if route == "dl_files":
                objs = tlefile.Downloader({"downloaders": {"read_tle_files": {"paths": [pa]}}}).read_tle_files()
            elif route == "dl_glob":
                objs = tlefile.Downloader({"downloaders": {"read_tle_files": {"paths": [os.path.join(tmpdir, "coll-*.tle")]}}}).read_tle_files()
            elif route == "dl_files2":
                m = (len(entries) + 1) // 2
                _write(pa, coll_text(entries[:m], sep))
                _write(pb, coll_text(entries[m:], sep))
                objs = tlefile.Downloader({"downloaders": {"read_tle_files": {"paths": [pa, pb]}}}).read_tle_files()
            elif route == "dl_plain":
                cfg = {"downloaders": {"fetch_plain_tle": {"src": ["https://host.example/tle/collection.txt"]}}}
                with _Interposed(text):
                    objs = tlefile.Downloader(cfg).fetch_plain_tle()["src"]
            elif route == "dl_spacetrack":
                cfg = {"platforms": dict((int(l1[2:7]), name or "SAT%d" % i) for i, (name, l1, _) in enumerate(entries)
                                         if l1[2:7].strip().isdigit()),
                       "downloaders": {"fetch_spacetrack": {"user": "u", "password": "p"}}}
                with _Interposed(text):
                    objs = tlefile.Downloader(cfg).fetch_spacetrack()
            elif route == "byname_file":
                objs = [tlefile.read(lookup, tle_file=pa)]
            elif route == "byname_stringio":
                objs = [tlefile.Tle(lookup, tle_file=io.StringIO(text))]
            elif route == "byname_env":
                os.environ["TLES"] = os.path.join(tmpdir, "coll-a*.tle")
                objs = [tlefile.read(lookup)]
            elif route == "bynumber_file":
                objs = [tlefile.read(lookup, tle_file=pa)]
            elif route == "bynumber_stringio":
                objs = [tlefile.read(lookup, tle_file=io.StringIO(text))]
            elif route == "first_stringio":
                objs = [tlefile.Tle("", tle_file=io.StringIO(text))]
            else:
                raise AssertionError(route)
            return ("objs", [(t.line1, t.line2) for t in objs])
        except Exception as e:  # noqa
            if isinstance(e, AssertionError):
                raise
            return ("exc", "c" if isinstance(e, tlefile.ChecksumError) else type(e).__name__, str(e)[:160])
    finally:
        if saved_env is None:
            os.environ.pop("TLES", None)
        else:
            os.environ["TLES"] = saved_env


def routes_for(col):
    """[(route, lookup index or None)] applicable to the collection's layout."""
    out = [(r, None) for r in WHOLE_ROUTES] + [("first_stringio", None)]
    if col["names"]:
        for j in range(len(col["entries"])):
            out += [(r, j) for r in NAME_ROUTES]
    if col.get("registered") is not None:
        out += [("bynumber_file", col["registered"]), ("bynumber_stringio", col["registered"])]
    return out


def lookup_key(col, route, j):
    if j is None:
        return None
    if route.startswith("bynumber"):
        return col["registered_name"]
    return col["entries"][j][0]


def expected_intact(col, route, j):
    ent = [(l1, l2) for (_, l1, l2) in col["entries"]]
    if route in WHOLE_ROUTES:
        return ent
    if route == "first_stringio":
        return ent[:1]
    return [ent[j]]


def corrupt_entries(col, cor):
    ent = [list(e) for e in col["entries"]]
    base = ent[cor["entry"]][cor["which"]]
    ent[cor["entry"]][cor["which"]] = base[:cor["pos"]] + cor["char"] + base[cor["pos"] + 1:]
    return [tuple(e) for e in ent]


def applicable(route, j, cor):
    """Readers that recognise an entry by the leading '1 ' (or '1 <number>') of its first line do not see an entry whose
    marker itself is damaged: such a corruption is not put to them (it is put to the readers that find the entry by name)."""
    if cor["which"] == 1:
        if route.startswith("bynumber"):
            return cor["pos"] >= 7 or j != cor["entry"]
        if route in WHOLE_ROUTES or route == "first_stringio":
            return cor["pos"] >= 2
    return True


def collection_case(ctx, col, cor, route, j, tmpdir):
    """One corrupted collection through one entry point (the intact collection is read through it first, same paths).
    Returns 1 when the statement is violated."""
    key = lookup_key(col, route, j)
    res0 = run_route(route, col["entries"], col["sep"], tmpdir, key)
    if res0 != ("objs", expected_intact(col, route, j)):
        ctx.count("collection_intact_not_read_as_expected")       # not a checksum matter (C10 / C17)
        return 0
    bad_entries = corrupt_entries(col, cor)
    res = run_route(route, bad_entries, col["sep"], tmpdir, key)
    ctx.count("eval_oracle_collection")
    ctx.bump("collection_route", route)
    k = cor["entry"]
    bad_lines = (bad_entries[k][1], bad_entries[k][2])
    case = {"collection": [list(e) for e in col["entries"]], "names": col["names"], "sep": col["sep"],
            "registered": col.get("registered"), "registered_name": col.get("registered_name"),
            "corrupt": cor, "route": route, "lookup": j,
            "line1": bad_lines[0], "line2": bad_lines[1]}
    site = "tlefile._parse_tles_for_downloader / _get_tles_from_uris / Tle.__init__"
    must_reject = route in WHOLE_ROUTES or (route == "first_stringio" and k == 0) or (j is not None and j == k)
    if res[0] == "objs":
        objs = res[1]
        unsound = [o for o in objs if not (spec_good(o[0].strip()) and spec_good(o[1].strip()))]
        if unsound:
            ctx.violation("corrupt_accepted_from_collection", case, {"element sets returned": [list(o) for o in objs]},
                          "ChecksumError; no element set whose lines fail the rule", site=site)
            return 1
        if must_reject:
            intact = [(l1, l2) for i, (_, l1, l2) in enumerate(col["entries"]) if i != k]
            standing = len(objs) > len(intact) if route in WHOLE_ROUTES else True
            ctx.violation("corrupt_entry_not_rejected", case,
                          {"element sets returned": [list(o) for o in objs],
                           "note": ("an element set stands in for the damaged entry" if standing
                                    else "no checksum error reported")},
                          "ChecksumError (the damaged entry is entry %d of %d)" % (k + 1, len(col["entries"])), site=site)
            return 1
        return 0
    if must_reject and res[1] != "c":
        ctx.violation("wrong_error", case, "%s: %s" % (res[1], res[2]), "ChecksumError", site=site)
        return 1
    return 0


def gen_collection(ctx):
    rng = ctx.rng
    tlefile = _tlefile()
    n = rng.choice([2, 2, 3, 3, 4])
    names = rng.random() < 0.6
    ent, seen = [], set()
    registered = registered_name = None
    reg_at = rng.randrange(n) if rng.random() < 0.4 else None
    pool = sorted((nm, num) for nm, num in tlefile.SATELLITES.items() if len(num) == 5 and num.isdigit())
    while len(ent) < n:
        i = len(ent)
        if i == reg_at and pool:
            registered_name, num = rng.choice(pool)
            _, l1, l2 = tlegen.random_tle(rng, "any", {"satnum": num})
        elif rng.random() < 0.3:
            _, l1, l2 = rng.choice(tlegen.REAL_TLES)
        else:
            _, l1, l2 = tlegen.random_tle(rng, "any")
        if l1[2:7] in seen or (i != reg_at and l1[2:7].strip() in tlefile.SATELLITES.values()):
            continue
        seen.add(l1[2:7])
        if i == reg_at and pool:
            registered = i
        ent.append((COLL_NAMES[i] if names else None, l1, l2))
    return {"entries": ent, "names": names, "sep": rng.choice(["\n", "\n", "\r\n"]), "registered": registered,
            "registered_name": registered_name}


def gen_corruption(rng, col):
    while True:
        k = rng.randrange(len(col["entries"]))
        w = rng.choice([1, 2])
        base = col["entries"][k][w]
        p = rng.choice([rng.randrange(len(base)), rng.randrange(len(base)), len(base) - 1, rng.randrange(0, 8)])
        if base[p] in "0123456789":
            ch = rng.choice([c for c in "0123456789" if c != base[p]])
            return {"entry": k, "which": w, "pos": p, "char": ch}


def collection_probe(ctx):
    import logging
    import shutil
    n_col = ctx.size(30, 400)
    n_cor = ctx.size(5, 10)
    tmpdir = tempfile.mkdtemp(prefix="pv-c09-coll-")
    prev = logging.root.manager.disable
    logging.disable(logging.CRITICAL)            # "file does not exist" / "downloaded n TLEs" chatter
    try:
        for c in range(n_col):
            col = gen_collection(ctx)
            if c < 2:
                ctx.sample({"collection": [list(e) for e in col["entries"]], "names": col["names"]})
            found = 0
            for _ in range(n_cor):
                cor = gen_corruption(ctx.rng, col)
                ctx.distinct((col["entries"][cor["entry"]][1][2:7], "coll", cor["entry"], cor["which"], cor["pos"], cor["char"]))
                for (route, j) in routes_for(col):
                    if not applicable(route, j, cor):
                        continue
                    found += collection_case(ctx, col, cor, route, j, tmpdir)
                    if found >= 3:
                        break
                if found >= 3:
                    break
            if len(ctx.violations) > 40:
                break
    finally:
        logging.disable(prev)
        shutil.rmtree(tmpdir, ignore_errors=True)


def match_known(entry, v):
    return False


def replay(ctx, case):
    inp = case.get("input", case)
    if "collection" in inp:
        import logging
        import shutil
        col = {"entries": [tuple(e) for e in inp["collection"]], "names": inp["names"], "sep": inp["sep"],
               "registered": inp.get("registered"), "registered_name": inp.get("registered_name")}
        tmpdir = tempfile.mkdtemp(prefix="pv-c09-coll-")
        prev = logging.root.manager.disable
        logging.disable(logging.CRITICAL)
        try:
            before = len(ctx.violations)
            bad = collection_case(ctx, col, inp["corrupt"], inp["route"], inp["lookup"], tmpdir)
            print("collection of %d entries, entry %d line %d column %d -> %r, read through %s%s:" % (
                len(col["entries"]), inp["corrupt"]["entry"] + 1, inp["corrupt"]["which"], inp["corrupt"]["pos"] + 1,
                inp["corrupt"]["char"], inp["route"],
                "" if inp["lookup"] is None else " (looking up entry %d)" % (inp["lookup"] + 1)))
            for v in ctx.violations[before:]:
                print("VIOLATES: %s observed=%s required=%s" % (v["kind"], v["observed"], v["required"]))
            if not bad:
                print("ok (checksum error, or the intact entry that was looked up)")
        finally:
            logging.disable(prev)
            shutil.rmtree(tmpdir, ignore_errors=True)
        return 1 if bad else 0
    if inp.get("wide"):
        import shutil
        tmpdir = tempfile.mkdtemp(prefix="pv-c09-wide-")
        try:
            a, b, via = inp["line1"], inp["line2"], inp["via"]
            print("line %s column %s replaced by %r, given as %s" % (inp.get("which"), (inp.get("pos") or 0) + 1,
                                                                     inp.get("char"), via))
            print("line1 = %r\nline2 = %r" % (a, b))
            print("statement says:", "reject (no elements)" if wide_must_reject(a, b) else "nothing (the rule is met)")
            yielded, what = wide_outcome(via, a, b, tmpdir)
            print("outcome:", what)
            bad = wide_case(ctx, a, b, via, {k: inp.get(k) for k in ("which", "pos", "char")}, tmpdir)
        finally:
            shutil.rmtree(tmpdir, ignore_errors=True)
        print("VIOLATES" if bad else "ok")
        return 1 if bad else 0
    if "intact_line1" in inp:
        bad = inplace_file_probe(ctx, inp["intact_line1"], inp["intact_line2"], [(inp["line1"], inp["line2"])])
        print("in-place file probe:", "violated" if bad else "ok")
        return 1 if bad else 0
    got, yielded = impl_outcome(inp["line1"], inp["line2"])
    print("outcome:", got, "elements returned" if yielded else "no elements")
    should = spec_good(inp["line1"].strip()) and spec_good(inp["line2"].strip())
    print("statement says:", "accept" if should else "reject")
    bad = (yielded and not should) or (not should and got == "a") or (should and got != "a")
    return 1 if bad else 0

LEVEL_TEXT = ("Theorems (Lean 4 kernel, core only, unbounded line length): acceptance <=> both stripped lines end in the digit "
              "(digits + minus signs) mod 10; every single-character replacement that changes a character's weight mod 10, "
              "every digit->different-digit replacement including the check digit, in either line, yields ChecksumError; a "
              "rejected pair never reaches the parser. The model is tied to tlefile.py by the complete 2x69x95 corruption "
              "table per TLE (exact agreement of outcome classes).")
LEVEL_NOTE = ("Trusted: Lean kernel; axioms propext, Quot.sound, Classical.choice; the hand-written model PV.Model.Checksum "
              "and the correspondence harness; printable-ASCII restriction; CPython str.strip/isdigit/int on ASCII.")
TECHNIQUE = "Lean 4 proof by list induction + omega over an executable model; differential correspondence (exhaustive per-TLE corruption table)"
