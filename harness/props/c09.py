"""C09 — corrupted TLE lines are rejected by the modulo-10 checksum."""
import io
import os
import sys
import tempfile
import traceback

import lib
import tlegen

ID = "C09"
LEAN_TARGETS = ["PV.Props.C09"]
RULE = ("per TLE the complete single-character corruption table (2 lines x 69 positions x 95 printable ASCII "
        "replacements) through Tle(line1=, line2=); sampled corruptions through a file and a StringIO; "
        "a case is non-trivial when the replacement differs from the original character; distinct = (tle, line, pos, char)")
ASSUMPTIONS = ["input restricted to printable ASCII (Python's Unicode isdigit/strip on non-ASCII is outside the model)",
               "lines are judged after strip(), as the library stores them"]
TRUSTED = ["model: PV.Model.Checksum (hand-written from tlefile.py:195-225), tied by the complete corruption table per TLE"]


def _tlefile():
    from pyorbital import tlefile
    return tlefile


def classify_exc(e, tb):
    """Map an exception of Tle(...) to the model's outcome alphabet."""
    tlefile = _tlefile()
    frames = [f.name for f in traceback.extract_tb(tb)]
    if isinstance(e, tlefile.ChecksumError):
        return "c"
    if "_checksum" in frames and "_parse_tle" not in frames:
        if isinstance(e, ValueError):
            return "v"
        if isinstance(e, IndexError):
            return "i"
        return "?" + type(e).__name__
    if "_parse_tle" in frames:
        return "a"      # checksum accepted; parsing then failed (no elements, but not a checksum matter)
    return "?" + type(e).__name__


def impl_outcome(l1, l2):
    tlefile = _tlefile()
    try:
        tlefile.Tle("x", line1=l1, line2=l2)
        return "a", True
    except Exception as e:  # noqa
        return classify_exc(e, sys.exc_info()[2]), False


def impl_outcome_source(kind, l1, l2, tmpdir):
    tlefile = _tlefile()
    text = "MYSAT\n%s\n%s\n" % (l1, l2)
    try:
        if kind == "file":
            p = os.path.join(tmpdir, "t.tle")
            with open(p, "w", newline="") as f:
                f.write(text)
            tlefile.Tle("mysat", tle_file=p)
        else:
            tlefile.Tle("mysat", tle_file=io.StringIO(text))
        return "a", True
    except Exception as e:  # noqa
        return classify_exc(e, sys.exc_info()[2]), False


def spec_weight(ch):
    return (ord(ch) - 48) if ch in "0123456789" else (1 if ch == "-" else 0)


def spec_good(line):
    """The statement's acceptance rule on a stripped line."""
    return len(line) > 0 and line[-1] in "0123456789" and sum(spec_weight(c) for c in line[:-1]) % 10 == int(line[-1])


def tles(ctx, n):
    out = [(l1, l2) for (_, l1, l2) in tlegen.REAL_TLES[:max(2, n // 3)]]
    while len(out) < n:
        _, l1, l2 = tlegen.random_tle(ctx.rng, "any")
        out.append((l1, l2))
    return out[:n]


LO, HI = 32, 126


def correspond(ctx):
    """Model's complete corruption table vs the implementation's."""
    n = ctx.size(6, 60)
    drv = ctx.driver()
    cases = tles(ctx, n)
    lines = ["c09table %s %s %d %d" % (lib.s2h(a), lib.s2h(b), LO, HI) for a, b in cases]
    outs = drv.run_parallel(lines)
    tmpdir = tempfile.mkdtemp(prefix="pv-c09-")
    try:
        for (l1, l2), tab in zip(cases, outs):
            k = 0
            for which in (1, 2):
                base = l1 if which == 1 else l2
                for i in range(len(base)):
                    for c in range(LO, HI + 1):
                        ch = chr(c)
                        m = tab[k]
                        k += 1
                        mod = base[:i] + ch + base[i + 1:]
                        a, b = (mod, l2) if which == 1 else (l1, mod)
                        got, _ = impl_outcome(a, b)
                        ctx.count("eval_corr")
                        ctx.bump("model_outcome", m)
                        if ch != base[i]:
                            ctx.distinct((l1[2:7], which, i, c))
                        if got != m:
                            ctx.disagree("c09table", {"line1": a, "line2": b, "which": which, "pos": i, "char": ch}, got, m)
                        # sampled source kinds
                        if ctx.rng.random() < 0.004 and ch not in "\r\n":
                            for kind in ("file", "stringio"):
                                g2, _ = impl_outcome_source(kind, a, b, tmpdir)
                                ctx.count("eval_corr_" + kind)
                                exp = m
                                # through a collection the lines are decoded one per physical line; a name line precedes
                                if g2 != exp:
                                    ctx.disagree("c09source", {"kind": kind, "line1": a, "line2": b}, g2, exp)
            ctx.sample({"line1": l1, "line2": l2, "table_len": len(tab), "accepted_cells": tab.count("a")})
    finally:
        import shutil
        shutil.rmtree(tmpdir, ignore_errors=True)


def oracle(ctx):
    """The property on the implementation, from the statement alone."""
    n = ctx.size(4, 40)
    for (l1, l2) in tles(ctx, n):
        got, ok = impl_outcome(l1, l2)
        if not ok:
            ctx.violation("valid_rejected", {"line1": l1, "line2": l2}, got, "accepted", site="Tle.__init__")
            continue
        positions = [(w, i) for w in (1, 2) for i in range(69)]
        for (w, i) in positions:
            base = l1 if w == 1 else l2
            chars = [chr(c) for c in range(LO, HI + 1)]
            if not ctx.intensified and ctx.tier == "quick":
                chars = list("0123456789-+. A")
            for ch in chars:
                if ch == base[i]:
                    continue
                mod = base[:i] + ch + base[i + 1:]
                a, b = (mod, l2) if w == 1 else (l1, mod)
                sa, sb = a.strip(), b.strip()
                should_accept = spec_good(sa) and spec_good(sb)
                got, yielded = impl_outcome(a, b)
                ctx.count("eval_oracle")
                case = {"line1": a, "line2": b, "which": w, "pos": i, "char": ch}
                if not should_accept:
                    if yielded:
                        ctx.violation("corrupt_accepted", case, "elements returned", "rejected", site="Tle._checksum")
                    elif got == "a":
                        ctx.violation("corrupt_passed_checksum", case, "checksum accepted (parse failed later)",
                                      "ChecksumError", site="Tle._checksum")
                    else:
                        # a changed sum must be reported as a checksum error (digit->digit in particular)
                        changed = (sa[-1:].isdigit() and sb[-1:].isdigit())
                        if changed and got != "c":
                            ctx.violation("wrong_error", case, got, "ChecksumError", site="Tle._checksum")
                else:
                    if got != "a":
                        ctx.violation("good_rejected", case, got, "accepted (sum unchanged)", site="Tle._checksum")
        # the same through a file path that is rewritten in place, and through a stream
        mods = []
        for _ in range(ctx.size(30, 200)):
            w, i = ctx.rng.choice(positions)
            base = l1 if w == 1 else l2
            ch = ctx.rng.choice("0123456789-+ A" if base[i] not in "0123456789" else "0123456789")
            if ch == base[i] or ch in "\r\n":
                continue
            mod = base[:i] + ch + base[i + 1:]
            mods.append((mod, l2) if w == 1 else (l1, mod))
        inplace_file_probe(ctx, l1, l2, mods)


def inplace_file_probe(ctx, l1, l2, mods, tmpdir=None):
    """From files and streams: the intact set is read from a path first, then the SAME path is overwritten in place with
    each corrupted set and read again (a result remembered for the path must not outlive the file's content)."""
    own = tmpdir is None
    tmpdir = tmpdir or tempfile.mkdtemp(prefix="pv-c09-")
    bad = 0
    try:
        g0, _ = impl_outcome_source("file", l1, l2, tmpdir)
        if g0 != "a":
            ctx.violation("valid_rejected", {"line1": l1, "line2": l2, "via": "file"}, g0, "accepted", site="Tle.__init__")
            return 1
        for (a, b) in mods:
            should = spec_good(a.strip()) and spec_good(b.strip())
            for kind in ("file", "stringio"):
                got, _ = impl_outcome_source(kind, a, b, tmpdir)
                ctx.count("eval_oracle_" + kind)
                if (not should and got == "a") or (should and got != "a"):
                    ctx.violation("corrupt_accepted_from_source" if not should else "good_rejected",
                                  {"line1": a, "line2": b, "via": kind, "intact_line1": l1, "intact_line2": l2,
                                   "sequence": "intact set read from the path first, then the path rewritten in place"},
                                  got, "rejected" if not should else "accepted", site="tlefile.read / Tle.__init__")
                    bad += 1
                    break
            if bad:
                break
            # and the intact file again (so that every corrupted read follows a successful one)
            impl_outcome_source("file", l1, l2, tmpdir)
    finally:
        if own:
            import shutil
            shutil.rmtree(tmpdir, ignore_errors=True)
    return bad


def match_known(entry, v):
    return False


def replay(ctx, case):
    inp = case.get("input", case)
    if "intact_line1" in inp:
        bad = inplace_file_probe(ctx, inp["intact_line1"], inp["intact_line2"], [(inp["line1"], inp["line2"])])
        print("in-place file probe:", "violated" if bad else "ok")
        return 1 if bad else 0
    got, yielded = impl_outcome(inp["line1"], inp["line2"])
    print("outcome:", got, "elements returned" if yielded else "no elements")
    should = spec_good(inp["line1"].strip()) and spec_good(inp["line2"].strip())
    print("statement says:", "accept" if should else "reject")
    bad = (yielded and not should) or (not should and got == "a") or (should and got != "a")
    return 1 if bad else 0

LEVEL_TEXT = ("Theorems (Lean 4 kernel, core only, unbounded line length): acceptance <=> both stripped lines end in the digit "
              "(digits + minus signs) mod 10; every single-character replacement that changes a character's weight mod 10, "
              "every digit->different-digit replacement including the check digit, in either line, yields ChecksumError; a "
              "rejected pair never reaches the parser. The model is tied to tlefile.py by the complete 2x69x95 corruption "
              "table per TLE (exact agreement of outcome classes).")
LEVEL_NOTE = ("Trusted: Lean kernel; axioms propext, Quot.sound, Classical.choice; the hand-written model PV.Model.Checksum "
              "and the correspondence harness; printable-ASCII restriction; CPython str.strip/isdigit/int on ASCII.")
TECHNIQUE = "Lean 4 proof by list induction + omega over an executable model; differential correspondence (exhaustive per-TLE corruption table)"
