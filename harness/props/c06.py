"""C06 — sun angles agree with an independent solar ephemeris (Astronomical-Almanac low-precision formulas)."""
import datetime as dt
import json
import math
import os
import subprocess
import sys
import warnings
from concurrent.futures import ThreadPoolExecutor

import numpy as np

import lib
from props import c12

ID = "C06"
LEAN_TARGETS = ["PV.Props.C06"]
# further property theorems: propagation of the longitude/obliquity bounds to RA, declination, zenith, altitude, cos_zen
EXTRA_PROPS = ['PV.Props.C06Bound']
# T-C tie (DESIGN 2.3): kernels traced from the current source are proved equal to the model over the reals
EQUIV = {'PV.Equiv.Astro': ['gmst_eq', 'sun_ecliptic_longitude_eq', 'sun_ra_dec_eq', 'cos_zen_eq', 'sun_zenith_angle_eq', 'get_alt_az_eq', 'sun_earth_distance_correction_eq']}
RULE = ("instants 1950-2050 uniform plus solstices/equinoxes/year boundaries x lon in [-360,360] x lat in [-90,90] incl. poles, "
        "scalars and arrays; correspondence: all ten sun quantities (ecliptic longitude, RA, dec, cos_zen, zenith, altitude, "
        "azimuth, distance, obliquity, mean anomaly) model vs astronomy.py at 1e-11; oracle: the Almanac low-precision sun "
        "(independent Python, own GMST) within 0.03 deg / 0.0015 AU, mutual consistency 1e-9, sub-solar point and antipode; "
        "arrays: six unrelated instants, and clusters of six instants spanning 0 s ... 40 d in sorted / reversed / shuffled / "
        "out-and-back order, with scalar, 1-d and 2-d coordinates, every element against the Almanac; arrays of 3-9 instants "
        "spanning 1 min ... 1 d (some 3 d) PLACED to straddle the instants, found from the Almanac reference for random years "
        "(days) of 1950-2050, where a sun quantity wraps or changes regime: RA = +-180 deg (September equinox), RA = ecliptic "
        "longitude = 0/360 (March equinox), declination extrema / RA = +-90 deg (solstices), mean anomaly 0 and 180 deg, mean "
        "longitude 0/360, GMST through 0, hour angle 0 and +-180 deg (local noon / midnight), year boundaries, midnight UTC, "
        "J2000.0; "
        "call orders: fresh child interpreters whose FIRST sun query (each of the six functions in turn) passes a date-only "
        "value (datetime.date, datetime64[D,W,M,Y], arrays of them: midnight UTC of the day / first day), a coarse "
        "datetime64[h,m,s], an ordinary instant or an array, followed by 8-13 instants in every representation (datetime, "
        "aware, datetime64 ns..h, 1-element arrays) at random places, every answer of every step against the Almanac; "
        "distinct = (instant, lon, lat)")
ASSUMPTIONS = ["Almanac low-precision formulas transcribed from memory (DESIGN appendix D); agreement measured 0.009 deg",
               "azimuth differences are weighted by cos(altitude) (azimuth is undefined at the zenith)",
               "the 0.03 deg propagation of the ecliptic-longitude bound through RA/dec/alt/az is measured, not proved"]
TRUSTED = ["model PV.Model.Astro (sun functions)", "spec PV.Spec.Almanac"]
LEVEL_TEXT = ("Theorems over the reals: zenith = arccos(cos_zen) = 90 deg - altitude (same expression), cos_zen = +1/-1 at the "
              "sub-solar point / antipode, the half-angle RA form equals atan2(cos eps sin lam, cos lam), alt/az are the "
              "textbook hour-angle formulas (azimuth clockwise from north), |cos_zen| <= 1, the coded ecliptic longitude / "
              "obliquity are within explicit bounds of the Almanac series for 1950-2050, and these bounds propagate (PV.Props.C06Bound): "
              "declination within 0.0065 deg, right ascension within 0.01335 deg (mod 360), zenith angle and altitude within "
              "0.01311 deg, cos_zen within 0.00023 of the Almanac values for every place on earth (IAU-82 sidereal time; guard: "
              "the one real instant per year with cos(lambda) = -1, where the half-angle form is 2*atan2(0,0)); the distance "
              "factor within 0.0009 AU. Only the cos(altitude)-weighted azimuth bound stays measured (near the zenith a "
              "direction error g allows pi*g of weighted azimuth, 0.041 deg worst case). The model is tied to astronomy.py by the "
              "T-C tie (all sun functions traced from the source equal the model for all real inputs) and by comparing ten sun "
              "quantities per sample at 1e-11; float agreement is measured against an independent Almanac implementation.")
LEVEL_NOTE = ("Trusted: Lean kernel + Mathlib reals; hand-written model and correspondence harness; the Almanac transcription; "
              "binary64 rounding not modelled.")
TECHNIQUE = "Lean 4 proof of trigonometric identities and series bounds over R + differential correspondence + independent-ephemeris oracle"

D2R = math.pi / 180.0


def almanac(t, lon_deg, lat_deg):
    """Astronomical Almanac low-precision sun, independent of pyorbital (own Julian date and GMST)."""
    jd = c12.exact_jd(t)
    n = float(jd - 2451545)
    L = (280.460 + 0.9856474 * n) % 360.0
    g = math.radians((357.528 + 0.9856003 * n) % 360.0)
    lam = math.radians((L + 1.915 * math.sin(g) + 0.020 * math.sin(2 * g)) % 360.0)
    eps = math.radians(23.439 - 0.0000004 * n)
    ra = math.atan2(math.cos(eps) * math.sin(lam), math.cos(lam))
    dec = math.asin(math.sin(eps) * math.sin(lam))
    R = 1.00014 - 0.01671 * math.cos(g) - 0.00014 * math.cos(2 * g)
    gm = float(c12.iau82_gmst(jd))
    h = gm + math.radians(lon_deg) - ra
    phi = math.radians(lat_deg)
    sin_alt = math.sin(phi) * math.sin(dec) + math.cos(phi) * math.cos(dec) * math.cos(h)
    sin_alt = max(-1.0, min(1.0, sin_alt))
    alt = math.asin(sin_alt)
    az = math.atan2(-math.sin(h) * math.cos(dec), math.cos(phi) * math.sin(dec) - math.sin(phi) * math.cos(dec) * math.cos(h))
    return {"lam": lam, "ra": ra, "dec": dec, "alt": alt, "az": az, "R": R, "gmst": gm, "cosz": sin_alt}


def angdiff(a, b):
    d = (a - b) % (2 * math.pi)
    if d > math.pi:
        d -= 2 * math.pi
    return abs(d)


def gen(ctx, n):
    r = ctx.rng
    out = []
    lo = int((dt.datetime(1950, 1, 1) - c12.EPOCH70).total_seconds())
    hi = int((dt.datetime(2050, 12, 31, 23, 59, 59) - c12.EPOCH70).total_seconds())
    special_days = [(3, 20), (6, 21), (9, 22), (12, 21), (1, 1), (12, 31), (1, 3), (7, 4)]
    for _ in range(n):
        k = r.random()
        if k < 0.15:
            y = r.randrange(1950, 2051)
            m, d = r.choice(special_days)
            t = dt.datetime(y, m, d, r.randrange(24), r.randrange(60), r.randrange(60))
        else:
            t = c12.EPOCH70 + dt.timedelta(seconds=r.randrange(lo, hi), microseconds=r.choice([0, r.randrange(10 ** 6)]))
        lon = r.choice([r.uniform(-360, 360), r.uniform(-180, 180), 0.0, 180.0, -180.0, 360.0])
        lat = r.choice([r.uniform(-90, 90), r.uniform(-90, 90), 90.0, -90.0, 0.0, r.uniform(-23.5, 23.5)])
        out.append((t, lon, lat))
    return out


def correspond(ctx):
    from pyorbital import astronomy
    drv = ctx.driver()
    n = ctx.size(3000, 150000)
    cases = gen(ctx, n)
    lines, exp = [], []
    for (t, lon, lat) in cases:
        d = float(astronomy.jdays2000(t))
        lines.append("sun %s %s %s" % (lib.f2h(d), lib.f2h(lon), lib.f2h(lat)))
    outs = drv.run_parallel(lines)
    for (t, lon, lat), o in zip(cases, outs):
        ctx.count("eval_corr")
        ctx.distinct((str(t), lon, lat))
        m = [lib.h2f(x) for x in o.split()]
        ra, dec = astronomy.sun_ra_dec(t)
        al, az = astronomy.get_alt_az(t, lon, lat)
        imp = [astronomy.sun_ecliptic_longitude(t), ra, dec, astronomy.cos_zen(t, lon, lat),
               astronomy.sun_zenith_angle(t, lon, lat), al, az, astronomy.sun_earth_distance_correction(t)]
        names = ["ecl_lon", "ra", "dec", "cos_zen", "zenith", "alt", "az", "dist"]
        for nm, a, b in zip(names, imp, m):
            a = float(a)
            tol = 1e-11
            if nm == "zenith":
                # arccos amplifies 1-ulp differences of cos_zen near 0/180 deg: compare through the cosine there
                ok = abs(a - b) <= 1e-9 or abs(math.cos(math.radians(a)) - math.cos(math.radians(b))) <= 1e-14
            elif nm in ("ra", "az", "ecl_lon"):
                ok = lib.angle_close(a, b, 1e-10) or lib.close(a, b, 1.0, tol)
            else:
                ok = lib.close(a, b, 1.0, tol)
            if not ok:
                ctx.disagree("sun." + nm, {"utc": t.isoformat(), "lon": lon, "lat": lat}, a, b)
    ctx.sample({"utc": cases[0][0].isoformat(), "lon": cases[0][1], "lat": cases[0][2]})
    # arrays vs model per element
    ts = np.array([np.datetime64(t) for (t, _, _) in cases[:500]])
    lons = np.array([c[1] for c in cases[:500]])
    lats = np.array([c[2] for c in cases[:500]])
    arr = astronomy.cos_zen(ts, lons, lats)
    for i in range(0, 500, 7):
        ctx.count("eval_corr_array")
        one = float(astronomy.cos_zen(cases[i][0], lons[i], lats[i]))
        if abs(float(arr[i]) - one) > 1e-9:   # arrays travel as datetime64[ns]: 1-ulp day difference (C08)
            ctx.disagree("cos_zen-array", {"i": i, "utc": cases[i][0].isoformat()}, float(arr[i]), one)


TOL_DEG = 0.03
TOL = math.radians(TOL_DEG)


def check_one(ctx, t, lon, lat, astronomy):
    case = {"utc": t.isoformat(), "lon": lon, "lat": lat}
    ref = almanac(t, lon, lat)
    lam = float(astronomy.sun_ecliptic_longitude(t))
    ra, dec = [float(x) for x in astronomy.sun_ra_dec(t)]
    alt, az = [float(x) for x in astronomy.get_alt_az(t, lon, lat)]
    cz = float(astronomy.cos_zen(t, lon, lat))
    sza = float(astronomy.sun_zenith_angle(t, lon, lat))
    dist = float(astronomy.sun_earth_distance_correction(t))
    worst = 0.0
    for nm, got, want, w in (("ecl_lon", lam, ref["lam"], 1.0), ("ra", ra, ref["ra"], 1.0), ("dec", dec, ref["dec"], 1.0),
                             ("alt", alt, ref["alt"], 1.0), ("az", az, ref["az"], max(math.cos(ref["alt"]), 0.0))):
        d = angdiff(got, want) * w
        worst = max(worst, d)
        if d > TOL:
            ctx.violation("almanac_" + nm, case, math.degrees(got), "%.6f deg within %.2f deg" % (math.degrees(want), TOL_DEG),
                          site="astronomy")
    zen_ref = math.pi / 2 - ref["alt"]
    if abs(math.radians(sza) - zen_ref) > TOL:
        ctx.violation("almanac_zenith", case, sza, "%.6f deg within %.2f deg" % (math.degrees(zen_ref), TOL_DEG), site="astronomy.sun_zenith_angle")
    if abs(cz - math.cos(zen_ref)) > TOL:
        ctx.violation("almanac_cos_zen", case, cz, math.cos(zen_ref), site="astronomy.cos_zen")
    if abs(dist - ref["R"]) > 0.0015:
        ctx.violation("almanac_distance", case, dist, "%.6f AU within 0.0015" % ref["R"], site="astronomy.sun_earth_distance_correction")
    # mutual consistency (1e-9 deg): zenith = 90 - altitude = arccos(cos_zen)
    if abs(sza - (90.0 - math.degrees(alt))) > 1e-9 and abs(math.cos(math.radians(sza)) - math.sin(alt)) > 1e-15:
        ctx.violation("consistency_alt", case, sza, 90.0 - math.degrees(alt), site="astronomy")
    if abs(sza - math.degrees(math.acos(max(-1.0, min(1.0, cz))))) > 1e-9:
        ctx.violation("consistency_coszen", case, sza, math.degrees(math.acos(max(-1.0, min(1.0, cz)))), site="astronomy")
    for v in (lam, ra, dec, alt, az, cz, sza, dist):
        if not math.isfinite(v):
            ctx.violation("nonfinite", case, v, "finite", site="astronomy")
    return worst, ref


def oracle(ctx):
    from pyorbital import astronomy
    n = ctx.size(2500, 120000)
    worst = 0.0
    for (t, lon, lat) in gen(ctx, n):
        ctx.count("eval_oracle")
        w, ref = check_one(ctx, t, lon, lat, astronomy)
        worst = max(worst, w)
        # sub-solar point and antipode
        if ctx.rng.random() < 0.2:
            slon = math.degrees(ref["ra"] - ref["gmst"])
            slat = math.degrees(ref["dec"])
            z0 = float(astronomy.sun_zenith_angle(t, slon, slat))
            z1 = float(astronomy.sun_zenith_angle(t, slon + 180.0, -slat))
            ctx.count("eval_oracle_subsolar")
            if not (z0 <= TOL_DEG):
                ctx.violation("subsolar", {"utc": t.isoformat(), "lon": slon, "lat": slat}, z0, "0 within 0.03 deg", site="astronomy.sun_zenith_angle")
            if not (180.0 - z1 <= TOL_DEG):
                ctx.violation("antipode", {"utc": t.isoformat(), "lon": slon + 180.0, "lat": -slat}, z1, "180 within 0.03 deg", site="astronomy.sun_zenith_angle")
    ctx.note("worst angular difference vs Almanac = %.4f deg" % math.degrees(worst))
    # "scalars and arrays": arrays of times (and of coordinates: float64, float32, integer-typed whole-degree grids, 2-d)
    cases = gen(ctx, ctx.size(240, 6000))
    for k in range(0, len(cases) - 5, 6):
        kind = ctx.rng.choice(["f64", "f64", "i64", "f32", "f64_2d", "scalar_coord"])
        ctx.bump("array_kind", kind)
        check_arrays(ctx, [c[0] for c in cases[k:k + 6]], [c[1] for c in cases[k:k + 6]], [c[2] for c in cases[k:k + 6]], kind, astronomy)
    # time arrays that belong together (one image, one pass, one day): spans from identical instants to weeks, in sorted,
    # reversed, shuffled and out-and-back (first == last) order
    spans_s = [0.0, 1.0, 60.0, 540.0, 660.0, 3600.0, 3 * 3600.0, 3.9 * 3600.0, 4.1 * 3600.0, 12 * 3600.0, 2 * 86400.0, 40 * 86400.0]
    for (t0, lon, lat) in gen(ctx, ctx.size(60, 1500)):
        span = ctx.rng.choice(spans_s)
        m = 6
        offs = [span * i / (m - 1) for i in range(m)] if ctx.rng.random() < 0.5 else sorted(ctx.rng.uniform(0.0, span) for _ in range(m))
        order = ctx.rng.choice(["sorted", "reversed", "shuffled", "out_and_back"])
        if order == "reversed":
            offs = offs[::-1]
        elif order == "shuffled":
            ctx.rng.shuffle(offs)
        elif order == "out_and_back":
            offs = [offs[0], offs[2], offs[5], offs[4], offs[1], offs[0]]
        # repeated instants (the lines of a scene share their time; a flipped scene has them in descending runs)
        if ctx.rng.random() < 0.35:
            rep = ctx.rng.choice([2, 3])
            offs = [o for o in offs[:m // rep] for _ in range(rep)]
            ctx.bump("time_cluster_repeats", "%s x%d" % (order, rep))
        try:
            ts = [t0 + dt.timedelta(seconds=o) for o in offs]
        except OverflowError:
            continue
        if not all(dt.datetime(1950, 1, 1) <= t < dt.datetime(2050, 1, 1) for t in ts):
            continue
        kind = ctx.rng.choice(["scalar_coord", "f64", "f64_2d"])
        ctx.bump("time_cluster", "%s/%gs" % (order, span))
        lons = [lon] + [ctx.rng.uniform(-360.0, 360.0) for _ in range(m - 1)]
        lats = [lat] + [ctx.rng.uniform(-90.0, 90.0) for _ in range(m - 1)]
        check_arrays(ctx, ts, lons, lats, kind, astronomy)
    # time arrays PLACED around the instants where a sun quantity wraps or changes regime (found from the Almanac reference)
    event_clusters(ctx, astronomy)
    # fresh interpreters: what the process asks FIRST (a date-only value, a coarse unit, an array ...) must not matter
    order_oracle(ctx)


# ---------------------------------------------------------------- time arrays around the instants where a quantity wraps
def _alm_angles(t):
    """Mean longitude, mean anomaly, ecliptic longitude, right ascension of the Almanac low-precision sun (radians)."""
    n = float(c12.exact_jd(t) - 2451545)
    L = math.radians((280.460 + 0.9856474 * n) % 360.0)
    g = math.radians((357.528 + 0.9856003 * n) % 360.0)
    lam = math.radians((math.degrees(L) + 1.915 * math.sin(g) + 0.020 * math.sin(2 * g)) % 360.0)
    eps = math.radians(23.439 - 0.0000004 * n)
    return {"L": L, "g": g, "lam": lam, "ra": math.atan2(math.cos(eps) * math.sin(lam), math.cos(lam))}


def _wrap(x):
    return (x + math.pi) % (2 * math.pi) - math.pi


def find_instant(angle, t_a, t_b, step_s):
    """The first instant in [t_a, t_b] at which the increasing angle(t) passes a multiple of 2 pi (scan with step_s, then
    bisection to the microsecond).  None when there is none."""
    t, s = t_a, _wrap(angle(t_a))
    while t < t_b:
        t2 = min(t + dt.timedelta(seconds=step_s), t_b)
        s2 = _wrap(angle(t2))
        if s < 0.0 <= s2 and s2 - s < math.pi:
            lo, hi = t, t2
            while hi - lo > dt.timedelta(microseconds=1):
                mid = lo + (hi - lo) / 2
                if _wrap(angle(mid)) < 0.0:
                    lo = mid
                else:
                    hi = mid
            return hi
        t, s = t2, s2
    return None


# name -> (angle(t, lon_rad) that passes 0 mod 2 pi at the instant, 'year' | 'day': how often it happens)
EVENTS = {
    "RA wraps at +-180 deg (September equinox)": (lambda t, lon: _alm_angles(t)["ra"] - math.pi, "year"),
    "RA and ecliptic longitude pass 0/360 deg (March equinox)": (lambda t, lon: _alm_angles(t)["lam"], "year"),
    "declination maximum, RA = 90 deg (June solstice)": (lambda t, lon: _alm_angles(t)["lam"] - math.pi / 2, "year"),
    "declination minimum, RA = -90 deg (December solstice)": (lambda t, lon: _alm_angles(t)["lam"] + math.pi / 2, "year"),
    "mean anomaly wraps at 0/360 deg (perihelion)": (lambda t, lon: _alm_angles(t)["g"], "year"),
    "mean anomaly 180 deg (aphelion)": (lambda t, lon: _alm_angles(t)["g"] - math.pi, "year"),
    "mean longitude wraps at 0/360 deg": (lambda t, lon: _alm_angles(t)["L"], "year"),
    "GMST wraps through 0": (lambda t, lon: float(c12.iau82_gmst(c12.exact_jd(t))), "day"),
    "hour angle 0 (local noon)": (lambda t, lon: float(c12.iau82_gmst(c12.exact_jd(t))) + lon - _alm_angles(t)["ra"], "day"),
    "hour angle wraps at +-180 deg (local midnight)": (
        lambda t, lon: float(c12.iau82_gmst(c12.exact_jd(t))) + lon - _alm_angles(t)["ra"] - math.pi, "day"),
}
FIXED_EVENTS = ["year boundary", "J2000.0 (2000-01-01 12:00)", "midnight UTC"]
LO_T, HI_T = dt.datetime(1950, 1, 1), dt.datetime(2050, 12, 31, 23, 59, 59)


def event_instant(ctx, name, lon_deg):
    """The instant of the named event in a random year (day) of 1950-2050, from the independent Almanac reference."""
    r = ctx.rng
    y = r.randrange(1950, 2051)
    if name == "year boundary":
        return dt.datetime(r.randrange(1951, 2051), 1, 1)
    if name.startswith("J2000.0"):
        return dt.datetime(2000, 1, 1, 12)
    if name == "midnight UTC":
        return dt.datetime(y, 1, 1) + dt.timedelta(days=r.randrange(365))
    angle, every = EVENTS[name]
    lon = math.radians(lon_deg)
    if every == "year":
        return find_instant(lambda t: angle(t, lon), dt.datetime(y, 1, 1), dt.datetime(y + 1, 1, 1), 20 * 86400.0)
    t_a = dt.datetime(y, 1, 1) + dt.timedelta(seconds=r.uniform(0, 364 * 86400.0))
    return find_instant(lambda t: angle(t, lon), t_a, t_a + dt.timedelta(days=1.01), 3 * 3600.0)


EVENT_SPANS_S = [60.0, 300.0, 1800.0, 3600.0, 3 * 3600.0, 6 * 3600.0, 12 * 3600.0, 20 * 3600.0, 86399.0, 86400.0]


def event_clusters(ctx, astronomy):
    """Arrays of 3-9 instants spanning minutes to a day (now and then up to three days) that STRADDLE an instant where a sun
    quantity wraps or changes regime, in sorted / reversed / shuffled / out-and-back order: every element against the Almanac."""
    r = ctx.rng
    names = list(EVENTS) + FIXED_EVENTS
    for rep in range(ctx.size(12, 150)):
        for name in names:
            lon, lat = r.uniform(-360.0, 360.0), r.uniform(-90.0, 90.0)
            te = event_instant(ctx, name, lon)
            if te is None:
                continue
            k = r.random()
            span = r.choice(EVENT_SPANS_S) if k < 0.6 else math.exp(r.uniform(math.log(60.0), math.log(86400.0))) if k < 0.9 \
                else r.choice([1.5 * 86400.0, 3 * 86400.0])
            kind = r.choice(["scalar_coord", "f64", "f64", "f64_2d"])
            m = r.choice([4, 6, 8]) if kind == "f64_2d" else r.randint(3, 9)
            inner = [span * i / (m - 1) for i in range(1, m - 1)] if r.random() < 0.5 else sorted(r.uniform(0.0, span) for _ in range(m - 2))
            offs = [0.0] + inner + [span]
            # the event lies strictly inside the span; now and then it is one of the elements
            start = -r.uniform(0.02, 0.98) * span if r.random() < 0.8 else -r.choice(inner)
            order = r.choice(["sorted", "sorted", "reversed", "shuffled", "out_and_back"])
            if order == "reversed":
                offs = offs[::-1]
            elif order == "shuffled":
                r.shuffle(offs)
            elif order == "out_and_back":
                offs = [offs[0]] + offs[2:] + [offs[0]]          # out to the far end and back to the first instant
            ts = [te + dt.timedelta(seconds=start + o) for o in offs]
            if not all(LO_T <= t <= HI_T for t in ts):
                continue
            ctx.bump("event_cluster", name)
            ctx.bump("event_cluster_span", "<=10min" if span <= 600 else "<=3h" if span <= 10800 else "<=1d" if span <= 86400 else ">1d")
            ctx.distinct(("event", name, te.isoformat(), span))
            if name.startswith("hour angle"):
                lons = [lon] * m           # the event belongs to this meridian
            else:
                lons = [lon] + [r.uniform(-360.0, 360.0) for _ in range(m - 1)]
            lats = [lat] + [r.uniform(-90.0, 90.0) for _ in range(m - 1)]
            check_arrays(ctx, ts, lons, lats, kind, astronomy, extra={"around": name, "event_utc": te.isoformat()})


# ---------------------------------------------------------------- call orders in a fresh interpreter
SUN_FNS = ("sun_ra_dec", "sun_zenith_angle", "cos_zen", "get_alt_az", "sun_ecliptic_longitude", "sun_earth_distance_correction")
NO_PLACE = ("sun_ra_dec", "sun_ecliptic_longitude", "sun_earth_distance_correction")

CHILD = r"""
import json, sys
spec = json.load(sys.stdin)
sys.path.insert(0, spec["harness"])
import lib                      # puts the code under test (PV_REPO) first on sys.path
from props import c06
out = [c06.eval_step(step) for step in spec["order"]]
import pyorbital
print(json.dumps({"pyorbital": pyorbital.__file__, "out": out}))
"""


def eval_step(step):
    """One step [kind, iso, offset_min, lon, lat, functions]: the sun functions, called in the step's order, for the time
    representation `kind` of the instant (c12.make_value) at one place.  {function: [bit patterns] | 'EXC ...'}."""
    from pyorbital import astronomy
    kind, iso, off, lon, lat, fns = step
    val = c12.make_value(kind, dt.datetime.fromisoformat(iso), off)
    out = {}
    for f in fns:
        try:
            with warnings.catch_warnings():
                warnings.simplefilter("ignore")      # numpy warns that datetime64 has no time zone (it converts to UTC)
                res = getattr(astronomy, f)(val) if f in NO_PLACE else getattr(astronomy, f)(val, lon, lat)
            parts = res if isinstance(res, tuple) else (res,)
            out[f] = [lib.f2h(float(np.asarray(p, dtype=np.float64).ravel()[0])) for p in parts]
        except Exception as e:  # noqa
            out[f] = "EXC %s: %s" % (type(e).__name__, str(e)[:200])
    return out


def run_order(order):
    """Evaluate the steps in this order in a FRESH interpreter (its first sun query is the first function of the first step)."""
    env = dict(os.environ, PV_REPO=lib.REPO)
    spec = {"harness": os.path.dirname(os.path.dirname(os.path.abspath(__file__))), "order": order}
    p = subprocess.run([sys.executable, "-c", CHILD], input=json.dumps(spec).encode(), env=env, stdout=subprocess.PIPE,
                       stderr=subprocess.PIPE, timeout=300)
    if p.returncode != 0:
        raise RuntimeError("child interpreter failed: " + p.stderr.decode(errors="replace")[-800:])
    return json.loads(p.stdout.decode().strip().split("\n")[-1])["out"]


def judge_step(step, vals):
    """The clauses of the statement for one step's answers; the instant is the one the representation denotes (a date-only
    value is midnight UTC of that day, a coarse datetime64 the start of its unit).  [(function, observed, required)]."""
    kind, iso, off, lon, lat, fns = step
    t = c12.canon(kind, dt.datetime.fromisoformat(iso))
    ref = almanac(t, lon, lat)
    zen_ref = math.pi / 2 - ref["alt"]
    label = "for %s (%s), lon %.4f, lat %.4f" % (t.isoformat(), kind, lon, lat)
    bad = []
    got = {}
    for f in fns:
        v = vals.get(f)
        if not isinstance(v, list):
            bad.append((f, v, "a value " + label))
        else:
            got[f] = [lib.h2f(x) for x in v]

    def clause(f, what, d, tol, observed, required):
        if not d <= tol:      # a NaN fails
            bad.append((f, observed, "%s %s within %s %s" % (what, required, tol_txt(what), label)))

    def tol_txt(what):
        return "0.0015 AU" if what == "distance factor" else "%.2f deg" % TOL_DEG
    if "sun_ra_dec" in got:
        ra, dec = got["sun_ra_dec"]
        clause("sun_ra_dec", "right ascension", angdiff(ra, ref["ra"]), TOL, math.degrees(ra), "%.6f deg" % math.degrees(ref["ra"]))
        clause("sun_ra_dec", "declination", angdiff(dec, ref["dec"]), TOL, math.degrees(dec), "%.6f deg" % math.degrees(ref["dec"]))
    if "get_alt_az" in got:
        alt, az = got["get_alt_az"]
        clause("get_alt_az", "altitude", angdiff(alt, ref["alt"]), TOL, math.degrees(alt), "%.6f deg" % math.degrees(ref["alt"]))
        clause("get_alt_az", "azimuth (weighted by cos altitude)", angdiff(az, ref["az"]) * max(math.cos(ref["alt"]), 0.0), TOL,
               math.degrees(az), "%.6f deg" % math.degrees(ref["az"]))
    if "sun_zenith_angle" in got:
        sza = got["sun_zenith_angle"][0]
        clause("sun_zenith_angle", "zenith angle", abs(math.radians(sza) - zen_ref), TOL, sza, "%.6f deg" % math.degrees(zen_ref))
    if "cos_zen" in got:
        cz = got["cos_zen"][0]
        clause("cos_zen", "cosine of the zenith angle", abs(cz - math.cos(zen_ref)), TOL, cz, "%.9f" % math.cos(zen_ref))
    if "sun_earth_distance_correction" in got:
        dist = got["sun_earth_distance_correction"][0]
        clause("sun_earth_distance_correction", "distance factor", abs(dist - ref["R"]), 0.0015, dist, "%.6f AU" % ref["R"])
    if "sun_zenith_angle" in got and "get_alt_az" in got:
        sza, alt = got["sun_zenith_angle"][0], got["get_alt_az"][0]
        if not (abs(sza - (90.0 - math.degrees(alt))) <= 1e-9 or abs(math.cos(math.radians(sza)) - math.sin(alt)) <= 1e-15):
            bad.append(("sun_zenith_angle", sza, "90 deg - altitude = %r to 1e-9 %s" % (90.0 - math.degrees(alt), label)))
    if "sun_zenith_angle" in got and "cos_zen" in got:
        sza, cz = got["sun_zenith_angle"][0], got["cos_zen"][0]
        if not abs(sza - math.degrees(math.acos(max(-1.0, min(1.0, cz))))) <= 1e-9:
            bad.append(("sun_zenith_angle", sza, "arccos of cos_zen = %r to 1e-9 %s" % (
                math.degrees(math.acos(max(-1.0, min(1.0, cz)))), label)))
    return bad


def judge_order(order):
    """[(step index, function, observed, required)] for every answer of the sequence that breaks a clause."""
    bad = []
    for i, (step, vals) in enumerate(zip(order, run_order(order))):
        for f, v, req in judge_step(step, vals):
            bad.append((i, f, v, req))
    return bad


def gen_orders(ctx):
    """Call orders for fresh interpreters: the time representation (and the function) of the process' FIRST sun query must
    not matter for that answer or for any later one."""
    r = ctx.rng
    lo, hi = dt.datetime(1950, 1, 8), dt.datetime(2050, 1, 1)   # the week / month / year holding the instant starts inside 1950-2050
    inst = [c for c in gen(ctx, 400) if lo <= c[0] < hi]
    later = c12.INSTANT_KINDS + c12.ARRAY_KINDS + c12.COARSE_KINDS

    def step(kind, first_fn=None):
        t, lon, lat = r.choice(inst)
        fns = list(SUN_FNS)
        r.shuffle(fns)
        if first_fn is not None:
            fns.remove(first_fn)
            fns.insert(0, first_fn)
        return [kind, t.isoformat(), r.choice(c12.OFFSETS), lon, lat, fns]

    def tail(n):
        kinds = list(later)
        r.shuffle(kinds)
        return [step(k) for k in kinds[:n]]
    orders = []
    k = r.randrange(len(SUN_FNS))
    for rep in range(ctx.size(1, 6)):
        for first in c12.DATE_KINDS + ("arr_D", "arr_date"):       # date-only value first, then ordinary instants
            k += 1
            orders.append(("date_first:" + first, [step(first, SUN_FNS[k % len(SUN_FNS)])] + tail(r.randint(8, 13))))
        for first in c12.COARSE_KINDS + ("dt64s",):
            k += 1
            orders.append(("coarse_first:" + first, [step(first, SUN_FNS[k % len(SUN_FNS)])] + tail(8) + [step(r.choice(c12.DATE_KINDS))]))
        orders.append(("instants_first", [step(x) for x in c12.INSTANT_KINDS + c12.DATE_KINDS + c12.ARRAY_KINDS]))
        orders.append(("arrays_first", [step(x) for x in c12.ARRAY_KINDS[:3] + c12.DATE_KINDS + c12.INSTANT_KINDS]))
        orders.append(("random", [step(r.choice(later + c12.DATE_KINDS)) for _ in range(12)]))
    return orders


def order_oracle(ctx):
    orders = gen_orders(ctx)
    with ThreadPoolExecutor(max_workers=4) as ex:
        results = list(ex.map(lambda o: judge_order(o[1]), orders))
    for (name, order), bad in zip(orders, results):
        ctx.bump("call_order", name.split(":")[0])
        ctx.count("eval_oracle_order", sum(len(s[5]) for s in order))
        ctx.distinct(("order", name, order[0][1], order[1][1]))
        for i, f, v, req in bad[:3]:
            ctx.violation("call_order", {"order": order, "family": name, "index": i, "function": f}, v,
                          req + " (step %d, %s, of a fresh interpreter whose first sun query was %s(%s))" % (
                              i, order[i][0], order[0][5][0], order[0][0]), site="astronomy." + f)


def _coords(kind, xs):
    if kind == "i64":
        return np.array([round(x) for x in xs], dtype=np.int64)
    if kind == "f32":
        return np.array(xs, dtype=np.float32)
    if kind == "f64_2d":
        return np.array(xs, dtype=np.float64).reshape(2, -1)
    return np.array(xs, dtype=np.float64)


def check_arrays(ctx, ts, lons, lats, kind, astronomy, extra=None):
    """Array-valued times and coordinates against the Almanac reference, element by element."""
    tarr = np.array([np.datetime64(t) for t in ts])
    if kind == "scalar_coord":
        alon, alat = float(lons[0]), float(lats[0])
        vl, vt = [alon] * len(ts), [alat] * len(ts)
    else:
        alon, alat = _coords(kind, lons), _coords(kind, lats)
        vl = [float(x) for x in np.asarray(alon, dtype=np.float64).ravel()]
        vt = [float(x) for x in np.asarray(alat, dtype=np.float64).ravel()]
        if kind == "f64_2d":
            tarr = tarr.reshape(2, -1)
    tol_deg = TOL_DEG + (2e-3 if kind == "f32" else 0.0)      # float32 coordinates carry 1e-5 deg of their own
    case0 = {"utcs": [t.isoformat() for t in ts], "lons": list(map(float, lons)), "lats": list(map(float, lats)), "kind": kind}
    case0.update(extra or {})
    n0 = len(ctx.violations)
    ra, dec = astronomy.sun_ra_dec(tarr)
    lam = astronomy.sun_ecliptic_longitude(tarr)
    cz = astronomy.cos_zen(tarr, alon, alat)
    sza = astronomy.sun_zenith_angle(tarr, alon, alat)
    alt, az = astronomy.get_alt_az(tarr, alon, alat)
    flat = lambda x: np.asarray(x, dtype=np.float64).ravel()
    ra, dec, lam, cz, sza, alt, az = map(flat, (ra, dec, lam, cz, sza, alt, az))
    for i, t in enumerate(ts):
        ctx.count("eval_oracle_array")
        ref = almanac(t, vl[i], vt[i])
        zen_ref = math.pi / 2 - ref["alt"]
        case = dict(case0, index=i)
        checks = (("ra", angdiff(float(ra[i]), ref["ra"])), ("dec", angdiff(float(dec[i]), ref["dec"])),
                  ("ecl_lon", angdiff(float(lam[i]), ref["lam"])), ("alt", angdiff(float(alt[i]), ref["alt"])),
                  ("az", angdiff(float(az[i]), ref["az"]) * max(math.cos(ref["alt"]), 0.0)),
                  ("zenith", abs(math.radians(float(sza[i])) - zen_ref)), ("cos_zen", abs(float(cz[i]) - math.cos(zen_ref))))
        for nm, d in checks:
            if not d <= math.radians(tol_deg):
                ctx.violation("almanac_array_" + nm, case, d, "within %.3f deg of the Almanac value (array call, element %d)" % (tol_deg, i),
                              site="astronomy")
                return len(ctx.violations) - n0
    return len(ctx.violations) - n0


def match_known(entry, v):
    return False


def replay(ctx, case):
    from pyorbital import astronomy
    inp = case.get("input", case)
    if "order" in inp:
        bad = judge_order(inp["order"])
        for b in bad[:8]:
            print("call order: step %d %s %s -> %r, required %s" % (b[0], inp["order"][b[0]][0], b[1], b[2], b[3]))
        return 1 if bad else 0
    if "utcs" in inp:
        n = check_arrays(ctx, [dt.datetime.fromisoformat(x) for x in inp["utcs"]], inp["lons"], inp["lats"], inp["kind"], astronomy)
        print("array case", inp["kind"], "violations", n)
        return 1 if n else 0
    t = dt.datetime.fromisoformat(inp["utc"])
    before = len(ctx.violations)
    check_one(ctx, t, inp["lon"], inp["lat"], astronomy)
    for v in ctx.violations[before:]:
        print(v)
    return 1 if len(ctx.violations) > before else 0
