"""C11 — orbit numbers count ascending-node crossings; last-node time is a real node."""
import contextlib
import datetime as dt
import itertools
import math
import os
import signal
import time
import threading
import warnings

import numpy as np

import lib
import tlegen

ID = "C11"
LEAN_TARGETS = ["PV.Props.C11"]
# T-D: functions translated from the source by harness/pytrans.py, proved equal to the model (DESIGN section 0)
EQUIV = {"PV.Equiv.TranslatedOrbitNumReal": ["orbit_float_eq", "orbit_int_eq"],
         "PV.Equiv.TranslatedOrbitNum": ["get_orbit_number_float_eq", "get_orbit_number_int_eq"],
         "PV.Equiv.TranslatedNodeSearch": ["step_phase", "bisect_phase", "get_last_an_time_eq"]}
EQUIV.update({"PV.Equiv.TranslatedCrossing": ["nprime_int_val", "nprime_float_val", "crossing_ascending_eq", "crossing_descending_eq"]})      # T-D, fifth wave
EQUIV["PV.Equiv.TranslatedCrossing"] = EQUIV.get("PV.Equiv.TranslatedCrossing", []) + ["gon_frame", "gon_pure", "crossing_ascending_kernels", "crossing_descending_kernels", "crossRoot_crossingTime"]      # T-D, sixth wave
EQUIV.update({"PV.Equiv.TranslatedCrossingReal": ["toInt_pyInt", "crossRoot_crossingTime_real"]})
RULE = ("TLEs: the repo's test TLEs and tlegen's real near-earth sets (own derivative fields) plus generated near-earth/LEO sets with "
        "inclination 3-177 deg (families: any, draggy, low |sin i| incl. exactly 3 and 177 deg, eccentric, epoch within 1.5 km of the ascending "
        "(or, 1 in 5, descending) node on either side, drag-free) whose ndot/2 and nddot/6 fields are re-encoded from the SGP4 secular "
        "rate (1.5 c1 n, (d2+2c1^2) n; zero for drag-free sets); sets on which the propagator refuses inside the window are skipped "
        "(C13). Instants in [epoch-1 d, epoch+5 d]: uniform, the epoch, and every trajectory crossing -/+ (slack + 1 ms), each in one "
        "of 7 representations (naive/UTC-aware datetime, datetime64[m|s|ms|us|ns]; ns instants carry a sub-microsecond part). "
        "Correspondence: the model is given the (tick, z) sequence the real get_last_an_time asked get_position for and must ask for "
        "the same ticks in the same order and return the same tick in the same unit (all 7 representations); get_orbit_number on a "
        "fresh object (position queries, cached node time and period as integers, value bit-exact), day counts and the closed form "
        "bit-exact for all 4 flag combinations x 7 representations; the crossing-time offset / None decision. Oracle: crossings from "
        "5 s sampling + bisection of z of get_position to 1 us; every implementation call under a 3 s watchdog; the last-node clauses "
        "are judged on fresh objects AND on objects that have already answered get_orbit_number, the latter at 10 ms-30 s after "
        "true nodes 0-5 d from epoch (all nodes for the draggy family: B* 2e-4..1.2e-3 at 15.0-15.65 rev/d), and the last-node "
        "query takes part in the order-of-first-use permutations; the crossing time is asked with arbitrary bounds in one "
        "representation and with whole-minute bounds in all seven (each must meet the clause, all must agree to 1 us). "
        "Process time zone: for every oracle set the last-node and orbit-number clauses are evaluated again with TZ set to two POSIX "
        "rules other than UTC (one west, one east of Greenwich; whole and fractional hours, with and without summer time; "
        "time.tzset, restored afterwards): all 7 representations of a whole minute (each must meet the clauses, the node results "
        "must lie within 2 km of z of each other, the integer numbers must be equal away from a crossing) and a sub-minute "
        "instant as naive/UTC-aware datetime and datetime64[ns]. Short-arc family (last-node clauses only, not part of the count "
        "population): e 0.3-0.7 with the argument of perigee within 30 deg of 90 or 270 deg, perigee height 150-1500 km, half of "
        "them with the largest eccentricity a 225-minute period allows at that perigee less 0-0.06 (what the library refuses as "
        "deep space is dropped: e <= ~0.46 remains); queries uniform and 1 s-10 min after every kind of equator crossing, each in "
        "one of the 7 representations; 'no other node' against the 5 s scan of z, extended backwards to a result older than the window. "
        "Follow-up queries (sequences built from the check's own answers): every distinct node tick t_n returned to the oracle's "
        "last-node queries is asked again, on one object per set, at t_n + k*10 min exactly (k = 1..9), at t_n and at t_n -/+ 1 us, "
        "in rotating representations that hold the instant exactly (naive/aware/us/ns; ns for a sub-microsecond tick): the first "
        "ticks of a set with all twelve, the others with one multiple and (every second) one instant at the node, in rotation. "
        "Slow family (every clause, own population after the others): mean motion from the smallest the library takes as near-earth "
        "(Brouwer period 225 min less 1e-7..3 min) to 9 rev/day, e 1e-5..2e-3 at inclination 3-177 deg or e 0.01-0.25 at |sin i| > 0.6; "
        "last-node queries uniform and 1 s-50 min before each trajectory crossing (scans of up to 23 steps). An exception raised "
        "by get_last_an_time / get_orbit_number / get_equatorial_crossing_time itself (innermost frame) is a violation whatever its "
        "type; only exceptions from inside the propagator count as refusals. "
        "distinct = (tle, representation, ticks)")
ASSUMPTIONS = [
    "the count clause is judged where the expected number is >= 0 (for negative numbers 'truncated value' and 'crossing count' contradict each other)",
    "slack 2 s + 5 s/day applied at both ends of the counting interval (DESIGN section 7)",
    "'no other ascending node after it': the crossing that the returned tick itself brackets (z(result) in [-1 km, 0]) is the same node",
    "crossing-time root tolerance = the function's own rtol on microseconds since 1970 (default 1e-9: 1.7 s), times 1.5",
    "a naive datetime denotes UTC whatever the time zone of the process (the statement's 'naive or UTC datetime'); representations of "
    "one instant are one query: two results that each lie within 1 km of z of the last node lie within 2 km of z of each other",
    "agreement of the closed form with the propagated trajectory, northward velocity, 'no other node' and the termination of the "
    "backward stepping loop are measured (oracle, watchdog), not proved; IEEE rounding of the cubic is compared bit for bit, not proved",
]
TRUSTED = ["models PV.Model.NodeSearch, PV.Model.OrbitNum (hand-written from orbital.py get_last_an_time / get_orbit_number / "
           "get_equatorial_crossing_time, astronomy._days); scipy.optimize.bisect as an abstract root finder (BisContract)"]
LEVEL_TEXT = ("Theorems: TBUS = +1 and int() = truncation (every reading, Float included); the continuous number is strictly increasing "
              "on [-1.2, 5.2] d for every near-earth period and |ndot/2| <= 0.25, |nddot/6| <= 0.03, the integer number never decreases; "
              "value rev at the reference node, rev + k after k nodal periods; same instant in any unit gives the same day count; any "
              "history of queries returns what a fresh object returns (cache invariant, interrupted initialisations included); "
              "get_last_an_time over integer ticks and an abstract z: stepping post-condition (z > 0 / z < 0 ten minutes apart, a "
              "south-to-north zero of any continuous trajectory strictly inside), result in that bracket, |z| <= tol, not later than the "
              "query in every representation; termination of the bisection within log2(step)+2 iterations whenever z moves <= tol per "
              "tick (41 iterations for every representation after the microsecond lift); negative theorem: with 1 s or 1 min ticks "
              "there are 7 km/s trajectories on which it never returns; the crossing time is within delta+1 us of an instant where the "
              "continuous number equals the integer int(n_end). Tie: the model reproduces the real search tick by tick on recorded z.")
LEVEL_NOTE = ("Trusted: Lean kernel + Mathlib reals (propext, Classical.choice, Quot.sound); hand-written models; correspondence harness; "
              "numpy datetime64 arithmetic; scipy bisect contract. Measured, not proved: crossing count of the propagated trajectory "
              "within 2 s + 5 s/day (known exception: eccentric low-inclination sets), vz > 0, no other node, stepping-loop termination.")
TECHNIQUE = ("Lean 4 proof (integer bisection by the halving measure, polynomial monotonicity, intermediate value theorem, cache "
             "invariant) + tick-by-tick differential correspondence on recorded z + crossing-count oracle")

EPOCH70 = dt.datetime(1970, 1, 1)
DAY_US = 86400 * 10 ** 6
NS_PER = {"ns": 1, "us": 10 ** 3, "ms": 10 ** 6, "s": 10 ** 9, "m": 60 * 10 ** 9}
REPS = ["naive", "aware", "m", "s", "ms", "us", "ns"]
WATCHDOG_S = 3.0       # a search takes 2-3 ms
MAX_TIMEOUTS_PER_KIND = 2

# element sets of pyorbital/tests/test_orbital.py (orbit-number and node-time tests)
REPO_TLES = [
    ("1 37849U 11061A   12017.90990040 -.00000112  00000-0 -32693-4 0   772", "2 37849  98.7026 317.8811 0001845  92.4533 267.6830 14.19582686 11574"),
    ("1 29499U 06044A   11254.96536486  .00000092  00000-0  62081-4 0  5221", "2 29499  98.6804 312.6735 0001758 111.9178 248.2152 14.21501774254058"),
    ("1 29499U 06044A   13060.48822809  .00000017  00000-0  27793-4 0  9819", "2 29499  98.6639 121.6164 0001449  71.9056  43.3132 14.21510544330271"),
    ("1 37849U 11061A   13061.24611272  .00000048  00000-0  43679-4 0  4334", "2 37849  98.7444   1.0588 0001264  63.8791 102.8546 14.19528338 69643"),
    ("1 43013U 17073A   24176.73674251  .00000000  00000+0  11066-3 0 00014", "2 43013  98.7060 114.5340 0001454 139.3958 190.7541 14.19599847341971"),
    ("1 25544U 98067A   03097.78853147  .00021906  00000-0  28403-3 0  8652", "2 25544  51.6361  13.7980 0004256  35.6671  59.2566 15.58778559250029"),
]


# ------------------------------------------------------------------------------------------------ plumbing
def _orbital():
    from pyorbital import orbital
    return orbital


def new_orbital(l1, l2):
    with warnings.catch_warnings():
        warnings.simplefilter("ignore")
        return _orbital().Orbital("x", line1=l1, line2=l2)


class Timeout(Exception):
    pass


def guarded(fn, seconds=WATCHDOG_S):
    """fn() with a wall-clock guard: a search that does not return becomes Timeout, not a hang."""
    if threading.current_thread() is not threading.main_thread():
        return fn()

    def on_alarm(signum, frame):
        raise Timeout()
    old = signal.signal(signal.SIGALRM, on_alarm)
    signal.setitimer(signal.ITIMER_REAL, seconds)
    try:
        with warnings.catch_warnings():
            warnings.simplefilter("ignore")
            return fn()
    finally:
        signal.setitimer(signal.ITIMER_REAL, 0)
        signal.signal(signal.SIGALRM, old)


CODE_UNDER_TEST = ("get_last_an_time", "get_orbit_number", "get_equatorial_crossing_time")


def is_refusal(e):
    """decay / refusal of the propagator (C13's subject), as opposed to an accident inside the code under test: an
    exception that one of the three functions of this property raises ITSELF (innermost frame) is that function not
    terminating with a result, whatever its type."""
    import traceback
    if not (type(e).__name__ == "OrbitalError" or "crashed" in str(e)):
        return False
    tb = traceback.extract_tb(e.__traceback__)
    return not (tb and tb[-1].name in CODE_UNDER_TEST and tb[-1].filename.endswith("orbital.py"))


def raised(e):
    import traceback
    tb = traceback.extract_tb(e.__traceback__)
    where = "%s:%d" % (tb[-1].filename.split("/")[-1], tb[-1].lineno) if tb else "?"
    return ("raises", "%s: %s (%s)" % (type(e).__name__, str(e)[:200], where), "a result (no exception)", {})


def make_rep(kind, ns):
    """The representation `kind` of the instant `ns` (ns since 1970), truncated to what the representation can hold."""
    if kind in ("naive", "aware"):
        return {"kind": kind, "ticks": ns // 1000}
    return {"kind": kind, "ticks": ns // NS_PER[kind]}


def rep_unit(rep):
    return "us" if rep["kind"] in ("naive", "aware") else rep["kind"]


def rep_ns(rep):
    return rep["ticks"] * NS_PER[rep_unit(rep)]


def rep_value(rep):
    if rep["kind"] in ("naive", "aware"):
        t = EPOCH70 + dt.timedelta(microseconds=rep["ticks"])
        return t.replace(tzinfo=dt.timezone.utc) if rep["kind"] == "aware" else t
    return np.datetime64(rep["ticks"], rep["kind"])


def search_unit(rep):
    return "ns" if rep["kind"] == "ns" else "us"


def ticks_of(t64):
    return int(t64.astype(np.int64)), np.datetime_data(t64.dtype)[0]


def epoch_us(o):
    return int(o.tle.epoch.astype("datetime64[us]").astype(np.int64))


class Recorder:
    """Wraps get_position / get_last_an_time of ONE object: every position query (unit, tick, z, vz) in order, and every
    get_last_an_time call with the slice of queries it made and its result."""

    def __init__(self, o):
        self.o = o
        self.queries = []
        self.an_calls = []
        gp = o.get_position
        la = o.get_last_an_time

        def get_position(utc_time, normalize=True):
            r = gp(utc_time, normalize=normalize)
            t64 = utc_time if isinstance(utc_time, np.datetime64) else np.datetime64(utc_time)
            if t64.ndim == 0 and not normalize:
                tick, unit = ticks_of(t64)
                self.queries.append((unit, tick, float(r[0][2]), float(r[1][2])))
            return r

        def get_last_an_time(utc_time):
            start = len(self.queries)
            res = la(utc_time)
            self.an_calls.append({"arg": utc_time, "queries": self.queries[start:], "result": res})
            return res
        o.get_position = get_position
        o.get_last_an_time = get_last_an_time


def table_args(queries):
    return " ".join("%d %s" % (tick, lib.f2h(z)) for (_, tick, z, _) in queries)


# ------------------------------------------------------------------------------------------------ generators
def sgp4_secular(o):
    """ndot/2 [rev/day^2] and nddot/6 [rev/day^3] of the SGP4 mean longitude: xnodp * (t2cof t^2 + t3cof t^3) / 2pi, t in minutes."""
    orbital = _orbital()
    s = o._sgdp4
    nd = 1.5 * s.c1 * s.xnodp * 1440.0 ** 2 / (2 * math.pi)
    t3 = s.t3cof if s.mode == orbital.SGDP4_NEAR_NORM else 0.0
    ndd = s.xnodp * t3 * 1440.0 ** 3 / (2 * math.pi)
    return float(nd), float(ndd)


def fmt_ndot(x):
    return ("-" if x < 0 else " ") + ("%.8f" % abs(x))[1:]


def fmt_nddot(x):
    if x == 0:
        return " 00000-0"
    e = math.floor(math.log10(abs(x))) + 1
    m = int(round(abs(x) / 10.0 ** e * 1e5))
    if m >= 100000:
        m //= 10
        e += 1
    if e < -9 or m == 0:
        return " 00000-0"
    if e > 0:
        return None
    return "%s%05d-%d" % ("-" if x < 0 else " ", m, -e)


def answers_window(o):
    """True when the propagator answers over the whole window (no decay / refusal: C13's subject)."""
    e = epoch_us(o)
    try:
        ts = (e + np.arange(-1.3 * DAY_US, 5.2 * DAY_US, 600e6).astype(np.int64)).astype("datetime64[us]")
        with warnings.catch_warnings():
            warnings.simplefilter("ignore")
            p, v = o.get_position(ts, normalize=False)
        return bool(np.all(np.isfinite(p)))
    except Exception:  # noqa
        return False


def in_domain(o):
    return 3.0 <= float(o.tle.inclination) <= 177.0


def gen_tle(ctx, family):
    """(line1, line2, family) of a near-earth set in the statement's domain with consistent derivative fields, or None."""
    r = ctx.rng
    for _ in range(200):
        ov = {}
        regime = r.choice(["near", "leo"])
        if family == "lowinc":
            ov["incl"] = "%8.4f" % r.choice([r.uniform(3, 20), r.uniform(160, 177), 3.0, 177.0])
            ov["ecc"] = "%07d" % r.randrange(0, 30000)
        elif family == "draggy":
            # ~350-550 km, near-circular, B* 2e-4 .. 1.2e-3: the nodes arrive seconds earlier than a constant period predicts
            ov["incl"] = "%8.4f" % r.choice([r.uniform(3, 177), 97.4, 51.6, r.uniform(60, 120)])
            ov["ecc"] = "%07d" % r.randrange(0, 20000)
            ov["mmotion"] = "%11.8f" % r.uniform(15.0, 15.65)
            b = r.uniform(2e-4, 1.2e-3)
            ov["bstar"] = " %05d-3" % int(b * 1e8) if b < 1e-3 else " %05d-2" % int(b * 1e7)
            regime = "leo"
        elif family == "eccentric":
            ov["incl"] = "%8.4f" % r.choice([r.uniform(3, 177), r.uniform(3, 35), r.uniform(145, 177)])
            ov["ecc"] = "%07d" % int(10 ** r.uniform(-2, -0.5) * 1e7)
            regime = "near"
        elif family == "shortarc":
            # e 0.3-0.7 with the perigee over the northern or southern hemisphere: the satellite crosses that hemisphere in a
            # small part of the revolution (22 % at e = 0.45).  The mean motion follows from a perigee height of 150-1500 km;
            # what the library does not take as a near-earth set (period >= 225 min: e above ~0.46) is dropped below.
            # Half of the draws take the largest eccentricity a near-earth set of that perigee height can have (period 225 min:
            # a = 12270 km) less up to 0.06: the shortest arcs in the domain.
            rp_km = 6378.135 + r.choice([r.uniform(150, 1500), r.uniform(150, 600)])
            ecc = r.choice([r.uniform(0.3, 0.7), max(0.3, 1 - rp_km / 12270.0 - r.uniform(0, 0.06))])
            a_km = rp_km / (1 - ecc)
            ov["ecc"] = "%07d" % int(ecc * 1e7)
            ov["mmotion"] = "%11.8f" % (math.sqrt(398600.8 / a_km ** 3) * 86400.0 / (2 * math.pi))
            ov["argp"] = "%8.4f" % (r.choice([90.0, 270.0]) + r.choice([0.0, r.uniform(-30, 30), r.uniform(-10, 10)]))
            ov["incl"] = "%8.4f" % r.choice([r.uniform(3, 177), r.uniform(30, 150), 63.4349, 116.5651])
            regime = "near"
        elif family == "slow":
            # the slow end of the near-earth domain: mean motion from the smallest the library takes as near-earth (period
            # just below 225 min, located on the Brouwer period of an own transcription of the model's recovery) up to
            # 9 rev/day (160 min); circular and moderately eccentric.  A revolution takes up to 22 ten-minute steps of the
            # backward scan.  Eccentric members keep |sin i| > 0.6 (the apsidal drift of eccentric low-inclination sets is
            # the recorded finding K-C11-ECCENTRIC-APSIDAL, whose population stays what it was).
            ecc = r.choice([10 ** r.uniform(-5, -2.7), r.uniform(0.01, 0.25)])
            e7 = min(max(int(ecc * 1e7), 1), 9999999)
            if ecc < 0.02:
                incl = r.choice([r.uniform(3, 177), r.uniform(3, 177), 63.4349, r.uniform(80, 100), r.uniform(3, 30), r.uniform(150, 177)])
            else:
                incl = r.choice([r.uniform(37, 143), r.uniform(37, 143), 63.4349, 116.5651, r.uniform(80, 100)])
            incl = float("%8.4f" % incl)
            lo, hi = 6.0, 6.8
            for _ in range(60):        # printed mean motion whose Brouwer period is 225 min (decreasing in the mean motion)
                mid = 0.5 * (lo + hi)
                if tlegen.brouwer(mid, e7 / 1e7, incl)[1] > 225.0:
                    lo = mid
                else:
                    hi = mid
            mm = r.choice([hi + 10 ** r.uniform(-7.5, -1), r.uniform(hi, 8.0), r.uniform(hi, 9.0)])
            ov.update({"incl": "%8.4f" % incl, "ecc": "%07d" % e7, "mmotion": "%11.8f" % mm})
            regime = "near"
        else:
            ov["incl"] = "%8.4f" % r.choice([r.uniform(3, 177), r.uniform(3, 177), 98.7, 51.6, 63.4349, r.uniform(80, 100)])
        if family == "dragfree" or (family != "draggy" and r.random() < 0.15):
            ov.update({"bstar": " 00000-0", "ndot": " .00000000", "nddot": " 00000-0"})
        rev = r.randrange(20, 99999) if r.random() < 0.85 else r.randrange(0, 20)
        ov["rev"] = "%5d" % rev
        f, l1, l2 = tlegen.random_tle(r, regime, overrides=ov)
        try:
            o = new_orbital(l1, l2)
            o.get_position(o.tle.epoch)
        except Exception:  # noqa
            continue
        if not in_domain(o) or not answers_window(o):
            continue
        if family == "atnode":
            ok = False
            target_km = r.uniform(-1.5, 1.5)
            descending = r.random() < 0.2          # epoch next to the DESCENDING node: the vz guard of the at-node rule
            for _ in range(5):
                e = epoch_us(o)
                cs = crossings(o, e - int(0.12 * DAY_US), e + int(0.12 * DAY_US))
                if not len(cs):
                    break
                c0 = int(cs[int(np.argmin(np.abs(cs - e)))])
                if descending:
                    c0 = descending_after(o, c0)
                p, v = o.get_position(np.datetime64(c0, "us"), normalize=False)
                dts = (c0 - e) / 1e6 + target_km / (float(v[2]) if abs(float(v[2])) > 1e-3 else 1e-3)
                m = (float(f["manom"]) + 360.0 * float(o.tle.mean_motion) * dts / 86400.0) % 360.0
                f["manom"] = "%8.4f" % m
                l1, l2 = tlegen.encode(f)
                try:
                    o = new_orbital(l1, l2)
                    z = float(o.get_position(o.tle.epoch, normalize=False)[0][2])
                except Exception:  # noqa
                    break
                if abs(z - target_km) < 0.3:
                    ok = True
                    break
            if not ok:
                continue
        nd, ndd = sgp4_secular(o)
        a, b = fmt_ndot(nd), fmt_nddot(ndd)
        if abs(nd) >= 1 or b is None:
            continue
        f["ndot"], f["nddot"] = a, b
        l1, l2 = tlegen.encode(f)
        try:
            o = new_orbital(l1, l2)
        except Exception:  # noqa
            continue
        return l1, l2, family
    return None


def descending_after(o, c_us):
    """microsecond of the north-to-south equator crossing following the ascending crossing c"""
    a, b = c_us + 60 * 10 ** 6, c_us + int(0.17 * DAY_US)
    ts = np.arange(a, b, 5 * 10 ** 6, dtype=np.int64)
    z = o.get_position(ts.astype("datetime64[us]"), normalize=False)[0][2]
    i = int(np.where((z[:-1] > 0) & (z[1:] <= 0))[0][0])
    a, b = int(ts[i]), int(ts[i + 1])
    while b - a > 1:
        m = (a + b) // 2
        if o.get_position(np.datetime64(m, "us"), normalize=False)[0][2] > 0:
            a = m
        else:
            b = m
    return b


def real_tles():
    out = []
    for (l1, l2) in REPO_TLES + [(a, b) for (_, a, b) in tlegen.REAL_TLES]:
        try:
            o = new_orbital(l1, l2)
            o.get_position(o.tle.epoch)
        except Exception:  # noqa  deep space / decayed
            continue
        if in_domain(o) and answers_window(o) and (l1, l2, "real") not in out:
            out.append((l1, l2, "real"))
    return out


def gen_tles(ctx, n, n_real):
    out = real_tles()
    ctx.rng.shuffle(out)
    out = out[:n_real]
    fams = ["any", "draggy", "lowinc", "eccentric", "atnode", "dragfree", "any", "draggy", "atnode", "eccentric", "lowinc"]
    i = 0
    while len(out) < n:
        t = gen_tle(ctx, fams[i % len(fams)])
        i += 1
        if t:
            out.append(t)
    return out


# ------------------------------------------------------------------------------------------------ the trajectory's own crossings
def crossings(o, t0_us, t1_us, step_us=5000000, down=False, samples=None):
    """South-to-north equator crossings of get_position's z in [t0, t1]: for each the first microsecond with z > 0
    (5 s sampling, then bisection, all crossings at once).  down=True: the north-to-south crossings instead (first
    microsecond with z <= 0).  `samples`: a one-element list that keeps the sampled z for a second call on the same interval."""
    n = int((t1_us - t0_us) // step_us) + 2
    ts = t0_us + step_us * np.arange(n, dtype=np.int64)
    with warnings.catch_warnings():
        warnings.simplefilter("ignore")
        if samples:
            z = samples[0]
        else:
            z = o.get_position(ts.astype("datetime64[us]"), normalize=False)[0][2]
            if samples is not None:
                samples.append(z)
        if down:
            idx = np.where((z[:-1] > 0) & (z[1:] <= 0))[0]
        else:
            idx = np.where((z[:-1] <= 0) & (z[1:] > 0))[0]
        a = ts[idx].copy()
        b = ts[idx + 1].copy()
        while len(a) and np.any(b - a > 1):
            m = (a + b) // 2
            zm = o.get_position(m.astype("datetime64[us]"), normalize=False)[0][2]
            up = (zm <= 0) if down else (zm > 0)
            b = np.where(up, m, b)
            a = np.where(up, a, m)
    return b


def slack_s(t_us, e_us):
    return 2.0 + 5.0 * abs(t_us - e_us) / DAY_US


def signed_count(cs, a_us, b_us):
    """crossings in (a, b] when b >= a, minus the crossings in (b, a] otherwise"""
    if b_us >= a_us:
        return int(np.sum((cs > a_us) & (cs <= b_us)))
    return -int(np.sum((cs > b_us) & (cs <= a_us)))


def count_bounds(cs, e_us, rev, t_us):
    """[lo, hi] for the integer orbit number at instant t (microseconds, float): rev + signed count of crossings between the
    epoch and t, each end of the counting interval taken anywhere within its slack (2 s at the epoch, 2 s + 5 s/day at t):
    a crossing that close to either end may or may not be counted."""
    s0 = 2.0e6
    st = slack_s(t_us, e_us) * 1e6
    return rev + signed_count(cs, e_us + s0, t_us - st), rev + signed_count(cs, e_us - s0, t_us + st)


class Sat:
    """One element set: a factory of fresh objects, the trajectory's crossings over the window."""

    def __init__(self, l1, l2, family="?"):
        self.l1, self.l2, self.family = l1, l2, family
        o = self.fresh()
        self.e_us = epoch_us(o)
        self.rev = int(o.tle.orbit)
        self.incl = float(o.tle.inclination)
        self.ecc = float(o.tle.excentricity)
        self.mm = float(o.tle.mean_motion)
        self._cs = None
        self._z = []
        self._ref = o

    def fresh(self):
        return new_orbital(self.l1, self.l2)

    def base(self):
        return {"line1": self.l1, "line2": self.l2, "family": self.family, "inclination": self.incl, "eccentricity": self.ecc}

    def cs(self):
        if self._cs is None:
            self._cs = crossings(self._ref, self.e_us - int(1.3 * DAY_US), self.e_us + int(5.15 * DAY_US), samples=self._z)
        return self._cs

    def ds(self):
        """north-to-south crossings over the window"""
        if getattr(self, "_ds", None) is None:
            self._ds = crossings(self._ref, self.e_us - int(1.3 * DAY_US), self.e_us + int(5.15 * DAY_US), down=True, samples=self._z)
        return self._ds

    def nodes_before_window(self, from_us):
        """South-to-north crossings between `from_us` (at most 12 days before the window) and the start of the window
        covered by cs(): the same dense scan (5 s sampling of z of get_position, far below the shortest stay of a
        near-earth satellite on one side of the equator), made only when a returned node lies before the window."""
        w0 = self.e_us - int(1.3 * DAY_US)
        a = max(int(from_us), w0 - 12 * DAY_US)
        if a >= w0:
            return np.zeros(0, dtype=np.int64)
        key = a // (DAY_US // 4)
        cache = self.__dict__.setdefault("_before", {})
        if key not in cache:
            try:
                cache[key] = crossings(self._ref, key * (DAY_US // 4), w0 + 10 ** 7)
            except Exception:  # noqa  propagator refuses that far back: nothing to compare with
                cache[key] = np.zeros(0, dtype=np.int64)
        c = cache[key]
        return c[c < w0]

    def zvz(self, ns):
        with warnings.catch_warnings():
            warnings.simplefilter("ignore")
            p, v = self._ref.get_position(np.datetime64(int(ns), "ns"), normalize=False)
        return float(p[2]), float(v[2])

    def with_exact_nodes(self, o):
        """A fresh object whose cached reference node and nodal period are the trajectory's own crossings nearest to the ones
        `o` cached (used only to classify a count violation)."""
        cs = self.cs()
        an = int(o.orbit_elements.an_time.astype("datetime64[us]").astype(np.int64))
        i = int(np.argmin(np.abs(cs - an)))
        if i == 0:
            return None
        o2 = self.fresh()
        o2.orbit_elements.an_time = np.datetime64(int(cs[i]), "us")
        o2.orbit_elements.an_period = np.timedelta64(int(cs[i] - cs[i - 1]), "us")
        return o2


# ------------------------------------------------------------------------------------------------ judgements (oracle + replay)
def judge_number(sat, o, rep):
    """Violations of the orbit-number clauses at one instant: list of (kind, observed, required, extra)."""
    val = rep_value(rep)
    t_us = rep_ns(rep) // 1000 + (rep_ns(rep) % 1000) / 1000.0
    out = []

    def q(**kw):
        with warnings.catch_warnings():
            warnings.simplefilter("ignore")
            return o.get_orbit_number(val, **kw)
    try:
        n_int = q()
        n_flt = float(q(as_float=True))
    except Timeout:
        raise
    except Exception as e:  # noqa
        if is_refusal(e):
            raise
        return [raised(e)], 0, 0.0
    if not isinstance(n_int, (int, np.integer)):
        out.append(("int_type", repr(type(n_int)), "an integer", {}))
    n_int = int(n_int)
    if n_int != math.trunc(n_flt):
        out.append(("trunc", n_int, "int(%r) = %d" % (n_flt, math.trunc(n_flt)), {}))
    tb = q(tbus_style=True)
    tbf = float(q(tbus_style=True, as_float=True))
    if int(tb) != n_int + 1 or tbf != n_flt + 1:
        out.append(("tbus", [int(tb), tbf], [n_int + 1, n_flt + 1], {}))
    lo, hi = count_bounds(sat.cs(), sat.e_us, sat.rev, t_us)
    if lo >= 0 and not (lo <= n_int <= hi):
        ze, vze = sat.zvz(sat.e_us * 1000)
        extra = {"days_from_epoch": (t_us - sat.e_us) / DAY_US, "slack_s": slack_s(t_us, sat.e_us), "lo": lo, "hi": hi,
                 "epoch_z_km": ze, "epoch_vz_kms": vze}
        try:
            o2 = sat.with_exact_nodes(o)
            if o2 is not None:
                with warnings.catch_warnings():
                    warnings.simplefilter("ignore")
                    n2 = int(o2.get_orbit_number(val))
                    cs = sat.cs()
                    c = int(cs[int(np.argmin(np.abs(cs - t_us)))])
                    nc = float(o2.get_orbit_number(np.datetime64(c, "us"), as_float=True))
                    p_s = float(o2.orbit_elements.an_period / np.timedelta64(1, "s"))
                extra["holds_with_exact_nodes"] = bool(lo <= n2 <= hi)
                # how far the closed form ITSELF (nodes located exactly) is from the nearest trajectory crossing, in units of the slack
                extra["exact_nodes_rel_error"] = abs(nc - round(nc)) * p_s / slack_s(c, sat.e_us)
                extra["abs_sin_inclination"] = abs(math.sin(math.radians(sat.incl)))
        except Exception as e:  # noqa
            extra["exact_nodes_error"] = repr(e)
        out.append(("count", n_int, "between %d and %d (rev %d + signed crossing count, slack at both ends)" % (lo, hi, sat.rev), extra))
    return out, n_int, n_flt


def judge_last_an(sat, rep, o=None, result=None):
    """Violations of the last-node clauses for one query: list of (kind, observed, required, extra).
    `result`, a list, receives (returned instant in ns, z, vz there)."""
    o = o or sat.fresh()
    val = rep_value(rep)
    q_ns = rep_ns(rep)
    try:
        res = guarded(lambda: o.get_last_an_time(val))
    except Timeout:
        return [("nonterminating", "no result within %.0f s" % WATCHDOG_S, "the query terminates for every time representation", {})]
    except Exception as e:  # noqa
        if is_refusal(e):
            raise
        return [raised(e)]
    out = []
    if not isinstance(res, np.datetime64):
        return [("result_type", repr(type(res)), "a datetime64", {})]
    tick, unit = ticks_of(res)
    if unit not in NS_PER:
        return [("result_unit", unit, "a unit between minutes and nanoseconds", {})]
    r_ns = tick * NS_PER[unit]
    if r_ns > q_ns:
        out.append(("later_than_query", str(res), "not later than %s" % str(val), {}))
    z, vz = sat.zvz(r_ns)
    if result is not None:
        result.append((r_ns, z, vz))
    if not abs(z) <= 1.0:
        out.append(("not_a_node", "z = %r km at %s" % (z, res), "|z| <= 1 km", {}))
    if not vz > 0:
        out.append(("not_ascending", "vz = %r km/s at %s" % (vz, res), "northward velocity", {}))
    cs = sat.cs()
    same_ns = int(((-z / vz) * 1.5 + 1e-5) * 1e9) if (z < 0 and vz > 0) else 0
    if r_ns // 1000 < sat.e_us - int(1.3 * DAY_US):
        # a result older than the scanned window: the scan is extended back to it (never needed when the result is the last node)
        cs = np.concatenate([sat.nodes_before_window(r_ns // 1000), cs])
    cs_ns = cs * 1000          # exact in int64
    other = cs[(cs_ns - 1000 > r_ns + same_ns) & (cs_ns <= q_ns)]   # a listed crossing lies in (c - 1 us, c]
    if len(other):
        out.append(("other_node_between", "%d ascending node(s) after the result %s, first at %s, last at %s"
                    % (len(other), res, np.datetime64(int(other[0]), "us"), np.datetime64(int(other[-1]), "us")),
                    "no other ascending node after it before the query %s" % str(val), {}))
    return out


# POSIX rule strings (no zone database needed): west / east of Greenwich, whole and fractional hours, with and without summer time
TZ_WEST = ["XYZ4", "HST10", "NST3:30", "AOE12", "PST8", "EST5EDT,M3.2.0,M11.1.0"]
TZ_EAST = ["JST-9", "IST-5:30", "NPT-5:45", "LINT-14", "EET-2", "CET-1CEST,M3.5.0,M10.5.0/3"]


@contextlib.contextmanager
def process_tz(tz):
    """The process time zone set to the POSIX rule `tz` (None: left alone) for the duration of the block."""
    if not tz:
        yield
        return
    old = os.environ.get("TZ")
    os.environ["TZ"] = tz
    time.tzset()
    try:
        yield
    finally:
        if old is None:
            os.environ.pop("TZ", None)
        else:
            os.environ["TZ"] = old
        time.tzset()


def judge_zone(sat, ns, tz, kinds=None):
    """With the process time zone `tz`: the last-node clauses (fresh object) and the orbit-number clauses (another fresh
    object) for the representations `kinds` of the instant `ns`.  A naive datetime is UTC whatever the zone of the host.
    When all representations hold the same instant they describe one query: the last-node results, each within 1 km of
    z of THE last node, lie within 2 km of z of each other, and the integer orbit numbers are equal.
    List of (kind, observed, required, extra, rep)."""
    kinds = list(kinds or REPS)
    out = []
    with process_tz(tz):
        o_an, o_num = sat.fresh(), sat.fresh()
        reps = [make_rep(k, ns) for k in kinds]
        same_instant = len(set(rep_ns(x) for x in reps)) == 1
        got, nums = {}, {}
        for rep in reps:
            res = []
            for f in judge_last_an(sat, rep, o=o_an, result=res):
                out.append(f + (rep,))
            if res:
                got[rep["kind"]] = res[0]
            try:
                found, n_int, n_flt = guarded(lambda: judge_number(sat, o_num, rep))
            except Timeout:
                out.append(("nonterminating_number", "no result within %.0f s" % WATCHDOG_S, "get_orbit_number returns", {}, rep))
                continue
            for f in found:
                out.append(f + (rep,))
            if not any(f[0] == "raises" for f in found):
                nums[rep["kind"]] = n_int
        if same_instant and len(got) > 1 and all(v[2] > 0 for v in got.values()):
            tol_ns = int(2.0 / min(v[2] for v in got.values()) * 1e9) + 2000
            ts = sorted(v[0] for v in got.values())
            if ts[-1] - ts[0] > tol_ns:
                med = ts[len(ts) // 2]
                bad = max(got, key=lambda k: abs(got[k][0] - med))
                out.append(("last_an_representation", {k: str(np.datetime64(int(v[0]), "ns")) for k, v in got.items()},
                            "one node for every representation of the instant (results within %.6f s: 2 km of z)" % (tol_ns / 1e9),
                            {"instant_ns": int(ns), "kinds": kinds}, make_rep(bad, ns)))
        if same_instant and len(set(nums.values())) > 1:
            t_us = ns // 1000 + (ns % 1000) / 1000.0
            lo, hi = count_bounds(sat.cs(), sat.e_us, sat.rev, t_us)
            if lo == hi:        # not within the slack of a crossing
                vals = sorted(nums.values())
                med = vals[len(vals) // 2]
                bad = max(nums, key=lambda k: abs(nums[k] - med))
                out.append(("number_representation", dict(nums), "one orbit number for every representation of the instant",
                            {"instant_ns": int(ns), "kinds": kinds}, make_rep(bad, ns)))
    return out


def judge_crossing(sat, o, a_us, b_us, node, rtol, kind="us", result=None):
    """Violations of the crossing-time clause for one interval whose bounds are given in representation `kind`
    (True/False: datetime64[us] / naive datetime, the older spelling).  `result`, a list, receives the returned microsecond."""
    if kind is True:
        kind = "us"
    elif kind is False:
        kind = "naive"
    a_us, b_us = rep_ns(make_rep(kind, int(a_us) * 1000)) // 1000, rep_ns(make_rep(kind, int(b_us) * 1000)) // 1000

    def mk(u):
        return rep_value(make_rep(kind, int(u) * 1000))
    try:
        with warnings.catch_warnings():
            warnings.simplefilter("ignore")
            kw = {} if rtol is None else {"rtol": rtol}
            res = o.get_equatorial_crossing_time(mk(a_us), mk(b_us), node=node, **kw)
            ns = float(o.get_orbit_number(np.datetime64(int(a_us), "us"), as_float=True))
            ne = float(o.get_orbit_number(np.datetime64(int(b_us), "us"), as_float=True))
    except Timeout:
        raise
    except Exception as e:  # noqa
        if is_refusal(e):
            raise
        return [raised(e)]
    out = []
    if res is None:
        if math.trunc(ne) > math.trunc(ns) and node == "ascending" and ns >= 0:
            out.append(("crossing_missed", None, "a time: the integer orbit number goes from %d to %d" % (math.trunc(ns), math.trunc(ne)), {}))
        return out
    if not isinstance(res, dt.datetime):
        return [("crossing_type", repr(type(res)), "a datetime", {})]
    r_us = int((res.replace(tzinfo=None) - EPOCH70) // dt.timedelta(microseconds=1))
    if result is not None:
        result.append(r_us)
    if not (a_us <= r_us <= b_us):
        out.append(("crossing_outside", str(res), "within [tstart, tend]", {}))
    with warnings.catch_warnings():
        warnings.simplefilter("ignore")
        n = float(o.get_orbit_number(np.datetime64(r_us, "us"), as_float=True))
    p_us = float(o.orbit_elements.an_period / np.timedelta64(1, "us"))
    tol = 1.5 * ((rtol or 1e-9) * abs(r_us) + 2.0) / p_us + 1e-9
    frac = 0.5 if node == "descending" else 0.0
    dev = abs((n - frac) - round(n - frac))
    if dev > tol:
        out.append(("crossing_not_root", "orbit number %r at %s" % (n, res), "an integer%s within %.3g" % (" + 1/2" if frac else "", tol), {}))
    elif node == "ascending" and ne >= 1 and round(n) != math.trunc(ne):
        out.append(("crossing_wrong_integer", "orbit number %r at %s" % (n, res), "reaches %d = int(n(tend))" % math.trunc(ne), {}))
    return out


def judge_crossing_reps(sat, o, a_us, b_us, node, rtol):
    """The crossing-time clause with the two bounds given in every representation (instants on whole minutes, which all
    seven hold exactly): each must satisfy the clause, and all must give the same time (to 1 us) or all none."""
    out, got = [], {}
    for kind in REPS:
        res = []
        for f in judge_crossing(sat, o, a_us, b_us, node, rtol, kind, res):
            out.append((f[0], f[1], f[2], dict(f[3], bounds_kind=kind)))
        got[kind] = res[0] if res else None
    vals = [v for v in got.values() if v is not None]
    if vals and (len(vals) != len(got) or max(vals) - min(vals) > 1):
        bad = [k for k in REPS if got[k] is None] or [max(got, key=lambda k: abs(got[k] - got["us"]) if got["us"] is not None else 0)]
        out.append(("crossing_representation", lib.jsonable(got), "the same crossing time (to 1 us) for every representation of the bounds",
                    {"bounds_kind": bad[0]}))
    return out


def order_ops(sat, seed_times):
    """Operations whose results must not depend on the order of first use of the cached node time."""
    t1, t2, t3, a, b = seed_times[:5]
    tq = seed_times[5] if len(seed_times) > 5 else t1
    return [
        ("n1", lambda o: o.get_orbit_number(np.datetime64(t1, "us"))),
        ("n2tbus", lambda o: o.get_orbit_number(EPOCH70 + dt.timedelta(microseconds=t2), tbus_style=True)),
        ("n3float", lambda o: float(o.get_orbit_number(np.datetime64(t3 * 1000 + 7, "ns"), as_float=True))),
        ("cross", lambda o: o.get_equatorial_crossing_time(EPOCH70 + dt.timedelta(microseconds=a), EPOCH70 + dt.timedelta(microseconds=b))),
        ("cache", lambda o: (str(o.orbit_elements.an_time), str(o.orbit_elements.an_period))),
        ("lastan", lambda o: str(o.get_last_an_time(np.datetime64(tq, "us")))),
    ]


def judge_order(sat, seed_times, perms):
    ops = order_ops(sat, seed_times)
    ref = None
    for perm in perms:
        o = sat.fresh()
        got = {}
        try:
            with warnings.catch_warnings():
                warnings.simplefilter("ignore")
                for i in perm:
                    if ops[i][0] == "cache":
                        continue
                    got[ops[i][0]] = ops[i][1](o)
                got["cache"] = ops[4][1](o)
        except Timeout:
            raise
        except Exception as e:  # noqa
            if is_refusal(e):
                raise
            return [raised(e)]
        if ref is None:
            ref = (perm, got)
        elif got != ref[1]:
            return [("order_dependent", {"order": [ops[i][0] for i in perm], "results": lib.jsonable(got)},
                     {"order": [ops[i][0] for i in ref[0]], "results": lib.jsonable(ref[1])}, {})]
    return []


def timed_out(ctx, kind, note=False):
    """Non-termination is reported at most MAX_TIMEOUTS_PER_KIND times per representation; afterwards that representation is
    no longer searched in this run (each report costs the whole watchdog time)."""
    d = ctx.__dict__.setdefault("c11_timeouts", {})
    if note:
        d[kind] = d.get(kind, 0) + 1
    skip = d.get(kind, 0) >= MAX_TIMEOUTS_PER_KIND
    if skip and not note:
        ctx.count("last_an_skipped_after_timeouts")
    return skip


# ------------------------------------------------------------------------------------------------ correspondence
def corr_last_an(ctx, drv, sat, reps, batch, cached=None):
    """get_last_an_time on every representation: the model, given the z the code saw, asks for the same ticks and returns the same
    tick.  Every other query is made on an object that has already answered get_orbit_number (the search must not depend on
    the cached node time)."""
    for n, rep in enumerate(reps):
        o = sat.fresh()
        use_cache = (n % 2 == 1) if cached is None else cached
        if use_cache:
            if timed_out(ctx, "init"):
                continue
            try:
                guarded(lambda: o.get_orbit_number(o.tle.epoch))
            except Timeout:
                continue        # reported by corr_numbers
            except Exception as e:  # noqa
                if is_refusal(e):
                    raise
                continue        # reported by corr_numbers
        rec = Recorder(o)
        val = rep_value(rep)
        case = dict(sat.base(), rep=rep, op="last_an", check="nonterminating", after_orbit_number=use_cache)
        ctx.bump("last_an_object", "after_orbit_number" if use_cache else "fresh")
        if timed_out(ctx, rep["kind"]):
            continue
        try:
            res = guarded(lambda: o.get_last_an_time(val))
        except Timeout:
            timed_out(ctx, rep["kind"], note=True)
            ctx.violation("nonterminating", case, "no result within %.0f s" % WATCHDOG_S,
                          "the query terminates for every time representation", site="Orbital.get_last_an_time")
            continue
        except Exception as e:  # noqa
            if is_refusal(e):
                raise
            r_ = raised(e)
            ctx.violation("raises", dict(case, check="raises"), r_[1], r_[2], site="Orbital.get_last_an_time")
            continue
        qs = rec.queries
        line = "c11an %s %d %d 64 %s" % (rep_unit(rep), rep["ticks"], len(qs) + 5, table_args(qs))
        batch.append((line, ("last_an", case, res, qs)))
        ctx.count("eval_corr_last_an")
        ctx.bump("representation", rep["kind"])
        ctx.distinct((sat.l1[2:7] + sat.l2[8:16], rep["kind"], rep["ticks"]))


def check_last_an(ctx, meta, out):
    _, case, res, qs = meta
    tick, unit = ticks_of(res)
    impl = {"result": tick, "unit": unit, "queries": [q[1] for q in qs], "query_units": sorted(set(q[0] for q in qs))}
    toks = out.split()
    if toks[0] != "ok":
        ctx.disagree("c11an", case, impl, out)
        return
    model = {"result": int(toks[1]), "unit": search_unit(case["rep"]), "queries": [int(x) for x in toks[4:]],
             "query_units": [search_unit(case["rep"])]}
    ctx.bump("stepping_iterations", toks[2])
    ctx.bump("bisection_iterations", toks[3])
    if model != impl:
        ctx.disagree("c11an", case, impl, model)
    # the per-tick bound of the termination theorem, measured on what the search saw (km per tick)
    for (u1, t1, z1, _), (u2, t2, z2, _) in zip(qs, qs[1:]):
        if t1 != t2:
            rate = abs(z1 - z2) / abs(t1 - t2)
            ctx.maxrate = max(getattr(ctx, "maxrate", 0.0), rate * (1 if u1 == "us" else 1000))


def corr_numbers(ctx, drv, sat, instants_ns, batch):
    """get_orbit_number: the initialisation on a fresh object (model given the recorded z), then day counts and the closed form."""
    o = sat.fresh()
    rec = Recorder(o)
    rep0 = make_rep("us", instants_ns[0])
    case0 = dict(sat.base(), rep=rep0, op="init")
    if timed_out(ctx, "init"):
        return
    try:
        v0 = guarded(lambda: o.get_orbit_number(rep_value(rep0), as_float=True))
    except Timeout:
        timed_out(ctx, "init", note=True)
        ctx.violation("nonterminating", dict(case0, check="nonterminating_number"), "no result within %.0f s" % WATCHDOG_S,
                      "get_orbit_number returns", site="Orbital.get_orbit_number")
        return
    except Exception as e:  # noqa
        if is_refusal(e):
            raise
        r_ = raised(e)
        ctx.violation("raises", dict(case0, check="raises_number"), r_[1], r_[2], site="Orbital.get_orbit_number")
        return
    us_q = [q for q in rec.queries if q[0] == "us"]
    if len(us_q) != len(rec.queries):
        ctx.disagree("c11num", case0, "position queries in units %s" % sorted(set(q[0] for q in rec.queries)), "all in us")
    an_t, an_u = ticks_of(o.orbit_elements.an_time)
    per = o.orbit_elements.an_period
    per_t, per_u = int(per.astype(np.int64)), np.datetime_data(per.dtype)[0]
    vz_e = us_q[0][3] if us_q else 0.0
    rev, nd, ndd = float(o.tle.orbit), float(o.tle.mean_motion_derivative), float(o.tle.mean_motion_sec_derivative)
    line = "c11num %d %s %s %s %s us %d 0 1 %d 64 %s" % (sat.e_us, lib.f2h(rev), lib.f2h(nd), lib.f2h(ndd), lib.f2h(vz_e),
                                                          rep0["ticks"], len(us_q) + 5, table_args(us_q))
    batch.append((line, ("init", case0, {"value": float(v0), "an_time": an_t, "an_unit": an_u, "an_period": per_t,
                                         "period_unit": per_u, "queries": [q[1] for q in us_q]})))
    ctx.count("eval_corr_init")
    if us_q:
        ctx.bump("epoch_branch", "at_node_before" if -1 <= us_q[0][2] < 0 and vz_e > 0 else
                 "at_node_past" if 0 < us_q[0][2] <= 1 and vz_e > 0 else "at_node_exact_zero" if us_q[0][2] == 0 and vz_e > 0 else
                 "within_1km_descending" if abs(us_q[0][2]) <= 1 else "elsewhere")
    # every get_last_an_time made by the initialisation, on its own
    for c in rec.an_calls:
        t, u = ticks_of(c["arg"])
        cc = dict(sat.base(), rep={"kind": u, "ticks": t}, op="last_an_init")
        batch.append(("c11an %s %d %d 64 %s" % (u, t, len(c["queries"]) + 5, table_args(c["queries"])),
                      ("last_an", cc, c["result"], c["queries"])))
        ctx.count("eval_corr_last_an")
    if an_u != "us" or per_u != "us":
        return
    from pyorbital import astronomy
    for ns in instants_ns:
        for kind in REPS:
            rep = make_rep(kind, ns)
            val = rep_value(rep)
            with warnings.catch_warnings():
                warnings.simplefilter("ignore")
                t64 = np.datetime64(val)
                d = float(astronomy._days(t64 - o.orbit_elements.an_time))
                p = float(astronomy._days(o.orbit_elements.an_period))
                got = [o.get_orbit_number(val, as_float=True), o.get_orbit_number(val), o.get_orbit_number(val, tbus_style=True, as_float=True),
                       o.get_orbit_number(val, tbus_style=True)]
            case = dict(sat.base(), rep=rep, op="number")
            batch.append(("c11days %s %d %d %d" % (rep_unit(rep), rep["ticks"], an_t, per_t), ("days", case, [d, p])))
            batch.append(("c11orbit %s %s %s %s %s" % (lib.f2h(rev), lib.f2h(d), lib.f2h(p), lib.f2h(nd), lib.f2h(ndd)),
                          ("orbit", case, [float(got[0]), int(got[1]), float(got[2]), int(got[3])])))
            ctx.count("eval_corr_number")
            ctx.bump("representation", kind)
            ctx.distinct((sat.l1[2:7] + sat.l2[8:16], kind, rep["ticks"]))


def corr_crossing(ctx, drv, sat, intervals, batch):
    orbital = _orbital()
    o = sat.fresh()
    seen = {}
    real_bisect = orbital.optimize.bisect

    def spy(f, a, b, **kw):
        cells = dict(zip(f.__code__.co_freevars, [c.cell_contents for c in (f.__closure__ or ())]))
        seen.update({"offset": cells.get("offset"), "a": int(a), "b": int(b), "x": None})
        x = real_bisect(f, a, b, **kw)
        seen["x"] = x
        return x
    for (a_us, b_us, node) in intervals:
        seen.clear()
        case = dict(sat.base(), op="crossing", tstart_us=a_us, tend_us=b_us, node=node, rep={"kind": "us", "ticks": a_us})
        if timed_out(ctx, "init"):
            return
        orbital.optimize.bisect = spy

        def run():
            return (o.get_equatorial_crossing_time(np.datetime64(a_us, "us"), np.datetime64(b_us, "us"), node=node),
                    float(o.get_orbit_number(np.datetime64(a_us, "us"), as_float=True)),
                    float(o.get_orbit_number(np.datetime64(b_us, "us"), as_float=True)))
        try:
            res, ns, ne = guarded(run)
        except Timeout:
            timed_out(ctx, "init", note=True)
            ctx.violation("nonterminating", dict(case, check="nonterminating_crossing"), "no result within %.0f s" % WATCHDOG_S,
                          "get_equatorial_crossing_time returns", site="Orbital.get_equatorial_crossing_time")
            return
        except Exception as e:  # noqa
            if is_refusal(e):
                raise
            r_ = raised(e)
            ctx.violation("raises", dict(case, check="raises_crossing"), r_[1], r_[2], site="Orbital.get_equatorial_crossing_time")
            return
        finally:
            orbital.optimize.bisect = real_bisect
        if seen:
            impl = {"offset": float(seen["offset"]) if seen.get("offset") is not None else None, "a": seen["a"], "b": seen["b"],
                    "result_us": None if res is None else int((res - EPOCH70) // dt.timedelta(microseconds=1)),
                    "int_x": None if seen["x"] is None else int(seen["x"])}
        else:
            impl = {"offset": None, "result_us": None if res is None else str(res)}
        batch.append(("c11cross %s %s %d" % (lib.f2h(ns), lib.f2h(ne), 1 if node == "descending" else 0), ("cross", case, impl)))
        ctx.count("eval_corr_crossing")


def check_meta(ctx, meta, out):
    kind = meta[0]
    if kind == "last_an":
        return check_last_an(ctx, meta, out)
    _, case, impl = meta
    toks = out.split()
    if kind == "init":
        if toks[0] != "ok":
            ctx.disagree("c11num", case, impl, out)
            return
        model = {"value": lib.h2f(toks[1]), "an_time": int(toks[2]), "an_unit": "us", "an_period": int(toks[3]), "period_unit": "us",
                 "queries": [int(x) for x in toks[4:]]}
        if model != impl:
            ctx.disagree("c11num", case, impl, model)
    elif kind == "days":
        model = [lib.h2f(x) for x in toks]
        if model != impl:
            ctx.disagree("c11days", case, impl, model)
    elif kind == "orbit":
        m = [lib.h2f(x) for x in toks]
        ints_ok = all(x == x and abs(x) < 2 ** 62 for x in m)
        model = [m[0], int(m[1]) if ints_ok else m[1], m[2], int(m[3]) if ints_ok else m[3]]
        if model != impl:
            ctx.disagree("c11orbit", case, impl, model)
    elif kind == "cross":
        if out == "none":
            if impl.get("offset") is not None or impl.get("result_us") is not None:
                ctx.disagree("c11cross", case, impl, "none")
        else:
            off = lib.h2f(out)
            if impl.get("offset") != off or impl.get("a") != case["tstart_us"] or impl.get("b") != case["tend_us"] \
                    or impl.get("result_us") != impl.get("int_x"):
                ctx.disagree("c11cross", case, impl, {"offset": off, "a": case["tstart_us"], "b": case["tend_us"], "result_us": "int(x)"})


def pick_instants(ctx, sat, k):
    """k instants (ns since 1970) in [epoch-1 d, epoch+5 d]: uniform, the epoch, and next to trajectory crossings."""
    r = ctx.rng
    e = sat.e_us
    cs = sat.cs()
    inside = cs[(cs > e - DAY_US) & (cs < e + 5 * DAY_US)]
    out = [e * 1000, e * 1000 + 999]
    while len(out) < k:
        x = r.random()
        if x < 0.5 or not len(inside):
            us = r.randrange(e - DAY_US, e + 5 * DAY_US)
        else:
            c = int(r.choice(list(inside)))
            us = c + r.choice([-1, 1]) * r.choice([0, 1, 50, 150000, 2000000, 30000000])
            us = min(max(us, e - DAY_US), e + 5 * DAY_US)
        out.append(us * 1000 + r.randrange(1000))
    return out[:k]


def correspond(ctx):
    drv = ctx.driver()
    n = ctx.size(24, 120)
    sats = [Sat(*t) for t in gen_tles(ctx, n, ctx.size(6, 12))]
    batch = []
    for sat in sats:
        ctx.bump("family", sat.family)
        inst = pick_instants(ctx, sat, ctx.size(8, 16))
        p_us = int(DAY_US / sat.mm)
        ivs = []
        for _ in range(ctx.size(4, 8)):
            a = ctx.rng.randrange(sat.e_us - DAY_US, sat.e_us + 5 * DAY_US - 2 * p_us)
            ivs.append((a, a + int(ctx.rng.uniform(0.05, 1.9) * p_us), ctx.rng.choice(["ascending", "ascending", "descending"])))
        reps = [make_rep(kind, ns) for ns in inst[:ctx.size(5, 8)] for kind in REPS]
        try:
            corr_numbers(ctx, drv, sat, inst, batch)
            corr_last_an(ctx, drv, sat, reps, batch)
            corr_crossing(ctx, drv, sat, ivs, batch)
        except Exception as e:  # noqa  only refusals of the propagator get here (C13's subject)
            if not is_refusal(e):
                raise
            ctx.count("corr_sets_refused")
    outs = drv.run_parallel([b[0] for b in batch])
    for (line, meta), out in zip(batch, outs):
        check_meta(ctx, meta, out)
    if sats:
        ctx.sample({"line1": sats[0].l1, "line2": sats[0].l2, "family": sats[0].family, "crossings_in_window": int(len(sats[0].cs()))})
    ctx.note("largest |dz| per microsecond seen by the searches: %.3g km (termination theorem needs <= 1e-3)" % getattr(ctx, "maxrate", 0.0))


# ------------------------------------------------------------------------------------------------ oracle
def emit(ctx, sat, rep, found, site, extra_case=None):
    for (kind, observed, required, extra) in found:
        case = dict(sat.base(), rep=rep, check=kind)
        case.update(extra)
        if extra_case:
            case.update(extra_case)
        if kind == "raises" and site.endswith("get_orbit_number"):
            case["check"] = "raises_number"             # replay asks get_orbit_number, not the last-node query
        elif kind == "raises" and site.endswith("get_equatorial_crossing_time"):
            case["check"] = "raises_crossing"
        if os.environ.get("TZ") and "tz" not in case:
            case["process_tz"] = os.environ["TZ"]       # the zone the whole run was made in (harness/check.py)
        ctx.violation(kind, case, observed, required, site=site)


# representations that hold a whole-microsecond instant exactly (a returned node time carries microseconds, or
# nanoseconds when the query was a datetime64[ns])
EXACT_US = ["naive", "us", "aware", "ns"]
FOLLOW_STEPS = [(k, k * 600 * 10 ** 9) for k in range(1, 10)] + [(0, 0), ("-1us", -1000), ("+1us", 1000)]


def follow_ups(ctx, sat, res):
    """Queries derived from the check's own previous answer (a program that walks through the nodes): for a node time
    t_n that get_last_an_time has just returned, the last-node clauses at t_n + k * 10 min EXACTLY (k = 1..9: the
    backward 10-minute scan then samples t_n itself, within 1 m of the node on either side), at t_n and at t_n -/+ 1 us,
    each in one of the representations that hold the instant exactly, in rotation (all four for a microsecond tick,
    datetime64[ns] for a result with a sub-microsecond part).  One object per element set answers all of them, in
    sequence.  Every distinct returned tick is followed up: the first ones of a set with all twelve queries, the
    others with one of the nine multiples and (every second one) one of the three instants at the node, in rotation.  Instants outside
    [epoch - 1 d, epoch + 5 d] are not asked.  `res`: what judge_last_an put into `result`."""
    if not res:
        return
    r_ns = int(res[0][0])
    st = sat.__dict__.setdefault("_follow", {"seen": set(), "o": None})
    if r_ns in st["seen"]:
        return
    st["seen"].add(r_ns)
    if st["o"] is None:
        st["o"] = sat.fresh()
    rot = ctx.__dict__.setdefault("c11_rot", [0, 0])
    jobs = FOLLOW_STEPS
    if len(st["seen"]) > ctx.size(4, 12):
        jobs = [FOLLOW_STEPS[rot[0] % 9]] + ([FOLLOW_STEPS[9 + (rot[0] // 2) % 3]] if rot[0] % 2 == 0 else [])
        rot[0] += 1
    lo, hi = (sat.e_us - DAY_US) * 1000, (sat.e_us + 5 * DAY_US) * 1000
    rot[1] += 1
    for (k, d_ns) in jobs:
        ns = r_ns + d_ns
        if not lo <= ns <= hi:
            continue
        kinds = EXACT_US if ns % 1000 == 0 else ["ns"]
        kind = kinds[rot[1] % len(kinds)]
        rot[1] += 1
        if timed_out(ctx, kind):
            continue
        rep = make_rep(kind, ns)
        found = judge_last_an(sat, rep, o=st["o"])
        if any(f[0] == "nonterminating" for f in found):
            timed_out(ctx, kind, note=True)
        ctx.count("eval_oracle_last_an_followup")
        ctx.bump("followup_step", str(k))
        ctx.bump("followup_representation", kind)
        ctx.distinct((sat.l1[2:7] + sat.l2[8:16], rep["kind"], rep["ticks"]))
        emit(ctx, sat, rep, found, "Orbital.get_last_an_time", {"follow_up_of_ns": r_ns, "follow_up": k})


def oracle_sat(ctx, sat, n_random, n_an, n_cross, all_crossings=True, n_after=16):
    r = ctx.rng
    e = sat.e_us
    cs = sat.cs()
    inside = cs[(cs >= e - DAY_US) & (cs <= e + 5 * DAY_US)]
    inst = [(e * 1000, None), (e * 1000 + 1000, None)]
    for _ in range(n_random):
        inst.append((r.randrange(e - DAY_US, e + 5 * DAY_US) * 1000 + r.randrange(1000), None))
    targets = list(inside) if all_crossings else (r.sample(list(inside), min(len(inside), 12)) if len(inside) else [])
    for c in targets:
        c = int(c)
        s = int(slack_s(c, e) * 1e6)
        eps = 1000 + int(s * 6e-5)      # the slack is evaluated at the instant, not at the crossing: 5 s/day of `s` more at most
        for us in (c - s - eps, c + s + eps):
            if e - DAY_US <= us <= e + 5 * DAY_US:
                inst.append((us * 1000, "us"))
    o = sat.fresh()
    seq = []
    for (ns, kind) in inst:
        rep = make_rep(kind or r.choice(REPS), ns)
        if timed_out(ctx, "init"):
            break
        try:
            found, n_int, n_flt = guarded(lambda: judge_number(sat, o, rep))
        except Timeout:
            timed_out(ctx, "init", note=True)
            ctx.violation("nonterminating", dict(sat.base(), rep=rep, check="nonterminating_number"),
                          "no result within %.0f s" % WATCHDOG_S, "get_orbit_number returns", site="Orbital.get_orbit_number")
            break
        ctx.count("eval_oracle_number")
        ctx.distinct((sat.l1[2:7] + sat.l2[8:16], rep["kind"], rep["ticks"]))
        emit(ctx, sat, rep, found, "Orbital.get_orbit_number")
        seq.append((rep_ns(rep), n_flt, n_int, rep))
    seq.sort(key=lambda x: x[0])
    for (t1, f1, i1, r1), (t2, f2, i2, r2) in zip(seq, seq[1:]):
        if i2 < i1 or f2 < f1 - (0.0 if t2 - t1 >= 10 ** 6 else 1e-9):
            ctx.violation("decreases", dict(sat.base(), rep=r1, rep2=r2, check="decreases"), [f1, i1, f2, i2],
                          "the orbit number never decreases with time", site="Orbital.get_orbit_number")
    # last ascending node, every representation
    qs = [e * 1000] + [r.randrange(e - DAY_US, e + 5 * DAY_US) * 1000 + r.randrange(1000) for _ in range(n_an)]
    for c in (r.sample(list(inside), min(3, len(inside))) if len(inside) else []):
        qs.append((int(c) + r.choice([-3, 0, 2, 40000, 900000])) * 1000)
    for ns in qs:
        for kind in REPS:
            rep = make_rep(kind, ns)
            if timed_out(ctx, kind):
                continue
            res = []
            found = judge_last_an(sat, rep, result=res)
            if any(f[0] == "nonterminating" for f in found):
                timed_out(ctx, kind, note=True)
            ctx.count("eval_oracle_last_an")
            ctx.bump("oracle_representation", kind)
            emit(ctx, sat, rep, found, "Orbital.get_last_an_time")
            follow_ups(ctx, sat, res)
    # ... and on the object that has ALREADY answered get_orbit_number (`o`): queries shortly after true nodes of the
    # trajectory, where a stale answer (the node one revolution earlier) would be "another node between result and query"
    late = inside[inside >= e]
    pick = list(late) if (all_crossings and sat.family == "draggy") else (r.sample(list(late), min(len(late), n_after)) if len(late) else [])
    for c in pick + ([int(late[-1])] if len(late) else []):
        off_us = int(10 ** r.uniform(4, 7.48))          # 10 ms .. 30 s after the node
        rep = make_rep(r.choice(REPS), (int(c) + off_us) * 1000 + r.randrange(1000))
        if timed_out(ctx, rep["kind"]):
            continue
        res = []
        found = judge_last_an(sat, rep, o=o, result=res)
        if any(f[0] == "nonterminating" for f in found):
            timed_out(ctx, rep["kind"], note=True)
        ctx.count("eval_oracle_last_an_cached")
        emit(ctx, sat, rep, found, "Orbital.get_last_an_time", {"after_orbit_number": True})
        follow_ups(ctx, sat, res)
    # equator crossing time
    p_us = int(DAY_US / sat.mm)
    for _ in range(n_cross):
        a = r.randrange(e - DAY_US, e + 5 * DAY_US - 2 * p_us)
        b = a + int(r.uniform(0.05, 1.9) * p_us)
        node = r.choice(["ascending", "ascending", "descending"])
        rtol = r.choice([None, None, 1e-12])
        kind = r.choice(REPS)
        if timed_out(ctx, "init"):
            break
        a2, b2 = a - a % 60000000, b - b % 60000000 + 60000000
        try:
            # arbitrary bounds in one representation (coarse units truncate them) ...
            found = guarded(lambda: [(f[0], f[1], f[2], dict(f[3], bounds_kind=kind)) for f in judge_crossing(sat, o, a, b, node, rtol, kind)])
        except Timeout:
            timed_out(ctx, "init", note=True)
            found = [("nonterminating_crossing", "no result within %.0f s" % WATCHDOG_S, "get_equatorial_crossing_time returns", {})]
        ctx.count("eval_oracle_crossing")
        emit(ctx, sat, {"kind": "us", "ticks": a}, found, "Orbital.get_equatorial_crossing_time",
             {"tstart_us": a, "tend_us": b, "node": node, "rtol": rtol})
        if timed_out(ctx, "init"):
            break
        try:
            # ... then whole-minute bounds, which all seven representations hold exactly
            found = guarded(lambda: judge_crossing_reps(sat, o, a2, b2, node, rtol))
        except Timeout:
            timed_out(ctx, "init", note=True)
            found = [("nonterminating_crossing", "no result within %.0f s" % WATCHDOG_S, "get_equatorial_crossing_time returns", {})]
        ctx.count("eval_oracle_crossing", len(REPS))
        emit(ctx, sat, {"kind": "us", "ticks": a2}, found, "Orbital.get_equatorial_crossing_time",
             {"tstart_us": a2, "tend_us": b2, "node": node, "rtol": rtol})
    # any order of first use
    t1, t2, t3 = (r.randrange(e - DAY_US, e + 5 * DAY_US) for _ in range(3))
    a = r.randrange(e - DAY_US, e + 4 * DAY_US)
    tq = (int(late[-1 - r.randrange(min(8, len(late)))]) + int(10 ** r.uniform(4.5, 6.7))) if len(late) else t1
    seeds = (t1, t2, t3, a, a + int(1.3 * p_us), tq)
    idx = [0, 1, 2, 3, 5]
    perms = [tuple(idx) + (4,), (5, 0, 1, 2, 3, 4)] + [tuple(r.sample(idx, 5)) + (4,) for _ in range(3)] + [(3, 0, 5, 1, 2, 4), (2, 3, 1, 0, 5, 4)]
    if timed_out(ctx, "init"):
        return
    try:
        found = guarded(lambda: judge_order(sat, seeds, perms), seconds=3 * WATCHDOG_S)
    except Timeout:
        timed_out(ctx, "init", note=True)
        found = [("nonterminating_number", "no result within %.0f s" % (3 * WATCHDOG_S), "get_orbit_number returns", {})]
    ctx.count("eval_oracle_order", len(perms))
    emit(ctx, sat, {"kind": "us", "ticks": t1}, found, "Orbital.get_orbit_number", {"seed_times": list(seeds), "perms": [list(p) for p in perms]})


def oracle_zones(ctx, sat):
    """The time-representation clauses under two process time zones other than UTC (one west, one east of Greenwich):
    all seven representations of a whole minute (which all hold exactly), and the sub-minute instants next to a node and
    anywhere in the window as naive / UTC-aware datetime and datetime64[ns]."""
    r = ctx.rng
    e = sat.e_us
    cs = sat.cs()
    inside = cs[(cs >= e - DAY_US) & (cs <= e + 5 * DAY_US)]
    for tz in (r.choice(TZ_WEST), r.choice(TZ_EAST)):
        us = r.randrange(e - DAY_US + 60 * 10 ** 6, e + 5 * DAY_US)
        jobs = [((us - us % (60 * 10 ** 6)) * 1000, REPS)]
        if len(inside) and r.random() < 0.5:
            us2 = min(int(r.choice(list(inside))) + int(10 ** r.uniform(4, 8.5)), e + 5 * DAY_US)   # 10 ms .. 5 min after a node
        else:
            us2 = r.randrange(e - DAY_US, e + 5 * DAY_US)
        jobs.append((us2 * 1000 + r.randrange(1000), ["naive", "aware", "ns"]))
        for ns, kinds in jobs:
            kinds = [k for k in kinds if not timed_out(ctx, k)]
            if not kinds or timed_out(ctx, "init"):
                continue
            found = judge_zone(sat, ns, tz, kinds)
            for f in found:
                if f[0] == "nonterminating":
                    timed_out(ctx, f[4]["kind"], note=True)
                elif f[0] == "nonterminating_number":
                    timed_out(ctx, "init", note=True)
            ctx.count("eval_oracle_zone_last_an", len(kinds))
            ctx.count("eval_oracle_zone_number", len(kinds))
            ctx.bump("oracle_process_zone", tz)
            for (kind, observed, required, extra, rep) in found:
                site = "Orbital.get_last_an_time" if kind in LAST_AN_KINDS else "Orbital.get_orbit_number"
                emit(ctx, sat, rep, [(kind, observed, required, extra)], site, {"tz": tz})


LAST_AN_KINDS = ("nonterminating", "result_type", "result_unit", "later_than_query", "not_a_node", "not_ascending",
                 "other_node_between", "last_an_representation")


def oracle_shortarc(ctx, sat, n_q):
    """Last-node clauses only, on a set whose northern or southern arc is short: queries anywhere in the window and
    1 s - 10 min after the trajectory's own north-to-south and south-to-north crossings (the last node is then one short
    arc, or nearly a whole revolution, back), each in a random representation.  'No other node' is judged against the
    5 s scan of z of get_position (Sat.cs), extended backwards when the returned node is older than the window."""
    r = ctx.rng
    e = sat.e_us
    marks = [sat.ds(), sat.cs()]
    marks = [m[(m >= e - DAY_US) & (m <= e + 5 * DAY_US - 601 * 10 ** 6)] for m in marks]
    o = sat.fresh()
    for i in range(n_q):
        m = marks[i % 2]
        if i % 3 == 2 or not len(m):
            us = r.randrange(e - DAY_US, e + 5 * DAY_US)
        else:
            us = int(r.choice(list(m))) + int(10 ** r.uniform(6, 8.78))
        rep = make_rep(REPS[(i + i // 7) % 7], us * 1000 + r.randrange(1000))
        if rep_ns(rep) < (e - DAY_US) * 1000:      # a coarse unit truncated the instant out of the window
            continue
        if timed_out(ctx, rep["kind"]):
            continue
        res = []
        found = judge_last_an(sat, rep, o=o, result=res)
        if any(f[0] == "nonterminating" for f in found):
            timed_out(ctx, rep["kind"], note=True)
        ctx.count("eval_oracle_last_an_shortarc")
        ctx.bump("oracle_representation", rep["kind"])
        ctx.distinct((sat.l1[2:7] + sat.l2[8:16], rep["kind"], rep["ticks"]))
        emit(ctx, sat, rep, found, "Orbital.get_last_an_time")
        follow_ups(ctx, sat, res)


def oracle_slow(ctx, sat, n_q):
    """Last-node clauses on a slow near-earth set (a revolution is up to 22 steps of the backward scan), on fresh
    objects: queries uniform over the window and 1 s - 50 min BEFORE the trajectory's own south-to-north crossings (the
    last node is then nearly a whole revolution back: the longest scans in the domain), each in one of the 7
    representations in rotation.  The orbit-number clauses, the cached-object queries, the crossing time and the
    order of first use are judged by oracle_sat as for every other set."""
    r = ctx.rng
    e = sat.e_us
    cs = sat.cs()
    inside = cs[(cs >= e - DAY_US + 3000 * 10 ** 6) & (cs <= e + 5 * DAY_US)]
    for i in range(n_q):
        if i % 3 == 2 or not len(inside):
            us = r.randrange(e - DAY_US, e + 5 * DAY_US)
        else:
            us = int(r.choice(list(inside))) - int(10 ** r.uniform(6, 9.477))
        rep = make_rep(REPS[(i + i // 7) % 7], us * 1000 + r.randrange(1000))
        if rep_ns(rep) < (e - DAY_US) * 1000:      # a coarse unit truncated the instant out of the window
            continue
        if timed_out(ctx, rep["kind"]):
            continue
        res = []
        found = judge_last_an(sat, rep, result=res)
        if any(f[0] == "nonterminating" for f in found):
            timed_out(ctx, rep["kind"], note=True)
        ctx.count("eval_oracle_last_an_slow")
        ctx.bump("oracle_representation", rep["kind"])
        if res:
            ctx.bump("slow_scan_steps", str(int((rep_ns(rep) - res[0][0]) // (600 * 10 ** 9)) + 1))
        ctx.distinct((sat.l1[2:7] + sat.l2[8:16], rep["kind"], rep["ticks"]))
        emit(ctx, sat, rep, found, "Orbital.get_last_an_time")
        follow_ups(ctx, sat, res)


def oracle(ctx):
    n = ctx.size(64, 300)
    tl = gen_tles(ctx, n, ctx.size(8, 14))
    for i, t in enumerate(tl):
        sat = Sat(*t)
        ctx.bump("oracle_family", sat.family)
        ctx.bump("oracle_sin_i", "%.1f" % abs(math.sin(math.radians(sat.incl))))
        try:
            oracle_sat(ctx, sat, ctx.size(40, 220), ctx.size(4, 8), ctx.size(4, 10), all_crossings=True)
            oracle_zones(ctx, sat)
        except Exception as e:  # noqa  propagator refusals inside the window are C13's subject
            if not is_refusal(e):
                raise
            ctx.count("oracle_sets_skipped")
            ctx.note("set skipped (%s): %s / %s" % (type(e).__name__, sat.l1, sat.l2))
        if i == 0:
            ctx.sample({"line1": sat.l1, "line2": sat.l2, "family": sat.family, "crossings": int(len(sat.cs()))})
    # eccentric sets with a short northern or southern arc: last-node clauses only (the count clause keeps its population)
    for i in range(ctx.size(24, 120)):
        t = gen_tle(ctx, "shortarc")
        if not t:
            continue
        sat = Sat(*t)
        ctx.bump("oracle_family", sat.family)
        ctx.bump("shortarc_eccentricity", "%.2f" % sat.ecc)
        try:
            oracle_shortarc(ctx, sat, ctx.size(42, 126))
        except Exception as e:  # noqa  propagator refusals inside the window are C13's subject
            if not is_refusal(e):
                raise
            ctx.count("oracle_sets_skipped")
            ctx.note("set skipped (%s): %s / %s" % (type(e).__name__, sat.l1, sat.l2))
        if i == 0:
            ctx.sample({"line1": sat.l1, "line2": sat.l2, "family": sat.family, "eccentricity": sat.ecc,
                        "arg_perigee": float(sat._ref.tle.arg_perigee), "crossings": int(len(sat.cs()))})
    # the slow end of the near-earth domain (mean motion from the smallest the library accepts to 9 rev/day): every clause
    for i in range(ctx.size(12, 60)):
        t = gen_tle(ctx, "slow")
        if not t:
            continue
        sat = Sat(*t)
        ctx.bump("oracle_family", sat.family)
        ctx.bump("slow_period_min", "%d" % (int(1440.0 / sat.mm / 5) * 5))
        ctx.bump("slow_eccentricity", "%.2f" % sat.ecc)
        try:
            oracle_slow(ctx, sat, ctx.size(28, 84))
            oracle_sat(ctx, sat, ctx.size(24, 120), ctx.size(2, 6), ctx.size(3, 8), all_crossings=True)
        except Exception as e:  # noqa  propagator refusals inside the window are C13's subject
            if not is_refusal(e):
                raise
            ctx.count("oracle_sets_skipped")
            ctx.note("set skipped (%s): %s / %s" % (type(e).__name__, sat.l1, sat.l2))
        if i == 0:
            ctx.sample({"line1": sat.l1, "line2": sat.l2, "family": sat.family, "eccentricity": sat.ecc,
                        "period_min": 1440.0 / sat.mm, "crossings": int(len(sat.cs()))})


# ------------------------------------------------------------------------------------------------ known findings / replay
def match_known(entry, v):
    m = entry.get("match", {})
    if m.get("kind") == "count_eccentric_apsidal":
        c = v["case"]
        return (v["kind"] == "count" and c.get("exact_nodes_rel_error", 0.0) >= m.get("min_exact_nodes_rel_error", 9.9)
                and c.get("eccentricity", 0.0) >= m.get("min_eccentricity", 1.0)
                and c.get("abs_sin_inclination", 1.0) <= m.get("max_abs_sin_inclination", 0.0))
    if m.get("kind") == "count_epoch_within_1km_of_node":
        # the epoch lies within 1 km of the ascending node (so it "is" the node and orbit number rev starts there) but more than
        # 2 s of flight away from it. Before the node: that node is numbered rev instead of rev + 1, every number in the window
        # is one less than the crossing count. Past the node: every increment is late by that flight time, visible at the
        # first crossings, where the slack is still smaller than it.
        c = v["case"]
        z, vz = c.get("epoch_z_km", 0.0), c.get("epoch_vz_kms", 0.0)
        if not (v["kind"] == "count" and abs(z) <= 1.0 and vz > 0 and abs(z) / vz > m.get("min_seconds_from_node", 9e9)
                and c.get("lo") == c.get("hi") and v["observed"] == c.get("lo") - 1):
            return False
        return z < 0 or c.get("slack_s", 9e9) < z / vz
    return False


def replay(ctx, payload):
    if payload.get("no_failing_input_found"):
        dis = payload.get("first_disagreements") or []
        if not dis:
            print("tie broken outside the recorded disagreements:", [b.get("stage") for b in payload.get("broken", [])])
            if not any(b.get("stage") == "correspondence" for b in payload.get("broken", [])):
                return 1
            sub = lib.Ctx(ID, "quick", 0)
            try:
                correspond(sub)
            except Exception as e:  # noqa
                print("the correspondence stage still fails: %s: %s" % (type(e).__name__, str(e)[:300]))
                return 1
            print("correspondence re-run: %d disagreement(s), %d violation(s)" % (len(sub.disagreements), len(sub.violations)))
            return 1 if (sub.disagreements or sub.violations) else 0
        still = 0
        for d in dis:
            case = d["case"]
            sub = lib.Ctx(ID, "quick", 0)
            sat = Sat(case["line1"], case["line2"], case.get("family", "?"))
            batch = []
            drv = ctx.driver()
            if case.get("op") in ("last_an", "last_an_init"):
                corr_last_an(sub, drv, sat, [case["rep"]], batch, cached=bool(case.get("after_orbit_number")))
            elif case.get("op") == "crossing":
                corr_crossing(sub, drv, sat, [(case["tstart_us"], case["tend_us"], case["node"])], batch)
            else:
                corr_numbers(sub, drv, sat, [rep_ns(case["rep"])], batch)
            for (line, meta), out in zip(batch, drv.run([b[0] for b in batch])):
                check_meta(sub, meta, out)
            for x in sub.disagreements[:3]:
                print("DISAGREE %s: implementation %s model %s" % (x["op"], str(x["implementation"])[:300], str(x["model"])[:300]))
            for x in sub.violations[:3]:
                print("VIOLATES %s: %s" % (x["kind"], x["observed"]))
            still += 1 if (sub.disagreements or sub.violations) else 0
        print("correspondence %s" % ("still broken" if still else "restored"))
        return 1 if still else 0
    case = payload.get("input", payload)
    if case.get("process_tz") and os.environ.get("TZ") != case["process_tz"]:
        with process_tz(case["process_tz"]):
            return replay(ctx, payload)
    kind = case.get("check") or payload.get("kind")
    sat = Sat(case["line1"], case["line2"], case.get("family", "?"))
    rep = case["rep"]
    if case.get("tz") or kind in ("last_an_representation", "number_representation"):
        # evaluated under a process time zone and / or across the representations of one instant
        print("process time zone %s, instant %s" % (case.get("tz") or "(unchanged)", np.datetime64(int(case.get("instant_ns", rep_ns(rep))), "ns")))
        found = judge_zone(sat, int(case.get("instant_ns", rep_ns(rep))), case.get("tz"), case.get("kinds") or [rep["kind"]])
        found = [f[:4] for f in found if f[0] == kind and (f[4]["kind"] == rep["kind"] or "instant_ns" in case)]
        for (k, observed, required, extra) in found:
            print("VIOLATES %s: %s; required: %s" % (k, observed, required))
        if not found:
            print("property holds on this case")
        return 1 if found else 0
    if kind in ("count", "trunc", "tbus", "int_type"):
        found, n_int, n_flt = judge_number(sat, sat.fresh(), rep)
        print("orbit number %d (%r) at %s" % (n_int, n_flt, rep_value(rep)))
    elif kind == "decreases":
        o = sat.fresh()
        _, i1, f1 = judge_number(sat, o, rep)
        _, i2, f2 = judge_number(sat, o, case["rep2"])
        print("numbers:", (f1, i1), "then", (f2, i2))
        a, b = rep_ns(rep), rep_ns(case["rep2"])
        bad = (i2 < i1 or f2 < f1) if b >= a else (i1 < i2 or f1 < f2)
        found = [("decreases", [f1, i1, f2, i2], "never decreases", {})] if bad else []
    elif kind == "raises_number":
        found = judge_number(sat, sat.fresh(), rep)[0]
        found = [f for f in found if f[0] == "raises"]
    elif kind == "raises_crossing":
        found = [f for f in judge_crossing(sat, sat.fresh(), case["tstart_us"], case["tend_us"], case["node"], case.get("rtol"),
                                           case.get("bounds_kind") or True) if f[0] == "raises"]
    elif kind == "nonterminating_number":
        try:
            guarded(lambda: sat.fresh().get_orbit_number(rep_value(rep)))
            found = []
        except Timeout:
            found = [(kind, "no result within %.0f s" % WATCHDOG_S, "get_orbit_number returns", {})]
    elif kind == "nonterminating_crossing":
        try:
            o = sat.fresh()
            guarded(lambda: judge_crossing(sat, o, case["tstart_us"], case["tend_us"], case["node"], case.get("rtol"), True))
            found = []
        except Timeout:
            found = [(kind, "no result within %.0f s" % WATCHDOG_S, "get_equatorial_crossing_time returns", {})]
    elif kind == "order_dependent":
        found = judge_order(sat, tuple(case["seed_times"]), [tuple(p) for p in case["perms"]])
    elif kind == "crossing_representation":
        found = judge_crossing_reps(sat, sat.fresh(), case["tstart_us"], case["tend_us"], case["node"], case.get("rtol"))
    elif kind and kind.startswith("crossing"):  # crossing_missed / _outside / _not_root / _wrong_integer
        found = []
        for k in ([case["bounds_kind"]] if case.get("bounds_kind") else ["us", "naive"]):
            found += judge_crossing(sat, sat.fresh(), case["tstart_us"], case["tend_us"], case["node"], case.get("rtol"), k)
    else:
        o = None
        if case.get("after_orbit_number"):
            o = sat.fresh()
            with warnings.catch_warnings():
                warnings.simplefilter("ignore")
                o.get_orbit_number(o.tle.epoch)
        found = judge_last_an(sat, rep, o=o)
    found = [f for f in found if f[0] == kind] or ([] if kind in ("count", "trunc", "tbus", "int_type") else found)
    for (k, observed, required, extra) in found:
        print("VIOLATES %s: %s; required: %s %s" % (k, observed, required, extra or ""))
    if not found:
        print("property holds on this case")
    return 1 if found else 0
