"""C10 — reading a platform from a TLE collection returns that platform's entry or fails."""
import fnmatch
import io
import json
import os
import re
import shutil
import subprocess
import sys
import tempfile

HERE = os.path.dirname(os.path.abspath(__file__))
if os.path.dirname(HERE) not in sys.path:
    sys.path.insert(0, os.path.dirname(HERE))

import lib  # noqa: E402
import tlegen  # noqa: E402

ID = "C10"
LEAN_TARGETS = ["PV.Props.C10"]
# T-D: functions translated from the source by harness/pytrans.py, proved equal to the model (DESIGN section 0)
EQUIV = {"PV.Equiv.TranslatedCollection": ["decode_lines_eq", "get_tles_from_url_first", "get_tles_from_url_all",
                                           "get_first_tle_eq", "get_first_tle_sources", "get_tles_from_uris_all",
                                           "read_tle_eq_readTle"],
         "PV.Equiv.TranslatedPlatforms": ["read_platform_numbers_eq"]}
EQUIV.update({"PV.Equiv.TranslatedBulk": ["parse_tles_eq", "parse_tles_collection", "collect_filenames_eq", "read_tle_files_eq", "read_xml_eq", "read_xml_admin_messages_eq", "read_tle_from_mmam_xml_file_eq"]})      # T-D, fifth wave
EQUIV["PV.Equiv.TranslatedBulk"] = EQUIV.get("PV.Equiv.TranslatedBulk", []) + ["initEntry_reread", "parse_tles_reread", "xmlFile_pairs", "xmlBulk_eq", "read_tle_files_reread", "read_xml_pairs"]      # T-D, sixth wave
RULE = ("generated collections of 0-30 checksum-valid entries x naming style {all named, none named, mixed} x line ending "
        "{LF, CRLF, mixed} x padding / blank lines / missing final newline x duplicates and registered catalogue numbers in any "
        "order; per collection the requested names {registered alias with/without an entry, alias in other case/padding, exact "
        "name line, proper prefix and extension of a name line, unknown, empty, blank} x source kinds {path, io.StringIO, MMAM "
        "XML admin message}; collections in which an entry occurs again verbatim (adjacent and non-adjacent, 2-3 times); the "
        "same reads of given collections while the TLES environment variable points at OTHER collections (holding the "
        "requested platform with different elements, or lacking it; restored afterwards); bulk reads "
        "(Downloader.read_tle_files over 1-2 files, read_xml_admin_messages, fetch_plain_tle over 1-2 URIs and "
        "fetch_spacetrack with `requests` interposed; the three file readers - read_tle_files, read_xml_admin_messages, "
        "read_tles_from_mmam_xml_files - over 2-5 paths of one directory whose configured order agrees with, opposes or is "
        "unrelated to the lexical order of the names (numbered ..._NO_9 before ..._NO_10, dated newest first, shuffled), "
        "explicit or through wildcards that each match one file, every file with entries of its own"
        "); generated platforms files (names of several words with '#', digits, "
        "tabs, leading/trailing blanks; comment lines with '#' in column 0) through read_platform_numbers and, in fresh "
        "interpreters with PYORBITAL_CONFIG_PATH, as the active registry, with requests for registered aliases and for "
        "their leading words; ill-formed texts (truncated, name line at the end) for the exception classes. A case is one read; "
        "distinct = (collection text, platforms file, requested name, source kind)")
ASSUMPTIONS = [
    "ASCII text (str.strip/split/upper on non-ASCII is outside the model)",
    "well-formed collection: every stripped line 1 is 69 characters starting with '1 ', every stripped line 2 starts with '2 ', "
    "name lines are not blank and do not start with '1 '; blank lines only between entries (never inside one)",
    "the requested name (stripped, upper-cased) does not itself start with '1 ' or '2 ' (it is a name, not an element line)",
    "registered catalogue numbers are 5 characters wide, the width of the TLE column (all 85 ids of pyorbital's platforms.txt are)",
    "one source per read (tle_file given); the TLES glob / internet paths choose a source and then run the same scanner",
]
TRUSTED = [
    "model: PV.Model.Collection (hand-written from tlefile.py _decode_lines/_get_tles_from_url/_read_tle/read_platform_numbers), "
    "tied by exact comparison of (line1, line2) / exception class on every generated read",
    "CPython's line iteration of binary files, text files and io.StringIO and ElementTree text extraction (source -> list of lines)",
]
LEVEL_TEXT = ("Theorems (Lean 4 kernel, core only, collections of any length): for every well-formed collection, line ending and "
              "request (file or stream; registered, unregistered or empty name) the scanner's first result equals the spec's "
              "first qualifying entry (name line = requested name, or catalogue number = registered id, or first entry for the "
              "empty name on a stream) and is KeyError when none qualifies; what is returned is a qualifying entry of the "
              "collection and both lines come from that one entry; the bulk scan returns every entry in order and re-reading "
              "each merged pair gives it back; one row of the platforms file maps the space-joined leading words to the last "
              "token and later rows overwrite earlier ones; the empty string is never a registered name. The model is tied to "
              "tlefile.py by exact agreement on generated collections x requests x source kinds x registries.")
LEVEL_NOTE = ("Trusted: Lean kernel; axioms propext, Quot.sound, Classical.choice; the hand-written model PV.Model.Collection and "
              "the correspondence harness; ASCII restriction; CPython line iteration / ElementTree as the map from a source to "
              "its lines.")
TECHNIQUE = ("Lean 4 proof by induction over the entry list about an executable model of the line scanner; differential "
             "correspondence on generated collections (in-process and fresh interpreters for custom platforms files)")

NAME_POOL = ["ISS (ZARYA)", "COSMOS 2251 DEB", "STARLINK-1234", "SAT", "SAT 1", "SAT 12", "0 VANGUARD 1", "FENGYUN 1C DEB",
             "2 FAST", "1A", "10 DOWNING", "X", "AQUA", "TERRA", "SUOMI NPP", "NOAA 19", "NOAA 20", "METOP", "METOP-B DEB",
             "HST", "CSS (TIANHE)", "GOES 16", "Metop-b", "noaa 19"]


# --------------------------------------------------------------------------- independent reference (statement only)
def ref_platforms(text):
    """The platforms file maps the leading words of each non-comment line to its last token."""
    out = {}
    for row in text.splitlines():
        if row.startswith("#"):
            continue
        m = re.match(r"^[\s]*(\S(?:.*\S)?)\s+(\S+)\s*$", row, re.S)
        if not m:
            continue
        out[re.sub(r"\s+", " ", m.group(1))] = m.group(2)
    return out


def ref_select(entries, platform, registry_upper, stream):
    """Index of the first qualifying entry, or None (=> KeyError)."""
    name = platform.strip().upper()
    rid = registry_upper.get(name)
    for i, e in enumerate(entries):
        if e["name"] is not None and e["name"].strip() == name:
            return i
        if rid is not None and e["l1"].strip()[2:7] == rid:
            return i
        if stream and name == "":
            return i
    return None


# --------------------------------------------------------------------------- generators
def default_platforms_text():
    return open(os.path.join(lib.REPO, "pyorbital", "etc", "platforms.txt")).read()


def gen_entries(rng, n, style, reg_items):
    entries = []
    for _ in range(n):
        r = rng.random()
        name = None
        if entries and r < 0.12:
            src = rng.choice(entries)
            sat, name = src["sat"], src["nm"]
        elif r < 0.45 and reg_items:
            pname, sat = rng.choice(reg_items)
            k = rng.random()
            if k < 0.35:
                name = pname.upper().replace("-", " ")
            elif k < 0.55:
                name = pname.upper()
            elif k < 0.7:
                name = rng.choice(reg_items)[0].upper()     # another platform's name over this catalogue number
            elif k < 0.8:
                name = pname                                  # as written in platforms.txt (mixed case)
            else:
                name = rng.choice(NAME_POOL)
        else:
            sat = rng.choice(["%05d" % rng.randrange(0, 100000), "%5d" % rng.randrange(1, 100000)])
            name = rng.choice(NAME_POOL) if rng.random() < 0.6 else "OBJ %d" % rng.randrange(1000)
        if len(sat) != 5:
            sat = ("%5s" % sat)[:5]
        _, l1, l2 = tlegen.random_tle(rng, "any", overrides={"satnum": sat})
        named = style == "named" or (style == "mixed" and rng.random() < 0.5)
        entries.append({"name": name if named else None, "l1": l1, "l2": l2, "sat": sat, "nm": name})
    return entries


def with_repeats(rng, entries, style, cap=30):
    """Duplicates: some entries occur again verbatim (the same two element lines; in the mixed style the name line of the
    copy may be present or not): right after the original or somewhere else, 2-3 occurrences in all."""
    out = [dict(e) for e in entries]
    if not out:
        return out
    for _ in range(rng.randrange(1, 4)):
        i = rng.randrange(len(out))
        for _ in range(rng.choice([1, 1, 2])):
            c = dict(out[i])
            if style == "mixed" and rng.random() < 0.4:
                c["name"] = c["nm"] if c["name"] is None else None
            j = i + 1 if rng.random() < 0.5 else rng.randrange(len(out) + 1)
            if len(out) < cap:
                out.insert(j, c)
                if j <= i:
                    i += 1
            elif j < len(out) and j != i:
                out[j] = c
    return out


def gen_archive(rng, entries, reqs, reg_items):
    """OTHER collections for the TLES environment variable to point at while a given collection is read: for some of the
    requests an entry that would qualify there (same name / registered catalogue number, different elements), for others
    nothing.  -> [(file name, text)], at least one file."""
    regu = {k.upper(): v for k, v in reg_items}

    def fresh(sat, name):
        _, l1, l2 = tlegen.random_tle(rng, "any", overrides={"satnum": sat})
        return {"name": name, "l1": l1, "l2": l2, "sat": sat, "nm": name}
    arch = []
    for _, req in reqs:
        u = req.strip().upper()
        if u and rng.random() < 0.6:
            arch.append(fresh(regu.get(u) or "%05d" % rng.randrange(100000), u if rng.random() < 0.7 else rng.choice(NAME_POOL)))
    for e in entries:
        if rng.random() < 0.3:
            arch.append(fresh(e["sat"], e["nm"]))
    for _ in range(rng.randrange(0, 3)):
        arch.append(fresh("%05d" % rng.randrange(100000), rng.choice(NAME_POOL)))
    rng.shuffle(arch)
    k = rng.randrange(len(arch) + 1) if rng.random() < 0.4 else len(arch)
    parts = [arch[:k]] + ([arch[k:]] if k < len(arch) or rng.random() < 0.2 else [])
    return [["a%d.tle" % i, render(rng, p)] for i, p in enumerate(parts)]


def render(rng, entries, blanks=True):
    """Text of the collection: per-collection line ending policy, padding, blank lines between entries."""
    pol = rng.choice(["lf", "lf", "crlf", "mixed"])

    def eol():
        return {"lf": "\n", "crlf": "\r\n"}.get(pol) or rng.choice(["\n", "\r\n"])
    pad = rng.random() < 0.3
    blank_p = 0.15 if (blanks and rng.random() < 0.4) else 0.0
    out = []
    for e in entries:
        while rng.random() < blank_p:
            out.append(rng.choice(["", " ", "\t"]) + eol())
        if e["name"] is not None:
            out.append((" " * rng.randrange(3) if pad else "") + e["name"] + (" " * rng.randrange(12) if pad else "") + eol())
        out.append(e["l1"] + (" " * rng.randrange(3) if pad else "") + eol())
        out.append(e["l2"] + (" " * rng.randrange(3) if pad else "") + eol())
    while rng.random() < blank_p:
        out.append(eol())
    text = "".join(out)
    if out and rng.random() < 0.3:
        text = text.rstrip("\r\n")            # no final newline
    return text


def xml_text(rng, entries):
    """(xml document, [(line-1 text, line-2 text)] as ElementTree will return them).  Entries are grouped: a
    <two-line-elements> block may hold several <navigation> elements, a <message> several blocks."""
    s = ['<?xml version="1.0" encoding="UTF-8"?>', "<multi-mission-administrative-message>"]
    items = []
    k = 0
    n = len(entries)
    while k < n:
        per_message = rng.choice([1, 1, 2, 3])
        s.append("<message>")
        for _ in range(per_message):
            if k >= n:
                break
            per_block = rng.choice([1, 1, 2, 3])
            s.append("<two-line-elements>")
            for _ in range(per_block):
                if k >= n:
                    break
                e = entries[k]
                k += 1
                t1 = e["l1"] + (" " if rng.random() < 0.1 else "")
                t2 = e["l2"]
                items.append([t1, t2])
                s += ["<navigation>", "<line-1>" + t1 + "</line-1>", "<line-2>" + t2 + "</line-2>", "</navigation>"]
            s.append("</two-line-elements>")
        s.append("</message>")
    s += ["</multi-mission-administrative-message>"]
    return rng.choice(["\n", "\r\n"]).join(s), items


def vary(rng, name):
    k = rng.random()
    if k < 0.4:
        return name
    if k < 0.6:
        return name.lower()
    if k < 0.8:
        return " " * rng.randrange(1, 3) + name.title() + " " * rng.randrange(3)
    return name.upper() + "\t"


def requests_for(rng, entries, reg_items):
    """(class, requested name) pairs for one collection."""
    reqs = []
    sats = {e["sat"] for e in entries}
    present = [p for p, i in reg_items if i in sats]
    absent = [p for p, i in reg_items if i not in sats]
    if present:
        reqs.append(("alias", vary(rng, rng.choice(present))))
        mixed = [p for p in present if p != p.upper()]
        if mixed:
            reqs.append(("alias", rng.choice(mixed)))
    if absent:
        reqs.append(("alias_absent", vary(rng, rng.choice(absent))))
    multi = [p for p, _ in reg_items if len(p.split()) > 1]
    if multi:
        # the leading words of a registered name of several words are not that name (unless registered themselves)
        p = rng.choice(multi).split()
        reqs.append(("alias_words", vary(rng, " ".join(p[:rng.randrange(1, len(p))]))))
    names = [e["name"] for e in entries if e["name"] is not None]
    pool = names or [e["nm"] for e in entries] or ["SAT"]
    nm = rng.choice(pool)
    reqs.append(("nameline", vary(rng, nm.strip())))
    base = rng.choice(pool).strip()
    if len(base) > 1:
        reqs.append(("prefix", base[:rng.randrange(1, len(base))]))
    reqs.append(("extension", base + rng.choice(["X", " DEB", "-"])))
    reqs.append(("unknown", rng.choice(["NOSUCHSAT", "zz top", "UNKNOWN 7"])))
    reqs.append(("empty", rng.choice(["", "", " ", "\t "])))
    out = []
    for c, r in reqs:
        u = r.strip().upper()
        if u.startswith("1 ") or u.startswith("2 "):
            continue                 # outside the property's domain (ASSUMPTIONS): an element line given as the name
        out.append((c, r))
    return out


def gen_platforms_text(rng, entries):
    """A custom platforms.txt: comment lines ('#' in column 0), blank rows, names of several words - with digits and with
    '#' inside a word or leading a later word -, tabs, leading and trailing blanks, duplicates, rows with one token.  The
    first word of a data row never starts with '#', so that no reading of "comment line" makes a data row a comment."""
    rows = ["# custom platforms file", "#"]
    sats = [e["sat"] for e in entries if e["sat"].strip() == e["sat"]]
    first = ["Metop", "NOAA", "My", "Sat", "EOS-Aqua", "iss", "Alpha", "x", "Station", "Flock", "A#B", "No.#3", "C#", "4"]
    later = ["B", "19", "Sat", "(zarya)", "x", "#1", "#7", "#", "4", "2", "No.#3", "##", "1A", "#12345", "20"]
    n = rng.randrange(3, 12)
    for _ in range(n):
        k = rng.random()
        if k < 0.1:
            rows.append(rng.choice(["", "   ", "# Foo 12345", "lonely", "#Metop-B 11111", "#\tx 22222", "\t", "#lonely"]))
            continue
        nm = [rng.choice(first)] + [rng.choice(later) for _ in range(rng.randrange(0, 4))]
        sep = rng.choice([" ", "  ", "\t", " \t "])
        num = rng.choice(sats) if (sats and rng.random() < 0.6) else "%05d" % rng.randrange(100000)
        lead = rng.choice([" ", "  ", "\t", "   \t"]) if rng.random() < 0.15 else ""
        trail = rng.choice([" ", "   ", "\t", " \t "]) if rng.random() < 0.25 else ""
        rows.append(lead + sep.join(nm) + rng.choice([sep, sep, "\t", "   "]) + num + trail)
    data = [r for r in rows if not r.startswith("#") and len(r.split()) >= 2]
    if data and rng.random() < 0.5:
        rows.append(" ".join(rng.choice(data).split()[:-1]) + " 99999")        # a later duplicate overwrites
    text = "\n".join(rows)
    return text + ("\n" if rng.random() < 0.8 else "")


def gen_multi_names(rng, k, ext):
    """k file names of one directory in the order in which they are to be configured, and what that order is relative to
    the lexical order of the names."""
    fam = rng.choice(["numbered", "numbered", "dated-newest-first", "shuffled", "shuffled", "ascending", "descending"])
    if fam == "numbered":        # ..._NO_8, _NO_9, _NO_10, _NO_11: ascending numbers are not ascending strings
        first = rng.choice([8, 9, 9, 98, 99, 7, rng.randrange(1, 120)])
        stem = rng.choice(["AM_ADMIN_MESSAGE_NO_", "tle_NO_", "bulletin-"])
        names = ["%s%d%s" % (stem, first + i, ext) for i in range(k)]
    elif fam == "dated-newest-first":
        day = rng.randrange(k, 28)
        stem = rng.choice(["tle-202401", "weather_2023-12-", "mmam19991"])
        names = ["%s%02d%s" % (stem, day - i, ext) for i in range(k)]
    else:
        pool = ["weather", "amateur", "stations", "noaa", "resource", "Zulu", "active", "cubesat", "geo", "x", "10", "9", "B", "a"]
        names = [w + ext for w in rng.sample(pool, k)]
        if fam == "ascending":
            names.sort()
        elif fam == "descending":
            names.sort(reverse=True)
    rel = "agrees" if names == sorted(names) else "opposes" if names == sorted(names, reverse=True) else "unrelated"
    return names, rel


def wildcard_for(rng, name, names):
    """a pattern with '*' that matches *name* and no other file of the directory (None if the draw does not)"""
    stem, ext = os.path.splitext(name)
    k = rng.randrange(0, len(stem) + 1)
    pat = rng.choice([stem + ".*", stem + "*", stem[:k] + "*" + ext, stem[:k] + "*" + stem[k + 1:] + ext, "*" + stem[k:] + ext])
    if any(c in pat for c in "[]?"):
        return None
    return pat if [q for q in names if fnmatch.fnmatchcase(q, pat)] == [name] else None


def truncate(rng, text):
    """Ill-formed text: cut in the middle of an entry (exception classes of the scanner)."""
    lines = text.splitlines(True)
    if len(lines) < 2:
        return "LONELY NAME\n"
    k = rng.randrange(1, len(lines))
    return "".join(lines[:k])


# --------------------------------------------------------------------------- executing jobs on the implementation
def source_lines(kind, text):
    """The lines the implementation's iterator yields for a source (CPython semantics, trusted)."""
    if kind == "path":
        return [b.decode("utf-8") for b in io.BytesIO(text.encode("utf-8"))]       # io.open(filename, "rb")
    if kind == "textfile":
        return list(io.StringIO(text, newline=None))                               # open(filename): universal newlines
    return list(io.StringIO(text))                                                 # stream / XML text


def _outcome_of_exc(e, tlefile):
    if isinstance(e, KeyError):
        return ["keyerror"] if str(e.args[0] if e.args else "").startswith("Found no TLE entry") else ["logkeyerror"]
    if isinstance(e, StopIteration):
        return ["stopiteration"]
    return None


class _Reply:
    def __init__(self, text, status=200):
        self.status_code, self.text, self.content, self.ok = status, text, text.encode("utf-8"), status < 400


class _Interposed:
    """requests.get answers 200 with the body registered for the URI, requests.Session logs in (200) and answers its query
    with *session_body*, for the duration of the block (no network)."""

    def __init__(self, table, session_body=None):
        import requests
        self.rq, self.table, self.session_body = requests, table, session_body

    def __enter__(self):
        rq, me = self.rq, self
        self.saved = (rq.get, rq.post, rq.Session, rq.request)

        def fake_get(url, **kw):
            return _Reply(me.table[url])

        class FakeSession:
            def __init__(self, *a, **k):
                pass

            def __enter__(self):
                return self

            def __exit__(self, *a):
                return False

            def close(self):
                pass

            def post(self, url, data=None, **kw):
                return _Reply("")

            def get(self, url, **kw):
                return _Reply(me.session_body)

        def refuse(*a, **k):
            raise RuntimeError("unexpected request")

        rq.get, rq.post, rq.Session, rq.request = fake_get, refuse, FakeSession, refuse
        return self

    def __exit__(self, *a):
        rq = self.rq
        rq.get, rq.post, rq.Session, rq.request = self.saved
        return False


class _Environ:
    """TLES set to *value* for the duration of the block (None: left as it is); restored afterwards."""

    def __init__(self, value):
        self.value = value

    def __enter__(self):
        self.had, self.saved = "TLES" in os.environ, os.environ.get("TLES")
        if self.value is not None:
            os.environ["TLES"] = self.value
        return self

    def __exit__(self, *a):
        if self.value is not None:
            if self.had:
                os.environ["TLES"] = self.saved
            else:
                os.environ.pop("TLES", None)
        return False


def exec_jobs(jobs):
    """Run jobs against the pyorbital on sys.path (current interpreter)."""
    res = []
    for job in jobs:
        with _Environ(job.get("tles")):
            res += _exec_jobs([job])
    return res


def _exec_jobs(jobs):
    from pyorbital import tlefile

    class Probe(tlefile.Tle):
        def _checksum(self):
            pass

        def _parse_tle(self):
            pass

    def src(job):
        return io.StringIO(job["text"]) if job["kind"] == "stringio" else job["file"]

    res = []
    for job in jobs:
        op = job["op"]
        for wpath, wtext in job.get("write", []):
            # the collection under this path is REPLACED in place just before this read (an earlier job read the old one):
            # a result remembered for the path must not outlive the file's content
            with open(wpath, "w", newline="") as wf:
                wf.write(wtext)
        try:
            if op == "read":
                try:
                    t = tlefile.read(job["platform"], tle_file=src(job))
                    res.append(["tle", t.satnumber, t.line1, t.line2])
                except BaseException as e:  # noqa
                    o = _outcome_of_exc(e, tlefile)
                    if o is None:
                        try:
                            p = Probe(job["platform"], tle_file=src(job))
                            o = ["unparsed", p.line1, p.line2, type(e).__name__]
                        except BaseException as e2:  # noqa
                            o = ["exc", type(e).__name__, type(e2).__name__]
                    res.append(o)
            elif op in ("bulk_files", "bulk_xml"):
                key = "read_tle_files" if op == "bulk_files" else "read_xml_admin_messages"
                dl = tlefile.Downloader({"downloaders": {key: {"paths": job["files"]}}})
                try:
                    ts = getattr(dl, key)()
                    res.append(["ok"] + [[t.line1, t.line2] for t in ts])
                except BaseException as e:  # noqa
                    res.append(_outcome_of_exc(e, tlefile) or ["exc", type(e).__name__, str(e)[:80]])
            elif op == "bulk_xml_fn":
                try:
                    ts = tlefile.read_tles_from_mmam_xml_files(job["files"])
                    res.append(["ok"] + [[t.line1, t.line2] for t in ts])
                except BaseException as e:  # noqa
                    res.append(_outcome_of_exc(e, tlefile) or ["exc", type(e).__name__, str(e)[:80]])
            elif op in ("bulk_plain", "bulk_spacetrack"):
                uris = ["http://pv.invalid/tle/%d.txt" % i for i in range(len(job["bodies"]))]
                try:
                    if op == "bulk_plain":
                        with _Interposed(dict(zip(uris, job["bodies"]))):
                            d = tlefile.Downloader({"downloaders": {"fetch_plain_tle": {"src": uris}}}).fetch_plain_tle()
                        if list(d.keys()) != ["src"]:
                            raise RuntimeError("sources returned: %r" % list(d.keys()))
                        ts = d["src"]
                    else:
                        with _Interposed({}, job["bodies"][0]):
                            ts = tlefile.Downloader({"platforms": {25544: "ISS"}, "downloaders": {"fetch_spacetrack": {
                                "user": "u", "password": "p"}}}).fetch_spacetrack()
                    res.append(["ok"] + [[t.line1, t.line2] for t in ts])
                except BaseException as e:  # noqa
                    res.append(_outcome_of_exc(e, tlefile) or ["exc", type(e).__name__, str(e)[:80]])
            elif op == "plat":
                try:
                    d = tlefile.read_platform_numbers(job["file"], in_upper=job["upper"])
                    res.append(["ok"] + [[k, v] for k, v in d.items()])
                except BaseException as e:  # noqa
                    res.append(["exc", type(e).__name__, str(e)[:80]])
            elif op == "satellites":
                res.append(["ok"] + [[k, v] for k, v in tlefile.SATELLITES.items()])
            else:
                res.append(["exc", "bad-op", op])
        except BaseException as e:  # noqa
            res.append(["exc", type(e).__name__, str(e)[:80]])
    return res


def exec_jobs_child(jobs, config_dir):
    """Same, in a fresh interpreter whose active platforms file is config_dir/platforms.txt."""
    env = dict(os.environ)
    env["PYORBITAL_CONFIG_PATH"] = config_dir
    env["PV_REPO"] = lib.REPO
    env.pop("PPP_CONFIG_DIR", None)
    p = subprocess.run([sys.executable, os.path.abspath(__file__), "--child"], input=json.dumps(jobs).encode(),
                       stdout=subprocess.PIPE, stderr=subprocess.PIPE, env=env, timeout=600)
    if p.returncode != 0:
        raise RuntimeError("child interpreter failed: " + p.stderr.decode()[-600:])
    return json.loads(p.stdout.decode())


# --------------------------------------------------------------------------- model side
def model_outcome(s):
    t = s.split(" ")
    if t[0] == "tle":
        return ["tle", lib.h2s(t[1]), lib.h2s(t[2])]
    if t[0] == "ok":
        xs = [lib.h2s(x) for x in t[1:]]
        return ["ok"] + [[xs[i], xs[i + 1]] for i in range(0, len(xs), 2)]
    return [t[0]]


def same_read(impl, model):
    if model[0] == "tle":
        if impl[0] == "tle":
            return impl[2] == model[1] and impl[3] == model[2] and impl[1] == model[1][2:7]
        if impl[0] == "unparsed":
            return impl[1] == model[1] and impl[2] == model[2]
        return False
    return impl == model


def line_args(lines):
    return " ".join(lib.s2h(x) for x in lines)


def ascii_ok(*texts):
    return all(all(ord(c) < 128 for c in t) for t in texts)


# --------------------------------------------------------------------------- one world = one registry
class World:
    """Cases sharing one active platforms file (None = the package default, run in-process)."""

    def __init__(self, ctx, tmpdir, platforms_text, tag):
        self.ctx, self.tmpdir, self.tag = ctx, tmpdir, tag
        self.custom = platforms_text is not None
        self.platforms_text = platforms_text if self.custom else default_platforms_text()
        self.config_dir = None
        if self.custom:
            self.config_dir = os.path.join(tmpdir, "cfg-" + tag)
            os.makedirs(self.config_dir, exist_ok=True)
            with open(os.path.join(self.config_dir, "platforms.txt"), "w", newline="") as f:
                f.write(self.platforms_text)
        self.jobs, self.meta, self.nfile = [], [], 0

    def run(self):
        if self.custom:
            return exec_jobs_child(self.jobs, self.config_dir)
        return exec_jobs(self.jobs)

    def newfile(self, text, xml=False):
        self.nfile += 1
        p = os.path.join(self.tmpdir, "%s-%d%s" % (self.tag, self.nfile, "_ADMIN_MESSAGE_NO_1.xml" if xml else ".tle"))
        with open(p, "w", newline="") as f:
            f.write(text)
        return p

    def add(self, job, meta):
        self.jobs.append(job)
        self.meta.append(meta)

    def add_multi(self, op, names, paths, texts, entries, xml_items=None):
        """one bulk read over the files *names* (holding *texts*) of a directory of their own, configured as *paths*
        (names or wildcard patterns relative to that directory, in the GIVEN order; every pattern matches one file)"""
        self.nfile += 1
        d = os.path.join(self.tmpdir, "%s-multi%d" % (self.tag, self.nfile))
        os.makedirs(d, exist_ok=True)
        for name, text in zip(names, texts):
            with open(os.path.join(d, name), "w", newline="") as f:
                f.write(text)
        meta = {"op": op, "names": list(names), "paths": list(paths), "texts": list(texts), "entries": entries,
                "platforms_txt": self.platforms_text if self.custom else None}
        if xml_items is not None:
            meta["xml_items"] = xml_items
        self.add({"op": op, "files": [os.path.join(d, q) for q in paths]}, meta)

    def archive(self, files):
        """the collections *files* in a directory of their own -> glob pattern for TLES"""
        self.nfile += 1
        d = os.path.join(self.tmpdir, "%s-arch%d" % (self.tag, self.nfile))
        os.makedirs(d, exist_ok=True)
        for name, text in files:
            with open(os.path.join(d, name), "w", newline="") as f:
                f.write(text)
        return os.path.join(d, "*.tle")

    def add_reads(self, entries, text, xml, requests, wellformed, xml_items=None, reuse=False, tles_files=None,
                  kinds=("path", "stringio", "xml")):
        """read jobs of one collection over the three source kinds (reuse: under the paths of the previous collection,
        which are rewritten in place when the first job of this collection runs; tles_files: while the TLES environment
        variable points at these other collections)"""
        pending = []
        tles = self.archive(tles_files) if tles_files is not None else None
        if reuse and getattr(self, "last_paths", None) and (xml is None or self.last_paths[1]):
            fpath, xpath = self.last_paths[0], (self.last_paths[1] if xml is not None else None)
            pending = [[fpath, text]] + ([[xpath, xml]] if xml is not None else [])
        else:
            fpath = self.newfile(text)
            xpath = self.newfile(xml, xml=True) if xml is not None else None
        self.last_paths = (fpath, xpath if xml is not None else getattr(self, "last_paths", (None, None))[1])
        xml_lines_text = "\n".join(x for it in xml_items for x in it) if xml is not None else None
        for cls, req in requests:
            for kind in kinds:
                if kind == "xml" and xml is None:
                    continue
                job = {"op": "read", "platform": req, "kind": kind}
                if tles is not None:
                    job["tles"] = tles
                if pending:
                    job["write"], pending = pending, []
                if kind == "stringio":
                    job["text"] = text
                else:
                    job["file"] = fpath if kind == "path" else xpath
                meta = {"op": "read", "cls": cls, "platform": req, "kind": kind, "text": text if kind != "xml" else xml,
                        "write": job.get("write", []), "path": job.get("file"),
                        "lines": source_lines("path" if kind == "path" else "stringio", xml_lines_text if kind == "xml" else text),
                        "entries": [{"name": (e["name"] if kind != "xml" else None), "l1": e["l1"], "l2": e["l2"]} for e in entries],
                        "wellformed": wellformed, "platforms_txt": self.platforms_text if self.custom else None}
                if tles is not None:
                    meta["tles_env"] = {"files": tles_files}
                self.add(job, meta)


def build_world(ctx, tmpdir, platforms_text, tag, n_coll, with_bulk=True, illformed=True):
    rng = ctx.rng
    w = World(ctx, tmpdir, platforms_text, tag)
    reg = ref_platforms(w.platforms_text)
    reg_items = [(k, v) for k, v in reg.items() if len(v) == 5]
    w.add({"op": "satellites"}, {"op": "satellites", "platforms_txt": w.platforms_text if w.custom else None})
    pf = os.path.join(w.config_dir, "platforms.txt") if w.custom else os.path.join(lib.REPO, "pyorbital", "etc", "platforms.txt")
    for up in (True, False):
        w.add({"op": "plat", "file": pf, "upper": up},
              {"op": "plat", "upper": up, "text": w.platforms_text, "platforms_txt": w.platforms_text if w.custom else None})
    sizes = [0, 1, 2, 3, 30] + [rng.randrange(0, 31) for _ in range(max(0, n_coll - 5))]
    for ci, n in enumerate(sizes[:n_coll]):
        style = ["named", "none", "mixed"][ci % 3]
        entries = gen_entries(rng, n, style, reg_items)
        if ci % 2 == 1 or rng.random() < 0.25:
            entries = with_repeats(rng, entries, style)
        text = render(rng, entries)
        xml, xml_items = xml_text(rng, entries)
        reqs = requests_for(rng, entries, reg_items)
        w.add_reads(entries, text, xml, reqs, True, xml_items, reuse=(ci % 3 == 2))
        if ci % 3 == 1 or rng.random() < 0.15:
            # the same given collection, read while TLES names other collections
            w.add_reads(entries, text, xml, reqs, True, xml_items, tles_files=gen_archive(rng, entries, reqs, reg_items),
                        kinds=("path", "xml") if rng.random() < 0.7 else ("path", "stringio", "xml"))
        if with_bulk:
            pairs = [[e["l1"], e["l2"]] for e in entries]
            ptxt = w.platforms_text if w.custom else None
            bodies, got = [text], list(pairs)
            if rng.random() < 0.4:
                # a second URI of the same source: the same collection again (rendered anew) or other entries
                e2 = entries if rng.random() < 0.5 else gen_entries(rng, rng.randrange(0, 4), "mixed", reg_items)
                bodies.append(render(rng, e2))
                got += [[e["l1"], e["l2"]] for e in e2]
            w.add({"op": "bulk_plain", "bodies": bodies}, {"op": "bulk_plain", "texts": bodies, "entries": got, "platforms_txt": ptxt})
            if ci % 2 == 0:
                body = render(rng, entries)
                w.add({"op": "bulk_spacetrack", "bodies": [body]},
                      {"op": "bulk_spacetrack", "texts": [body], "entries": pairs, "platforms_txt": ptxt})
            f1 = w.newfile(text)
            w.add({"op": "bulk_files", "files": [f1]},
                  {"op": "bulk_files", "texts": [text], "entries": [[e["l1"], e["l2"]] for e in entries],
                   "platforms_txt": w.platforms_text if w.custom else None})
            xf = w.newfile(xml, xml=True)
            w.add({"op": "bulk_xml", "files": [xf]},
                  {"op": "bulk_xml", "texts": [xml], "xml_items": xml_items,
                   "entries": [[e["l1"], e["l2"]] for e in entries], "platforms_txt": w.platforms_text if w.custom else None})
            if ci % 4 == 1:
                e2 = gen_entries(rng, rng.randrange(0, 4), "mixed", reg_items)
                t2 = render(rng, e2)
                f2 = w.newfile(t2)
                w.add({"op": "bulk_files", "files": [f1, f2]},
                      {"op": "bulk_files", "texts": [text, t2], "entries": [[e["l1"], e["l2"]] for e in entries + e2],
                       "platforms_txt": w.platforms_text if w.custom else None})
            # several sources in a GIVEN order that need not be the lexical order of their names
            op = ("bulk_files", "bulk_xml", "bulk_xml_fn")[ci % 3]
            k = rng.choice([2, 2, 3, 4, 5])
            names, rel = gen_multi_names(rng, k, ".tle" if op == "bulk_files" else ".xml")
            mode = rng.choice(["explicit", "explicit", "wildcards", "mixed"])
            paths = []
            for q in names:
                pat = wildcard_for(rng, q, names) if (mode == "wildcards" or (mode == "mixed" and rng.random() < 0.5)) else None
                paths.append(pat or q)
            m_entries, m_texts, m_items = [], [], []
            for _ in names:
                ek = gen_entries(rng, rng.randrange(1, 4), "mixed" if op == "bulk_files" else "none", reg_items)
                m_entries += [[e["l1"], e["l2"]] for e in ek]
                if op == "bulk_files":
                    m_texts.append(render(rng, ek))
                else:
                    xt, xi = xml_text(rng, ek)
                    m_texts.append(xt)
                    m_items += xi
            w.multi_orders = getattr(w, "multi_orders", []) + [rel + "/" + ("wildcard" if any("*" in q for q in paths) else "explicit")]
            w.add_multi(op, names, paths, m_texts, m_entries, m_items if op != "bulk_files" else None)
        if illformed and n > 0 and ci % 3 == 0:
            bad = truncate(rng, render(rng, entries, blanks=False))
            w.add_reads(entries, bad, None, reqs[:4] + reqs[-1:], False)
            fb = w.newfile(bad)
            w.add({"op": "bulk_files", "files": [fb]},
                  {"op": "bulk_files", "texts": [bad], "entries": None, "platforms_txt": w.platforms_text if w.custom else None})
    return w


def worlds(ctx, tmpdir, n_default, n_custom_worlds, n_custom):
    ws = [build_world(ctx, tmpdir, None, "d", n_default)]
    for k in range(n_custom_worlds):
        seed_entries = gen_entries(ctx.rng, 6, "mixed", [])
        ws.append(build_world(ctx, tmpdir, gen_platforms_text(ctx.rng, seed_entries), "c%d" % k, n_custom))
    return ws


# --------------------------------------------------------------------------- correspondence
def correspond(ctx):
    """Model (Lean driver) vs the implementation on every generated job."""
    tmpdir = tempfile.mkdtemp(prefix="pv-c10-")
    try:
        ws = worlds(ctx, tmpdir, ctx.size(60, 500), ctx.size(2, 8), ctx.size(12, 40))
        drv = ctx.driver()
        for w in ws:
            impl = w.run()
            # the model's registry is the model's own reading of the active platforms file
            rows = source_lines("textfile", w.platforms_text)
            mreg_out = model_outcome(drv.run(["c10plat 1 " + line_args(rows)])[0])
            mreg = {k: v for k, v in mreg_out[1:]}
            lines, idx = [], []
            for i, m in enumerate(w.meta):
                if not ascii_ok(json.dumps(m, default=str, ensure_ascii=False)):
                    ctx.count("skipped_non_ascii")
                    continue
                if m["op"] == "read":
                    rid = mreg.get(m["platform"].strip().upper())
                    lines.append("c10first %s %s %d %s" % (lib.s2h(m["platform"]), lib.s2h(rid) if rid else "-",
                                                           0 if m["kind"] == "path" else 1, line_args(m["lines"])))
                elif m["op"] == "bulk_files":
                    # several files: the model reads them one after the other (tles += ...)
                    for t in m["texts"]:
                        lines.append("c10bulk " + line_args(source_lines("textfile", t)))
                        idx.append((i, "part"))
                    idx.pop()
                elif m["op"] in ("bulk_plain", "bulk_spacetrack"):
                    # io.StringIO(req.text) per body; the bodies of one source one after the other
                    for t in m["texts"]:
                        lines.append("c10bulk " + line_args(source_lines("stringio", t)))
                        idx.append((i, "part"))
                    idx.pop()
                elif m["op"] in ("bulk_xml", "bulk_xml_fn"):
                    lines.append("c10xml " + line_args([x for it in m["xml_items"] for x in it]))
                elif m["op"] == "plat":
                    lines.append("c10plat %d %s" % (1 if m["upper"] else 0, line_args(source_lines("textfile", m["text"]))))
                elif m["op"] == "satellites":
                    lines.append("c10plat 1 " + line_args(rows))
                idx.append((i, "last"))
            outs = drv.run_parallel([ln.rstrip(" ") for ln in lines])
            acc = []
            for (i, role), o in zip(idx, outs):
                mo = model_outcome(o)
                if role == "part":
                    acc.append(mo)
                    continue
                m = w.meta[i]
                if acc:
                    parts = acc + [mo]
                    acc = []
                    bad = [p for p in parts if p[0] != "ok"]
                    mo = bad[0] if bad else ["ok"] + [x for p in parts for x in p[1:]]
                got = impl[i]
                ctx.count("eval_corr_" + m["op"])
                ctx.bump("model_outcome", mo[0])
                ctx.distinct(("corr", w.tag, i))
                ok = same_read(got, mo) if m["op"] == "read" else (got == mo)
                if m["op"] == "read":
                    ctx.bump("request_class", m["cls"] + "/" + m["kind"])
                if not ok:
                    case = {k: v for k, v in m.items() if k not in ("lines",)}
                    ctx.disagree("c10" + m["op"], case, got, mo)
                elif m["op"] == "read" and len(ctx.samples) < 4 and mo[0] == "tle" and len(m["entries"]) > 2:
                    ctx.sample({"platform": m["platform"], "kind": m["kind"], "entries": len(m["entries"]), "result": mo[1][:8]})
    finally:
        shutil.rmtree(tmpdir, ignore_errors=True)


# --------------------------------------------------------------------------- oracle
def judge(meta, got):
    """The property, from the statement alone.  Returns None or (kind, observed, required, site)."""
    op = meta["op"]
    ptxt = meta.get("platforms_txt") or default_platforms_text()
    reg = ref_platforms(ptxt)
    if op == "satellites":
        want = {k.upper(): v for k, v in reg.items()}
        have = {k: v for k, v in got[1:]} if got[0] == "ok" else got
        if have != want:
            diff = sorted(set(want.items()) ^ set(have.items()))[:4] if isinstance(have, dict) else have
            return ("registry", diff, "upper-cased leading words -> last token of every non-comment row", "tlefile.SATELLITES")
        return None
    if op == "plat":
        want = {(k.upper() if meta["upper"] else k): v for k, v in reg.items()}
        have = {k: v for k, v in got[1:]} if got[0] == "ok" else got
        if have != want:
            diff = sorted(set(want.items()) ^ set(have.items()))[:4] if isinstance(have, dict) else have
            return ("platforms_file_map", diff, "leading words -> last token", "read_platform_numbers")
        return None
    if op in ("bulk_files", "bulk_xml", "bulk_xml_fn", "bulk_plain", "bulk_spacetrack"):
        if meta["entries"] is None:
            return None
        want = ["ok"] + [[a.strip(), b.strip()] for a, b in meta["entries"]]
        if got != want:
            kind = "bulk_xml_empty" if (op == "bulk_xml" and not meta["entries"]) else "bulk_not_all_in_order"
            site = {"bulk_xml": "read_tles_from_mmam_xml_files", "bulk_xml_fn": "read_tles_from_mmam_xml_files", "bulk_files": "Downloader.read_tle_files",
                    "bulk_plain": "Downloader.fetch_plain_tle", "bulk_spacetrack": "Downloader.fetch_spacetrack"}[op]
            return (kind, got if got[0] != "ok" else {"n": len(got) - 1, "first_diff": next(
                (i for i, (x, y) in enumerate(zip(got[1:], want[1:])) if x != y), min(len(got), len(want)) - 1),
                "same_entries_in_another_order": sorted(got[1:]) == sorted(want[1:])},
                "every entry, in order (%d)" % (len(want) - 1) + (
                    "; sources in the configured order %r" % (meta["paths"],) if meta.get("paths") else ""), site)
        return None
    if op != "read" or not meta["wellformed"]:
        return None
    entries = meta["entries"]
    regu = {k.upper(): v for k, v in reg.items()}
    k = ref_select(entries, meta["platform"], regu, meta["kind"] != "path")
    site = "_decode_lines"
    if k is None:
        if got not in (["keyerror"], ["logkeyerror"]):      # the caller sees KeyError either way
            if got[0] in ("tle", "unparsed"):
                return ("other_satellite", got, "KeyError (no entry qualifies)", site)
            return ("no_keyerror", got, "KeyError (no entry qualifies)", site)
        return None
    e = entries[k]
    want = ["tle", e["l1"].strip()[2:7], e["l1"].strip(), e["l2"].strip()]
    if got == want:
        return None
    if got[0] in ("tle", "unparsed"):
        a, b = (got[2], got[3]) if got[0] == "tle" else (got[1], got[2])
        i1 = [i for i, x in enumerate(entries) if x["l1"].strip() == a]
        i2 = [i for i, x in enumerate(entries) if x["l2"].strip() == b]
        both = [i for i in i1 if i in i2]
        if not both:
            return ("lines_not_same_entry", got, want, site)
        if k not in both:
            q = [i for i in both if ref_select([entries[i]], meta["platform"], regu, meta["kind"] != "path") == 0]
            return ("not_first_entry" if q else "other_satellite", got, want, site)
        return ("result_fields", got, want, "Tle")
    if got in (["keyerror"], ["logkeyerror"]):
        return ("qualifying_entry_missed", got, want, site)
    return ("wrong_failure", got, want, site)


def oracle(ctx):
    """The property on the implementation, from the statement alone (no model)."""
    tmpdir = tempfile.mkdtemp(prefix="pv-c10o-")
    try:
        ws = worlds(ctx, tmpdir, ctx.size(60, 500), ctx.size(2, 8), ctx.size(12, 40))
        for w in ws:
            impl = w.run()
            for o_ in getattr(w, "multi_orders", []):
                ctx.bump("bulk_sources_given_order_vs_lexical", o_)
            for m, got in zip(w.meta, impl):
                if not ascii_ok(json.dumps(m, default=str, ensure_ascii=False)):
                    continue
                if m["op"] == "read" and not m["wellformed"]:
                    continue
                ctx.count("eval_oracle_" + m["op"])
                if m["op"] == "read":
                    ctx.bump("TLES_environment", "names other collections" if m.get("tles_env") else "as found")
                v = judge(m, got)
                if v:
                    case = {k: x for k, x in m.items() if k != "lines"}
                    ctx.violation(v[0], case, v[1], v[2], site=v[3])
    finally:
        shutil.rmtree(tmpdir, ignore_errors=True)


def match_known(entry, v):
    m = entry.get("match", {})
    return bool(m) and all(v.get(k) == x or v.get("case", {}).get(k) == x for k, x in m.items())


def run_meta(meta, tmpdir):
    """Re-execute one recorded case on the implementation."""
    class _C:
        rng = None
    w = World(_C(), tmpdir, meta.get("platforms_txt"), "r")
    op = meta["op"]
    if op == "read":
        job = {"op": "read", "platform": meta["platform"], "kind": meta["kind"]}
        if meta["kind"] == "stringio":
            job["text"] = meta["text"]
        else:
            job["file"] = w.newfile(meta["text"], xml=(meta["kind"] == "xml"))
        if meta.get("tles_env"):
            job["tles"] = w.archive(meta["tles_env"]["files"])
    elif op in ("bulk_plain", "bulk_spacetrack"):
        job = {"op": op, "bodies": meta["texts"]}
    elif op in ("bulk_files", "bulk_xml", "bulk_xml_fn") and meta.get("names"):
        w.add_multi(op, meta["names"], meta["paths"], meta["texts"], meta["entries"], meta.get("xml_items"))
        return w.run()[0]
    elif op in ("bulk_files", "bulk_xml", "bulk_xml_fn"):
        job = {"op": op, "files": [w.newfile(t, xml=(op != "bulk_files")) for t in meta["texts"]]}
    elif op == "plat":
        job = {"op": "plat", "upper": meta["upper"], "file": w.newfile(meta["text"])}
    else:
        job = {"op": "satellites"}
    w.add(job, meta)
    return w.run()[0]


def replay(ctx, case):
    meta = case.get("input", case)
    tmpdir = tempfile.mkdtemp(prefix="pv-c10r-")
    try:
        got = run_meta(meta, tmpdir)
    finally:
        shutil.rmtree(tmpdir, ignore_errors=True)
    print("case:", meta["op"], {k: meta[k] for k in ("platform", "kind") if k in meta},
          "with TLES naming %d other collection(s)" % len(meta["tles_env"]["files"]) if meta.get("tles_env") else "")
    print("implementation:", json.dumps(got)[:400])
    v = judge(meta, got)
    if v:
        print("statement requires:", json.dumps(v[2])[:400], "->", v[0])
        return 1
    print("property holds on this case")
    return 0


if __name__ == "__main__" and "--child" in sys.argv:
    json.dump(exec_jobs(json.loads(sys.stdin.read())), sys.stdout)
