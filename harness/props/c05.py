"""C05 — observer look angles are the true topocentric azimuth and elevation, never NaN."""
import datetime as dt
import math
import warnings

import numpy as np

import geo
import lib
import orbits
from props import c12

ID = "C05"
LEAN_TARGETS = ["PV.Props.C05"]
# T-C tie (DESIGN 2.3): kernels traced from the current source are proved equal to the model over the reals
EQUIV = {'PV.Equiv.Astro': ['gmst_eq', 'observer_position_eq'], 'PV.Equiv.Look': ['r_clip1', 'look_module_eq', 'look_method_eq']}
RULE = ("(TLE, time, observer) triples: observers uniform over the globe, at the poles and the date line, at the EXACT "
        "sub-satellite point (lon/lat returned by get_lonlatalt, altitude 0 and just below the satellite), at the antipode, "
        "with altitudes -0.5..9 km (observers below the ellipsoid included); module-level function also with geostationary altitudes; "
        "geometries with EXACT zeros: satellite latitude and observer latitude both exactly +-0.0 at other longitudes (GEO/MEO/LEO "
        "altitudes; south component exactly 0), observer on exactly the satellite's meridian, exactly under it, +-0.0 / +-180 / whole "
        "degrees, as scalars and inside float64 / 2-d / integer-typed arrays, for the module function and (observer side) the method; "
        "both functions with array-valued observers (float64, float32, integer-typed whole-degree grids, 2-d); both functions with the "
        "time given in every representation of one instant (naive UTC, UTC-aware, offset-aware, datetime64[ns|us|ms|s]; process in "
        "UTC and non-UTC local zones) judged at the true instant; datetime64[ns] scalars and arrays with non-zero sub-microsecond "
        "digits judged at the instant given by the exact integer nanoseconds, observers near the sub-satellite point; both functions "
        "with a time SERIES spanning 1, 3, 10, 30 days in one call (sorted, reversed, shuffled, first element in the middle) and with "
        "arguments of different shapes that numpy broadcasts (lat (S,1) x lon (1,L), stations (S,1) x times (T,), times (T,1) x "
        "stations (S,), altitude along the leading axis only, 3-d, random axes): the answer has the broadcast shape and every element "
        "is judged at its own instant and observer; correspondence: "
        "azimuth/elevation and the south/east/zenith components model vs both implementations at 1e-9; oracle: independent "
        "WGS-84 east-north-up frame within 1e-4 deg (azimuth weighted by cos elevation) for the method and for the module-level "
        "function (satellite at the lon/lat/alt it is given), finiteness everywhere, method vs "
        "module <= 5e-3 deg; distinct = (tle, time, observer)")
ASSUMPTIONS = ["the 1e-4 deg and 5e-3 deg agreements are float facts, measured on the sampled geometries",
               "azimuth differences are weighted by cos(elevation) as the statement says"]
TRUSTED = ["model PV.Model.Look (topo, lookModuleOfDiff, lookMethodOfPos, clip1)", "spec PV.Spec.Topo (east/north/up frame)"]
LEVEL_TEXT = ("Theorems over the reals: the code's south/east/zenith components are the projections on the WGS-84 -north/east/up "
              "unit vectors and preserve the length (isometry); azimuth = atan2(d.e, d.n) mod 2pi in [0, 2pi); elevation = "
              "arcsin(d.u/|d|) in [-pi/2, pi/2]; |top_z/range| <= 1 in exact arithmetic and the clip maps EVERY real into [-1, 1] "
              "(so arcsin never leaves its domain whatever rounding does - the definedness statement that failed before the "
              "repair); elevation is 90 deg at the sub-satellite point; the object method and the module function are the same "
              "function of the difference vector. Tie: az/el and the three topocentric components model vs code at 1e-9 incl. "
              "zenith/antipode/pole geometries.")
LEVEL_NOTE = ("Trusted: Lean kernel + Mathlib reals (Complex.arg for atan2); hand-written model + correspondence harness; "
              "binary64 rounding outside the theorems (covered by the clip theorem for the arcsin argument only).")
TECHNIQUE = "Lean 4 proof (rotation/isometry identities, Complex.arg case analysis, clip range) + differential correspondence + independent ENU-frame oracle"


def observers_for(ctx, o, t):
    """Structured observers for a satellite at time t."""
    r = ctx.rng
    lon, lat, alt = [float(x) for x in o.get_lonlatalt(t)]
    obs = [
        (r.uniform(-180, 180), r.uniform(-90, 90), r.uniform(-0.5, 3)),
        (r.uniform(-180, 180), r.uniform(-90, 90), 0.0),
        (lon, lat, 0.0),                                  # exactly under the satellite
        (lon, lat, r.uniform(-0.5, 9)),
        (lon + r.uniform(-1e-6, 1e-6), lat + r.uniform(-1e-6, 1e-6), 0.0),
        (lon + r.uniform(-5, 5), max(-90.0, min(90.0, lat + r.uniform(-5, 5))), 0.0),
        (((lon + 360.0) % 360.0) - 180.0, -lat, 0.0),    # antipode
        (r.uniform(-180, 180), r.choice([90.0, -90.0]), 0.0),
        (r.choice([180.0, -180.0]), r.uniform(-90, 90), 0.0),
        # below the ellipsoid (shores of the Dead Sea, polders, depressions), satellite at low to high elevation
        (lon + r.uniform(-20, 20), max(-90.0, min(90.0, lat + r.uniform(-20, 20))), r.uniform(-0.5, 0.0)),
    ]
    # one station queried again at another altitude (same lon/lat, off the sub-satellite track): the altitude matters
    slon_, slat_ = lon + r.uniform(1, 8), max(-89.0, min(89.0, lat + r.uniform(-6, 6)))
    obs += [(slon_, slat_, 0.0), (slon_, slat_, r.uniform(2, 9)), (slon_, slat_, r.uniform(-0.5, 0.0)), (slon_, slat_, 0.0)]
    return obs, (lon, lat, alt)


def correspond(ctx):
    from pyorbital import astronomy, orbital
    drv = ctx.driver()
    n = ctx.size(25, 250)
    per = ctx.size(12, 60)
    lines, exp = [], []
    for (a, b, o) in orbits.make_orbitals(ctx, n):
        for t in orbits.rand_times(ctx, o, per):
            d = float(astronomy.jdays2000(t))
            pk, _ = o.get_position(t, normalize=False)
            obs, (slon, slat, salt) = observers_for(ctx, o, t)
            for (lon, lat, alt) in obs:
                az, el = o.get_observer_look(t, lon, lat, alt)
                lines.append("lookmeth " + " ".join(lib.f2h(x) for x in [d] + list(pk) + [lon, lat, alt]))
                exp.append(("meth", a, b, t, (lon, lat, alt), float(az), float(el)))
                az2, el2 = orbital.get_observer_look(np.float64(slon), np.float64(slat), np.float64(salt), t,
                                                     np.float64(lon), np.float64(lat), np.float64(alt))
                lines.append("lookmod " + " ".join(lib.f2h(x) for x in [d, slon, slat, salt, lon, lat, alt]))
                exp.append(("mod", a, b, t, (lon, lat, alt), float(az2), float(el2)))
    outs = drv.run_parallel(lines)
    for e, o_ in zip(exp, outs):
        ctx.count("eval_corr")
        ctx.distinct((e[1], str(e[3]), e[4]))
        m = [lib.h2f(x) for x in o_.split()]
        az_i, el_i = e[5], e[6]
        ctx.bump("elevation_band", "el>89" if el_i > 89 else "el<-89" if el_i < -89 else "mid")
        w = max(math.cos(math.radians(el_i)), 0.0)
        daz = abs((m[0] - az_i + 180.0) % 360.0 - 180.0) * w
        # near the zenith the arcsin amplifies ulp-level differences: compare the sine there
        ok_el = abs(m[1] - el_i) <= 1e-8 or abs(math.sin(math.radians(m[1])) - math.sin(math.radians(el_i))) <= 1e-14
        if math.isnan(m[1]) != math.isnan(el_i) or math.isnan(m[0]) != math.isnan(az_i):
            ok_el = False
        if not (daz <= 1e-7 and ok_el):
            ctx.disagree("look-" + e[0], {"line1": e[1], "line2": e[2], "utc": str(e[3]), "observer": e[4]}, [az_i, el_i], m[:2])
    ctx.sample({"line1": exp[0][1], "utc": str(exp[0][3]), "observer": exp[0][4], "az_el": [exp[0][5], exp[0][6]]})


def judge(ctx, case, az, el, ref_az, ref_el, site, tol_deg=1e-4):
    ok = True
    if not (math.isfinite(az) and math.isfinite(el)):
        ctx.violation("nonfinite", case, [az, el], "finite azimuth and elevation (reference %.6f, %.6f)" % (ref_az, ref_el), site=site)
        return False
    if not (0.0 <= az <= 360.0):
        ctx.violation("az_range", case, az, "[0, 360]", site=site)
        ok = False
    if not (-90.0 <= el <= 90.0):
        ctx.violation("el_range", case, el, "[-90, 90]", site=site)
        ok = False
    w = max(math.cos(math.radians(ref_el)), 0.0)
    daz = abs((az - ref_az + 180.0) % 360.0 - 180.0) * w
    if daz > tol_deg or abs(el - ref_el) > tol_deg:
        ctx.violation("vs_enu_frame", case, [az, el], "az %.7f el %.7f within %g deg" % (ref_az, ref_el, tol_deg), site=site)
        ok = False
    return ok


def _mk(kind, xs):
    if kind == "i64":
        return np.array(xs, dtype=np.int64)
    if kind == "f32":
        return np.array(xs, dtype=np.float32)
    if kind == "f64_2d":
        return np.array(xs, dtype=np.float64).reshape(2, -1)
    return np.array(xs, dtype=np.float64)


def _tol(kind):
    # float32 observers are converted to radians in float32 (1e-7 rad = 6e-6 deg of arc, amplified near the zenith):
    # the 1e-4 deg claim is stated for real-valued inputs; float32 grids are judged at 2e-3 deg
    return 2e-3 if kind == "f32" else 1e-4


def check_module_array(ctx, t, sat, lons, lats, alts, kind):
    from pyorbital import orbital
    k = len(lons)
    slon, slat, salt = sat
    shape = _mk(kind, lons).shape
    az, el = orbital.get_observer_look(np.full(shape, slon), np.full(shape, slat), np.full(shape, salt), t,
                                       _mk(kind, lons), _mk(kind, lats), _mk(kind, alts))
    az, el = np.asarray(az, dtype=np.float64).ravel(), np.asarray(el, dtype=np.float64).ravel()
    th = geo.gmst_ref(t)
    satp = geo.geodetic_to_eci(slon, slat, salt, th)
    n0 = len(ctx.violations)
    for i in range(k):
        ctx.count("eval_oracle_module_array")
        ref_az, ref_el = geo.look_ref(satp, lons[i], lats[i], alts[i], th)
        judge(ctx, {"utc": t.isoformat(), "sat": [slon, slat, salt], "lons": lons, "lats": lats, "alts": alts, "kind": kind,
                    "index": i, "fn": "module-array"}, float(az[i]), float(el[i]), ref_az, ref_el, "orbital.get_observer_look",
              tol_deg=_tol(kind))
    return len(ctx.violations) - n0


def check_method_array(ctx, a, b, t, lons, lats, alts, kind, o=None):
    from pyorbital import orbital
    o = o or orbital.Orbital("x", line1=a, line2=b)
    pk, _ = o.get_position(t, normalize=False)
    th = geo.gmst_ref(t)
    az, el = o.get_observer_look(t, _mk(kind, lons), _mk(kind, lats), _mk(kind, alts))
    az, el = np.asarray(az, dtype=np.float64).ravel(), np.asarray(el, dtype=np.float64).ravel()
    n0 = len(ctx.violations)
    for i in range(len(lons)):
        ctx.count("eval_oracle_method_array")
        ref_az, ref_el = geo.look_ref(pk, lons[i], lats[i], alts[i], th)
        judge(ctx, {"line1": a, "line2": b, "utc": t.isoformat(), "lons": lons, "lats": lats, "alts": alts, "kind": kind, "index": i,
                    "fn": "method-array"}, float(az[i]), float(el[i]), ref_az, ref_el, "Orbital.get_observer_look", tol_deg=_tol(kind))
    return len(ctx.violations) - n0


def check_scalar(ctx, a, b, t, lon, lat, alt, o=None):
    """One (TLE, time, observer): method and module-level function (given the sub-satellite lon/lat/alt) against the independent
    east-north-up frame, and against each other.  Returns (violations added, method-vs-module difference or None)."""
    from pyorbital import orbital
    o = o or orbital.Orbital("x", line1=a, line2=b)
    n0 = len(ctx.violations)
    pk, _ = o.get_position(t, normalize=False)
    th = geo.gmst_ref(t)
    slon, slat, salt = [float(x) for x in o.get_lonlatalt(t)]
    case = {"line1": a, "line2": b, "utc": t.isoformat(), "lon": lon, "lat": lat, "alt": alt}
    ref_az, ref_el = geo.look_ref(pk, lon, lat, alt, th)
    az, el = [float(x) for x in o.get_observer_look(t, lon, lat, alt)]
    judge(ctx, dict(case, fn="method"), az, el, ref_az, ref_el, "Orbital.get_observer_look")
    # module-level function, given the sub-satellite lon/lat/alt: the direction to the satellite at THAT lon/lat/alt
    az2, el2 = [float(x) for x in orbital.get_observer_look(np.float64(slon), np.float64(slat), np.float64(salt), t,
                                                             np.float64(lon), np.float64(lat), np.float64(alt))]
    ref2 = geo.look_ref(geo.geodetic_to_eci(slon, slat, salt, th), lon, lat, alt, th)
    d = None
    judge(ctx, dict(case, fn="module", sat=[slon, slat, salt]), az2, el2, ref2[0], ref2[1], "orbital.get_observer_look")
    if math.isfinite(az) and math.isfinite(el) and math.isfinite(az2) and math.isfinite(el2):
        w = max(math.cos(math.radians(el)), 0.0)
        d = max(abs((az2 - az + 180.0) % 360.0 - 180.0) * w, abs(el2 - el))
        if d > 5e-3:
            ctx.violation("method_vs_module", dict(case, fn="both"), [az2, el2], "method %r within 5e-3 deg" % [az, el],
                          site="orbital.get_observer_look")
    return len(ctx.violations) - n0, d


# ---------------------------------------------------------------- geometries with EXACT zeros
def check_module_scalar(ctx, t, sat, lon, lat, alt):
    """The module-level function with scalar arguments, satellite at the given lon/lat/alt, against the independent
    east-north-up frame."""
    from pyorbital import orbital
    slon, slat, salt = [float(x) for x in sat]
    n0 = len(ctx.violations)
    th = geo.gmst_ref(t)
    ref_az, ref_el = geo.look_ref(geo.geodetic_to_eci(slon, slat, salt, th), lon, lat, alt, th)
    case = {"utc": t.isoformat(), "sat": [slon, slat, salt], "lon": lon, "lat": lat, "alt": alt, "fn": "module-scalar"}
    ctx.count("eval_oracle_module_scalar")
    with warnings.catch_warnings():
        warnings.simplefilter("ignore")
        try:
            az, el = [float(x) for x in orbital.get_observer_look(np.float64(slon), np.float64(slat), np.float64(salt), t,
                                                                    np.float64(lon), np.float64(lat), np.float64(alt))]
        except ArithmeticError as e:
            az, el = float("nan"), float("nan")
            case = dict(case, raised="%s: %s" % (type(e).__name__, e))
    judge(ctx, case, az, el, ref_az, ref_el, "orbital.get_observer_look")
    return len(ctx.violations) - n0


def _wrap180(x):
    return x if -180.0 <= x <= 180.0 else ((x + 180.0) % 360.0) - 180.0


def gen_exact_zero(ctx, slon=None, slat=None):
    """A satellite point and 4 observers placed so that topocentric components vanish EXACTLY (not merely to rounding):
    'equator'  satellite latitude and observer latitude both exactly +-0.0, other longitudes (a geostationary / MEO / LEO
               satellite over the equator seen from a station on the equator: south component exactly 0, azimuth 90 or 270);
    'meridian' observer on exactly the satellite's longitude (east component 0: azimuth 0 or 180);
    'overhead' observer at exactly the satellite's lon/lat (altitude 0, above, below the ellipsoid);
    'mixed'    one of each + an arbitrary observer.  Longitudes and latitudes incl. +-0.0, +-180, whole degrees.
    With slon/slat given (the sub-satellite point of an Orbital) only the observers are drawn."""
    r = ctx.rng

    def z():
        return r.choice([0.0, -0.0])
    fam = r.choice(["equator", "equator", "equator", "meridian", "overhead", "mixed"])
    if slon is None:
        salt = r.choice([35786.0, 35786.0, 20200.0, float(r.randrange(300, 36000)), r.uniform(300, 2000), r.uniform(300, 36000)])
        slon = r.choice([z(), r.choice([180.0, -180.0]), float(r.randrange(-179, 180)), r.uniform(-180, 180), r.uniform(-180, 180)])
        slat = z() if fam in ("equator", "mixed") or r.random() < 0.5 else r.choice([float(r.randrange(-10, 11)), r.uniform(-10, 10)])
    else:
        salt = None
    # half-width (deg of longitude) inside which the satellite is well above the horizon, and anything beyond
    vis = 75.0 if (salt or 800.0) > 15000 else 20.0

    def other_lon():
        d = r.choice([r.uniform(-vis, vis), r.uniform(-vis, vis), float(r.randrange(1, int(vis))) * r.choice([-1, 1]),
                      r.uniform(-180, 180), r.choice([90.0, -90.0, 180.0])])
        return _wrap180(slon + (d if d else 1.0))

    def alt_():
        return r.choice([0.0, 0.0, -0.0, r.uniform(-0.5, 3.0), float(r.randrange(0, 4))])

    def equator():
        return (r.choice([other_lon(), other_lon(), z(), float(r.randrange(-180, 181))]), z(), alt_())

    def meridian():
        return (slon, r.choice([r.uniform(-90, 90), float(r.randrange(-90, 91)), z(), max(-90.0, min(90.0, slat + r.uniform(-vis, vis))),
                                r.choice([90.0, -90.0])]), alt_())

    def overhead():
        return (slon, slat, r.choice([0.0, 0.0, -0.0, r.uniform(0.0, 9.0), r.uniform(-0.5, 0.0)]))

    def anywhere():
        return (r.uniform(-180, 180), r.uniform(-90, 90), alt_())
    mk = {"equator": [equator] * 4, "meridian": [meridian] * 4, "overhead": [overhead, overhead, meridian, equator],
          "mixed": [equator, meridian, overhead, anywhere]}[fam]
    obs = [f() for f in mk]
    if fam == "mixed":
        r.shuffle(obs)
    return fam, [slon, slat, salt], obs


def exact_zero_module_probe(ctx):
    """Module-level function at exact-zero geometries: every observer as a scalar call, and all of them in one array call
    (float64, 2-d, integer-typed when every coordinate is a whole number)."""
    r = ctx.rng
    t = dt.datetime(2020, 1, 1) + dt.timedelta(seconds=r.uniform(0, 3e7))
    if r.random() < 0.3:
        t = t.replace(microsecond=0)
    fam, sat, obs = gen_exact_zero(ctx)
    ctx.bump("exact_zero_module", "%s/%s" % (fam, "GEO" if sat[2] > 30000 else "MEO" if sat[2] > 2000 else "LEO"))
    ctx.distinct(("exact-zero-module", t.isoformat(), tuple(sat), tuple(obs)))
    k = r.choice([1, 2, 4])
    for (lon, lat, alt) in obs[:k]:
        check_module_scalar(ctx, t, sat, lon, lat, alt)
    lons, lats, alts = [o_[0] for o_ in obs], [o_[1] for o_ in obs], [o_[2] for o_ in obs]
    whole = all(float(x).is_integer() for x in lons + lats + alts)
    kind = r.choice(["f64", "f64", "f64_2d"] + (["i64", "i64", "i64"] if whole else []))
    n = 4 if kind == "f64_2d" else r.choice([1, 2, 3, 4])
    ctx.bump("exact_zero_module_array_kind", kind)
    check_module_array(ctx, t, sat, lons[:n], lats[:n], alts[:n], kind)


def exact_zero_method_probe(ctx, a, b, o, t):
    """Object method (and the module function at the sub-satellite point) for observers at exactly latitude +-0.0, on exactly
    the satellite's meridian, exactly under it: scalars, and the four of them in one array call."""
    r = ctx.rng
    slon, slat, _ = [float(x) for x in o.get_lonlatalt(t)]
    fam, _, obs = gen_exact_zero(ctx, slon, slat)
    ctx.bump("exact_zero_method", fam)
    for (lon, lat, alt) in obs[:r.choice([1, 2, 4])]:
        ctx.count("eval_oracle", 2)
        check_scalar(ctx, a, b, t, lon, lat, alt, o)
    kind = r.choice(["f64", "f64_2d"])
    check_method_array(ctx, a, b, t, [o_[0] for o_ in obs], [o_[1] for o_ in obs], [o_[2] for o_ in obs], kind, o)


TIME_REPRS = [("datetime", 0), ("aware", 0), ("aware", 330), ("aware", -480), ("aware", None), ("dt64us", 0), ("dt64ns", 0),
              ("dt64ms", 0), ("dt64s", 0)]


def check_time_repr(ctx, a, b, t, kind, off_min, tz, lon, lat, alt, o=None):
    """The instant canon(kind, t) handed to both look functions in the representation `kind` (aware datetimes spelled with the UTC
    offset off_min), with the process' local zone tz: both must report the direction at the TRUE instant."""
    from pyorbital import orbital
    o = o or orbital.Orbital("x", line1=a, line2=b)
    n0 = len(ctx.violations)
    true_t = c12.canon(kind, t)
    pk, _ = o.get_position(true_t, normalize=False)
    slon, slat, salt = [float(x) for x in o.get_lonlatalt(true_t)]
    th = geo.gmst_ref(true_t)
    val = c12.make_value(kind, t, off_min)
    case = {"line1": a, "line2": b, "utc": t.isoformat(), "time_repr": kind, "offset_min": off_min, "tz": tz, "time_value": str(val),
            "lon": lon, "lat": lat, "alt": alt, "fn": "time-repr"}
    refs = {"Orbital.get_observer_look": geo.look_ref(pk, lon, lat, alt, th),
            "orbital.get_observer_look": geo.look_ref(geo.geodetic_to_eci(slon, slat, salt, th), lon, lat, alt, th)}
    for site in sorted(refs):
        ctx.count("eval_oracle_time_repr")
        try:
            with c12.process_tz(tz), warnings.catch_warnings():
                warnings.simplefilter("ignore")      # numpy warns that datetime64 has no time zone (it converts to UTC)
                if site.startswith("Orbital"):
                    az, el = o.get_observer_look(val, lon, lat, alt)
                else:
                    az, el = orbital.get_observer_look(np.float64(slon), np.float64(slat), np.float64(salt), val,
                                                       np.float64(lon), np.float64(lat), np.float64(alt))
            az, el = float(az), float(el)
        except Exception as e:  # noqa
            ctx.violation("time_repr_rejected", dict(case, site=site), "%s: %s" % (type(e).__name__, e),
                          "azimuth %.6f elevation %.6f of the instant %s" % (refs[site] + (true_t.isoformat(),)), site=site)
            continue
        judge(ctx, dict(case, site=site), az, el, refs[site][0], refs[site][1], site)
    return len(ctx.violations) - n0


def check_ns_stamps(ctx, a, b, stamps_ns, form, lon, lat, alt, o=None):
    """Time stamps of nanosecond resolution whose sub-microsecond digits are NOT zero (instrument time tags, linspace-like
    arithmetic on datetime64[ns]): stamps_ns are exact integer nanoseconds since 1970-01-01T00:00 UTC, handed to both look
    functions as a datetime64[ns] scalar (form "ns_scalar", one stamp) or as a 1-d datetime64[ns] array (form "ns_array").
    Each answer is judged against the independent east-north-up frame at the TRUE instant: the reference sidereal angle is
    computed from the exact integer nanoseconds (Fraction Julian date, 60-digit arithmetic)."""
    from pyorbital import orbital
    o = o or orbital.Orbital("x", line1=a, line2=b)
    n0 = len(ctx.violations)
    stamps_ns = [int(x) for x in stamps_ns]
    if form == "ns_scalar":
        val = np.datetime64(stamps_ns[0], "ns")
    else:
        val = np.array(stamps_ns, dtype="int64").astype("datetime64[ns]")
    refs = []
    for ns in stamps_ns:
        jd, label = c12.exact_jd_ns(ns)
        th = float(c12.iau82_gmst(jd))
        pk, _ = o.get_position(np.datetime64(ns, "ns"), normalize=False)
        # the sub-satellite point handed to the module function: taken at the whole microsecond (a datetime), so that it does
        # not depend on how the library treats the sub-microsecond digits; the reference is the direction to THAT point
        whole = c12.EPOCH70 + dt.timedelta(microseconds=ns // 1000)
        sat = [float(x) for x in o.get_lonlatalt(whole)]
        refs.append((label, sat, {"Orbital.get_observer_look": geo.look_ref(pk, lon, lat, alt, th),
                                  "orbital.get_observer_look": geo.look_ref(geo.geodetic_to_eci(sat[0], sat[1], sat[2], th),
                                                                            lon, lat, alt, th)}))
    case = {"line1": a, "line2": b, "stamps_ns": stamps_ns, "form": form, "utc": refs[0][0], "lon": lon, "lat": lat, "alt": alt,
            "fn": "ns-stamps"}
    for site in ("Orbital.get_observer_look", "orbital.get_observer_look"):
        try:
            with warnings.catch_warnings():
                warnings.simplefilter("ignore")
                if site.startswith("Orbital"):
                    az, el = o.get_observer_look(val, lon, lat, alt)
                elif form == "ns_scalar":
                    sat = refs[0][1]
                    az, el = orbital.get_observer_look(np.float64(sat[0]), np.float64(sat[1]), np.float64(sat[2]), val,
                                                       np.float64(lon), np.float64(lat), np.float64(alt))
                else:
                    az, el = orbital.get_observer_look(np.array([r_[1][0] for r_ in refs]), np.array([r_[1][1] for r_ in refs]),
                                                       np.array([r_[1][2] for r_ in refs]), val,
                                                       np.float64(lon), np.float64(lat), np.float64(alt))
            az = np.asarray(az, dtype=np.float64).ravel()
            el = np.asarray(el, dtype=np.float64).ravel()
            if len(az) != len(stamps_ns) or len(el) != len(stamps_ns):
                raise ValueError("answer of %d/%d elements for %d time stamps" % (len(az), len(el), len(stamps_ns)))
        except Exception as e:  # noqa
            ctx.violation("time_repr_rejected", dict(case, site=site), "%s: %s" % (type(e).__name__, e),
                          "azimuth and elevation of the instants %s" % [r_[0] for r_ in refs], site=site)
            continue
        for i, (label, sat, ref) in enumerate(refs):
            ctx.count("eval_oracle_ns_stamps")
            ctx.bump("ns_stamp_elevation", "el>=60" if ref[site][1] >= 60 else "el>=20" if ref[site][1] >= 20 else
                     "el>=0" if ref[site][1] >= 0 else "below horizon")
            judge(ctx, dict(case, site=site, index=i, instant=label), float(az[i]), float(el[i]), ref[site][0], ref[site][1], site)
    return len(ctx.violations) - n0


def ns_stamp_probe(ctx, a, b, o, t):
    """Stamps with sub-microsecond digits around the instant t, for observers near the sub-satellite point (high passes, where
    the direction is most sensitive to the observer's sidereal angle) and elsewhere; scalar and array forms."""
    r = ctx.rng
    obs, _ = observers_for(ctx, o, t)
    base = c12.us_of(t) * 1000

    def sub():
        return r.choice([r.randrange(1, 1000), r.randrange(1, 1000), 999, 1, 500, r.randrange(900, 1000)])
    # scalar stamps: exactly under, near (within 5 deg), and any other observer of the structured list
    for (lon, lat, alt) in [obs[2], obs[5], obs[10], r.choice(obs)]:
        ctx.bump("ns_stamp_form", "ns_scalar")
        check_ns_stamps(ctx, a, b, [base + sub()], "ns_scalar", lon, lat, alt, o)
    # arrays: k stamps a few seconds apart (a pass sampled with a non-integer step), one observer near the track
    k = r.choice([1, 2, 3, 5])
    step = r.randrange(10 ** 9, 40 * 10 ** 9)
    stamps = [base + i * step + sub() for i in range(k)]
    if all(orbits.answers(o, np.datetime64(x, "ns")) for x in stamps):
        lon, lat, alt = r.choice([obs[3], obs[5], obs[10], obs[11]])
        ctx.bump("ns_stamp_form", "ns_array[%d]" % k)
        check_ns_stamps(ctx, a, b, stamps, "ns_array", lon, lat, alt, o)


# ---------------------------------------------------------------- time series and broadcast layouts in ONE call
def _shaped(vals, shape):
    """The flat values as a float64 scalar (shape []) or an array of the given shape."""
    return np.float64(vals[0]) if not shape else np.array(vals, dtype=np.float64).reshape(shape)


def _index_map(n, shape, bshape):
    """For every index of the broadcast shape, the flat index into an argument of n values laid out with `shape`."""
    return np.broadcast_to(np.arange(n).reshape(shape if shape else ()), bshape)


def check_layout(ctx, spec, o=None):
    """ONE call of each look function with the arguments laid out as numpy broadcasting allows: spec holds, for the time, the
    observer's lon, lat, alt (and `sat`: 'fixed' = one satellite point, 'track' = the sub-satellite point of every instant,
    shaped like the time argument), the flat values and the shape of each ([] = scalar).  The answer must have the numpy
    broadcast shape of the arguments, and every element is judged at ITS OWN instant and observer against the independent
    east-north-up frame (satellite position / sub-satellite point of that instant from a scalar query), with the statement's
    1e-4 deg - whatever the other elements of the call are (long series, unsorted series, leading-axis variation)."""
    from pyorbital import orbital
    a, b = spec["line1"], spec["line2"]
    o = o or orbital.Orbital("x", line1=a, line2=b)
    n0 = len(ctx.violations)
    ts = [dt.datetime.fromisoformat(x) for x in spec["utcs"]]
    tsh = [int(x) for x in spec["t_shape"]]
    shapes = {k: [int(x) for x in spec[k + "_shape"]] for k in ("lon", "lat", "alt")}
    if tsh:
        tval = np.array([np.datetime64(t, "us") for t in ts], dtype="datetime64[us]").reshape(tsh)
    else:
        tval = ts[0]
    vals = {k: _shaped(spec[k + "s"], shapes[k]) for k in ("lon", "lat", "alt")}
    bshape = np.broadcast_shapes(tuple(tsh), *[tuple(shapes[k]) for k in ("lon", "lat", "alt")])
    ti = _index_map(len(ts), tsh, bshape)
    oi = {k: _index_map(len(spec[k + "s"]), shapes[k], bshape) for k in ("lon", "lat", "alt")}
    th = [geo.gmst_ref(t) for t in ts]
    pk = [o.get_position(t, normalize=False)[0] for t in ts]
    if spec["sat"] == "track":
        sats = [[float(x) for x in o.get_lonlatalt(t)] for t in ts]
    else:
        sats = [[float(x) for x in spec["sat_point"]]] * len(ts)
    sat_eci = [geo.geodetic_to_eci(s[0], s[1], s[2], g) for s, g in zip(sats, th)]
    case = dict(spec, fn="layout")
    for site in ("Orbital.get_observer_look", "orbital.get_observer_look"):
        try:
            with warnings.catch_warnings():
                warnings.simplefilter("ignore")
                if site.startswith("Orbital"):
                    az, el = o.get_observer_look(tval, vals["lon"], vals["lat"], vals["alt"])
                else:
                    if spec["sat"] == "track" and tsh:
                        sargs = [np.array([s[i] for s in sats], dtype=np.float64).reshape(tsh) for i in range(3)]
                    else:
                        sargs = [np.float64(sats[0][i]) for i in range(3)]
                    az, el = orbital.get_observer_look(sargs[0], sargs[1], sargs[2], tval, vals["lon"], vals["lat"], vals["alt"])
            az, el = np.asarray(az, dtype=np.float64), np.asarray(el, dtype=np.float64)
        except Exception as e:  # noqa
            ctx.violation("layout_rejected", dict(case, site=site), "%s: %s" % (type(e).__name__, e),
                          "azimuth and elevation arrays of shape %s" % (list(bshape),), site=site)
            continue
        if az.shape != tuple(bshape) or el.shape != tuple(bshape):
            ctx.violation("broadcast_shape", dict(case, site=site), [list(az.shape), list(el.shape)],
                          "the numpy broadcast shape %s of the arguments" % (list(bshape),), site=site)
            continue
        for idx in np.ndindex(*bshape):
            ctx.count("eval_oracle_layout")
            j = int(ti[idx])
            lon, lat, alt = [float(spec[k + "s"][int(oi[k][idx])]) for k in ("lon", "lat", "alt")]
            src = pk[j] if site.startswith("Orbital") else sat_eci[j]
            ref_az, ref_el = geo.look_ref(src, lon, lat, alt, th[j])
            if not judge(ctx, dict(case, site=site, index=list(idx), instant=ts[j].isoformat(), observer=[lon, lat, alt]),
                         float(az[idx]), float(el[idx]), ref_az, ref_el, site):
                break           # one failing element per call and site is enough
    return len(ctx.violations) - n0


SERIES_SPANS_D = [1.0, 3.0, 10.0, 30.0]


def _series_spec(ctx, a, b, o):
    """A time series spanning 1, 3, 10 or 30 days handed over in one call (sorted, reversed, shuffled, first element in the
    middle), one observer: near the sub-satellite point of one of the instants (short slant range: the direction is most
    sensitive to the observer's sidereal angle) or anywhere."""
    r = ctx.rng
    span = r.choice(SERIES_SPANS_D) * 86400.0
    k = r.choice([2, 3, 4, 6, 9, 14])
    t0 = orbits.rand_time(ctx, o) - dt.timedelta(seconds=r.choice([0.0, 0.0, 0.5, 1.0]) * span)
    offs = [span * i / (k - 1) for i in range(k)] if r.random() < 0.4 else [0.0] + sorted(r.uniform(0, span) for _ in range(k - 2)) + [span]
    order = r.choice(["sorted", "sorted", "reversed", "shuffled", "middle_first"])
    if order == "reversed":
        offs = offs[::-1]
    elif order == "shuffled":
        r.shuffle(offs)
    elif order == "middle_first":
        offs = offs[len(offs) // 2:] + offs[:len(offs) // 2]
    ts = [(t0 + dt.timedelta(seconds=x)).replace(microsecond=0) + dt.timedelta(microseconds=r.choice([0, r.randrange(10 ** 6)]))
          for x in offs]
    if not all(orbits.answers(o, t) for t in ts):
        return None
    if r.random() < 0.7:
        slon, slat, _ = [float(x) for x in o.get_lonlatalt(r.choice(ts))]
        w = r.choice([0.5, 3.0, 10.0])
        lon, lat = slon + r.uniform(-w, w), max(-90.0, min(90.0, slat + r.uniform(-w, w)))
    else:
        lon, lat = r.uniform(-180, 180), r.uniform(-90, 90)
    ctx.bump("series_span", "%gd/%s" % (span / 86400.0, order))
    return {"line1": a, "line2": b, "family": "series", "utcs": [t.isoformat() for t in ts], "t_shape": [k],
            "lons": [lon], "lon_shape": [], "lats": [lat], "lat_shape": [], "alts": [r.uniform(-0.5, 3.0)], "alt_shape": [],
            "sat": r.choice(["track", "track", "fixed"]), "sat_point": [r.uniform(-180, 180), r.uniform(-60, 60), r.choice([35786.0, r.uniform(300, 2000)])]}


LAYOUTS = ["lat(S,1) x lon(1,L)", "lon(L,1) x lat(1,S)", "stations(S,1) x times(T,)", "times(T,1) x stations(S,)",
           "alt(A,1) x times(T,)", "alt(A,1) x lon(L,)", "lat,alt(S,1) x lon(L,)", "3-d", "3-d", "random axes"]


def _layout_spec(ctx, a, b, o):
    """Arguments of different shapes that numpy broadcasts against each other (a lat x lon grid written lat[:, None], lon[None, :];
    stations against a time series; altitude levels against anything), incl. variation along a LEADING axis only and 3-d."""
    r = ctx.rng
    name = r.choice(LAYOUTS)
    S, L, T, A = r.randint(2, 4), r.randint(2, 5), r.randint(2, 5), r.randint(2, 3)
    sh = {"t": [], "lon": [], "lat": [], "alt": []}
    if name == "lat(S,1) x lon(1,L)":
        sh.update(lat=[S, 1], lon=r.choice([[1, L], [L]]), alt=r.choice([[], [S, 1]]))
    elif name == "lon(L,1) x lat(1,S)":
        sh.update(lon=[L, 1], lat=r.choice([[1, S], [S]]), alt=r.choice([[], [S]]))
    elif name == "stations(S,1) x times(T,)":
        sh.update(t=[T], lon=[S, 1], lat=[S, 1], alt=r.choice([[S, 1], []]))
    elif name == "times(T,1) x stations(S,)":
        sh.update(t=[T, 1], lon=[S], lat=[S], alt=r.choice([[S], []]))
    elif name == "alt(A,1) x times(T,)":
        sh.update(t=[T], alt=[A, 1])
    elif name == "alt(A,1) x lon(L,)":
        sh.update(lon=[L], alt=[A, 1], lat=r.choice([[], [L]]))
    elif name == "lat,alt(S,1) x lon(L,)":
        sh.update(lon=[L], lat=[S, 1], alt=[S, 1], t=r.choice([[], [L]]))
    elif name == "3-d":
        # each of time, lon, lat/alt on its own axis, in a random axis order
        ax = [0, 1, 2]
        r.shuffle(ax)
        size = {ax[0]: T, ax[1]: L, ax[2]: S}

        def on(axis):
            s = [1, 1, 1]
            s[axis] = size[axis]
            while len(s) > 1 and s[0] == 1 and r.random() < 0.5:
                s = s[1:]
            return s
        sh.update(t=on(ax[0]), lon=on(ax[1]), lat=on(ax[2]), alt=r.choice([[], on(ax[2]), on(ax[1])]))
    else:
        nd = r.choice([2, 3])
        size = [r.randint(2, 4) for _ in range(nd)]
        for key in sh:
            axes = [i for i in range(nd) if r.random() < 0.45]
            s = [size[i] if i in axes else 1 for i in range(nd)]
            while s and s[0] == 1:
                s = s[1:]
            sh[key] = s
    nt = int(np.prod(sh["t"])) if sh["t"] else 1
    t0 = orbits.rand_time(ctx, o)
    step = r.choice([1.0, 30.0, 90.0, 600.0, 5400.0, 86400.0])
    ts = [t0 + dt.timedelta(seconds=step * i + r.choice([0.0, r.uniform(0, step)])) for i in range(nt)]
    if r.random() < 0.3:
        r.shuffle(ts)
    if not all(orbits.answers(o, t) for t in ts):
        return None
    slon, slat, _ = [float(x) for x in o.get_lonlatalt(ts[0])]

    def flat(key, gen_):
        return [gen_() for _ in range(int(np.prod(sh[key])) if sh[key] else 1)]
    wide = r.random() < 0.5
    lons = flat("lon", lambda: r.uniform(-180, 180) if wide else slon + r.uniform(-25, 25))
    lats = flat("lat", lambda: r.uniform(-90, 90) if wide else max(-90.0, min(90.0, slat + r.uniform(-25, 25))))
    alts = flat("alt", lambda: r.uniform(-0.5, 9.0))
    ctx.bump("layout", name)
    return {"line1": a, "line2": b, "family": name, "utcs": [t.isoformat() for t in ts], "t_shape": sh["t"],
            "lons": lons, "lon_shape": sh["lon"], "lats": lats, "lat_shape": sh["lat"], "alts": alts, "alt_shape": sh["alt"],
            "sat": r.choice(["track", "fixed"]), "sat_point": [r.uniform(-180, 180), r.uniform(-60, 60), r.choice([35786.0, r.uniform(300, 2000)])]}


def layout_probe(ctx, a, b, o):
    for mk, n in ((_series_spec, ctx.size(4, 8)), (_layout_spec, ctx.size(5, 10))):
        for _ in range(n):
            spec = mk(ctx, a, b, o)
            if spec is not None:
                ctx.distinct((a, "layout", spec["family"], spec["utcs"][0]))
                check_layout(ctx, spec, o)


def oracle(ctx):
    from pyorbital import orbital
    n = ctx.size(25, 300)
    per = ctx.size(10, 60)
    worst = 0.0
    for (a, b, o) in orbits.make_orbitals(ctx, n):
        times = orbits.rand_times(ctx, o, per)
        for t in times:
            obs, _ = observers_for(ctx, o, t)
            for (lon, lat, alt) in obs:
                ctx.count("eval_oracle", 2)
                ctx.bump("observer_altitude", "below ellipsoid" if alt < 0 else "0" if alt == 0 else "above")
                _, d = check_scalar(ctx, a, b, t, lon, lat, alt, o)
                if d is not None:
                    worst = max(worst, d)
        # one instant written in every time representation (and with the process in several local zones)
        for t in times[:ctx.size(2, 6)]:
            r = ctx.rng
            obs, _ = observers_for(ctx, o, t)
            for kind, off in TIME_REPRS:
                if off is None:
                    off = r.choice([-720, -570, -210, 60, 345, 525, 840])
                tz = r.choice([None, None] + c12.ZONES)
                if not orbits.answers(o, c12.canon(kind, t)):
                    continue
                lon, lat, alt = r.choice(obs)
                ctx.bump("time_repr", kind + ("%+d" % off if kind == "aware" else ""))
                check_time_repr(ctx, a, b, t, kind, off, tz, lon, lat, alt, o)
        # nanosecond time stamps with non-zero sub-microsecond digits (datetime64[ns] scalars and arrays)
        for t in times[:ctx.size(3, 8)]:
            ns_stamp_probe(ctx, a, b, o, t)
    # module-level function at geostationary altitudes and with arrays (float64, float32, integer-typed grids, 2-d)
    for _ in range(ctx.size(300, 5000)):
        r = ctx.rng
        t = dt.datetime(2020, 1, 1) + dt.timedelta(seconds=r.uniform(0, 3e7))
        slon, slat, salt = r.uniform(-180, 180), r.uniform(-10, 10), r.choice([35786.0, r.uniform(300, 36000)])
        k = r.choice([1, 2, 3, 4])
        kind = r.choice(["f64", "f64", "f64", "i64", "f32", "f64_2d"])
        if kind == "f64_2d":
            k = 4
        lons = [r.uniform(-180, 180) for _ in range(k)]
        lats = [r.uniform(-90, 90) for _ in range(k)]
        alts = [r.uniform(-0.5, 3) for _ in range(k)]
        if kind == "i64":
            lons, lats, alts = [float(round(x)) for x in lons], [float(round(x)) for x in lats], [float(round(x)) for x in alts]
        if kind == "f32":
            lons, lats, alts = ([float(np.float32(x)) for x in lons], [float(np.float32(x)) for x in lats],
                                [float(np.float32(x)) for x in alts])
        if kind in ("f64", "f64_2d") and r.random() < 0.3:
            lons[0], lats[0], alts[0] = slon, slat, 0.0
        ctx.bump("module_array_kind", kind)
        check_module_array(ctx, t, [slon, slat, salt], lons, lats, alts, kind)
    # module-level function where topocentric components are EXACTLY zero: satellite and observer both at latitude +-0.0
    # (GEO / MEO / LEO altitudes), observer on the satellite's meridian, exactly under it; scalars and inside arrays
    for _ in range(ctx.size(250, 4000)):
        exact_zero_module_probe(ctx)
    # object method with array-valued observers of the same kinds
    for (a, b, o) in orbits.make_orbitals(ctx, ctx.size(8, 80)):
        for t in orbits.rand_times(ctx, o, 3):
            r = ctx.rng
            kind = r.choice(["f64", "i64", "f32", "f64_2d"])
            slon, slat, _ = [float(x) for x in o.get_lonlatalt(t)]
            lons = [slon + r.uniform(-30, 30) for _ in range(4)]
            lats = [max(-90.0, min(90.0, slat + r.uniform(-30, 30))) for _ in range(4)]
            alts = [r.uniform(-0.5, 3) for _ in range(4)]
            if kind == "i64":
                lons, lats, alts = [float(round(x)) for x in lons], [float(round(x)) for x in lats], [float(round(x)) for x in alts]
            if kind == "f32":
                lons, lats, alts = ([float(np.float32(x)) for x in lons], [float(np.float32(x)) for x in lats],
                                    [float(np.float32(x)) for x in alts])
            ctx.bump("method_array_kind", kind)
            check_method_array(ctx, a, b, t, lons, lats, alts, kind, o)
            # observers at exactly latitude +-0.0 / on exactly the sub-satellite meridian / exactly under the satellite
            exact_zero_method_probe(ctx, a, b, o, t)
    # one call for a whole time series (1 - 30 days, sorted and unsorted) and for arguments of different shapes that numpy
    # broadcasts (lat (S,1) x lon (1,L), stations x times, altitude along the leading axis only, 3-d): every element judged
    # at its own instant and observer
    for (a, b, o) in orbits.make_orbitals(ctx, ctx.size(25, 300)):
        layout_probe(ctx, a, b, o)
    ctx.note("worst method-vs-module difference = %.3g deg" % worst)


def match_known(entry, v):
    return False


def replay(ctx, case):
    from pyorbital import orbital
    inp = case.get("input", case)
    if inp.get("fn") == "module-array":
        n = check_module_array(ctx, dt.datetime.fromisoformat(inp["utc"]), inp["sat"], inp["lons"], inp["lats"], inp["alts"], inp["kind"])
        print("module-array case", inp, "violations", n)
        return 1 if n else 0
    if inp.get("fn") == "module-scalar":
        n = check_module_scalar(ctx, dt.datetime.fromisoformat(inp["utc"]), inp["sat"], inp["lon"], inp["lat"], inp["alt"])
        for v in ctx.violations[-n:] if n else []:
            print("module function, satellite at", inp["sat"], "observer", [inp["lon"], inp["lat"], inp["alt"]], v["kind"],
                  v["observed"], "required", v["required"])
        print("module-scalar case", inp, "violations", n)
        return 1 if n else 0
    if inp.get("fn") == "method-array":
        n = check_method_array(ctx, inp["line1"], inp["line2"], dt.datetime.fromisoformat(inp["utc"]), inp["lons"], inp["lats"],
                               inp["alts"], inp["kind"])
        print("method-array case", inp, "violations", n)
        return 1 if n else 0
    if inp.get("fn") == "layout":
        n = check_layout(ctx, inp)
        for v in ctx.violations[-n:] if n else []:
            print("layout", inp.get("family"), "shapes t/lon/lat/alt", inp["t_shape"], inp["lon_shape"], inp["lat_shape"], inp["alt_shape"],
                  v["site"], v["kind"], "element", v["case"].get("index"), v["observed"], "required", v["required"])
        return 1 if n else 0
    if "line1" not in inp:
        print(inp)
        return 0
    if inp.get("fn") == "ns-stamps":
        n = check_ns_stamps(ctx, inp["line1"], inp["line2"], inp["stamps_ns"], inp["form"], inp["lon"], inp["lat"], inp["alt"])
        for v in ctx.violations[-n:] if n else []:
            print("ns stamps", inp["stamps_ns"], inp["form"], v["site"], v["kind"], v["observed"], "required", v["required"])
        return 1 if n else 0
    t = dt.datetime.fromisoformat(inp["utc"])
    if inp.get("fn") == "time-repr":
        n = check_time_repr(ctx, inp["line1"], inp["line2"], t, inp["time_repr"], inp["offset_min"], inp.get("tz"),
                            inp["lon"], inp["lat"], inp["alt"])
        for v in ctx.violations[-n:] if n else []:
            print("time representation", inp["time_repr"], inp["offset_min"], "process tz", inp.get("tz"), v["site"], v["kind"],
                  v["observed"], "required", v["required"])
        return 1 if n else 0
    n, d = check_scalar(ctx, inp["line1"], inp["line2"], t, inp["lon"], inp["lat"], inp["alt"])
    for v in ctx.violations[-n:] if n else []:
        print(v["site"], v["kind"], v["observed"], "required", v["required"])
    print("violations", n, "method-vs-module difference", d)
    return 1 if n else 0
