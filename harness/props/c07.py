"""C07 — geolocated pixels lie on the WGS-84 ellipsoid along the line of sight."""
import datetime as dt
import math
import signal

import numpy as np

import geo
import lib
import orbits

ID = "C07"
LEAN_TARGETS = ["PV.Props.C07"]
# further files of property theorems (all are obligations): convergence / root-closeness stretch theorems
EXTRA_PROPS = ['PV.Props.C04Conv', 'PV.Props.C07Bound']
# T-C tie (DESIGN 2.3): kernels traced from the current source are proved equal to the model over the reals
EQUIV = {'PV.Equiv.Geoloc': ['qrotate_eq', 'qrotate_shared_axis_eq', 'geodetic_lat_p1', 'geodetic_lat_p1_c1', 'geodetic_lat_p2', 'geodetic_lat_p2_c2', 'geodLoop_succ', 'subpoint_eq', 'viewVector_eq_viewOfNadir', 'vectors_eq', 'compute_pixels_eq'], 'PV.Equiv.Look': ['lonlatalt_geoloc_p1', 'lonlatalt_geoloc_p1_c1', 'lonlatalt_geoloc_p2', 'lonlatalt_geoloc_p2_c2']}
RULE = ("orbit states from the repo's TLEs and the near-earth generator (also explicit pos/vel pairs) x pixel times x scan angles "
        "in [-70,70] deg across / [-10,10] deg along track x roll/pitch/yaw within +-5 deg x shapes (n,) and (m,n); about 10% "
        "of the rays are forced to miss the ellipsoid (angles beyond the horizon); correspondence: view vectors, the "
        "intersection quantities (ldotc, lsq, csq, discriminant, distance) and pixel positions, lon/lat/alt of the pixels, "
        "model vs geoloc.py at 1e-9; oracle: every clause of the statement on the implementation, with a watchdog on "
        "get_lonlatalt; explicit states exactly above a pole and 1e-9..1e-3 km off the polar axis, nadir and scan angles of "
        "1e-9..1e-3 rad, pixel altitude within 10 m; layout probe: 1-D lines and 2-D scans with non-constant angles, per-pixel "
        "times and scalar / constant-array / per-pixel-array attitude, every array argument of ScanGeometry, vectors, "
        "compute_pixels and get_lonlatalt (scan angles, scan offsets, times, positions, velocities, roll, pitch, yaw, pixels) in "
        "a random memory layout (C, Fortran, transposed / axis-swapped views, strided / reversed views, windows of padded "
        "buffers; shape and values unchanged), judged by the same clauses; distinct = (state, angles, attitude)")
ASSUMPTIONS = ["float residual 1e-9 of the ellipsoid equation, 0.2 deg nadir deflection, 10 m altitude: measured",
               "the view-vector theorems are about one pixel; array shape handling is covered by the correspondence"]
TRUSTED = ["model PV.Model.Geoloc (viewVector, intersect) and PV.Model.Look (lonLatAltKm)", "spec PV.Spec.Wgs84"]
LEVEL_TEXT = ("Theorems over the reals: with a non-negative discriminant the returned pixel satisfies the WGS-84 ellipsoid equation "
              "exactly, lies on the ray pos + d v with d the smaller root (positive for a satellite outside the ellipsoid looking "
              "inward), and the discriminant is negative exactly when the line misses the ellipsoid; view vectors are unit "
              "vectors, zero angles give the normalised nadir, roll/pitch enter only through fovs+roll / fovs+pitch, yaw "
              "preserves the off-nadir angle. Tie: view vectors, all intersection intermediates, pixels and their lon/lat/alt "
              "model vs code at 1e-9, NaN exactly on misses. Termination of get_lonlatalt on NaN pixels is checked with a "
              "watchdog (repaired defect).")
LEVEL_NOTE = ("Trusted: Lean kernel + Mathlib reals; hand-written models + correspondence harness; ellipsoid constants regenerated "
              "from the source; numpy einsum/reshape semantics by enumeration; binary64 rounding.")
TECHNIQUE = "Lean 4 proof (quadratic/ellipsoid identities via Real.sq_sqrt, field_simp, ring; rotation corollaries) + differential correspondence + clause-by-clause oracle with watchdog"

A_E = 6378.137
B_E = 6356.752314245


class Timeout(Exception):
    pass


def with_watchdog(seconds, fn):
    def handler(signum, frame):
        raise Timeout()
    old = signal.signal(signal.SIGALRM, handler)
    signal.alarm(seconds)
    try:
        return fn()
    finally:
        signal.alarm(0)
        signal.signal(signal.SIGALRM, old)


def states(ctx, n, per):
    """(pos, vel, t, descr) orbit states."""
    out = []
    for (a, b, o) in orbits.make_orbitals(ctx, n):
        for t in orbits.rand_times(ctx, o, per, days=1.0):
            p, v = o.get_position(t, normalize=False)
            out.append((np.array(p, dtype=float), np.array(v, dtype=float), t, {"line1": a, "line2": b, "utc": t.isoformat()}, o))
    return out


def rand_angles(ctx, miss=False):
    r = ctx.rng
    if miss:
        fx = math.radians(r.choice([-1, 1]) * r.uniform(72, 89))
    else:
        fx = math.radians(r.choice([0.0, r.uniform(-70, 70), r.uniform(-70, 70), r.uniform(-5, 5)]))
    fy = math.radians(r.choice([0.0, r.uniform(-10, 10)]))
    rpy = [math.radians(r.choice([0.0, r.uniform(-5, 5)])) for _ in range(3)]
    return fx, fy, rpy


def correspond(ctx):
    from pyorbital import astronomy, geoloc
    drv = ctx.driver()
    n = ctx.size(40, 300)
    per = ctx.size(15, 60)
    lines, exp = [], []
    for (p, v, t, descr, o) in states(ctx, n, per):
        k = ctx.rng.randrange(1, 6)
        angs = [rand_angles(ctx, miss=ctx.rng.random() < 0.1) for _ in range(k)]
        rpy = angs[0][2]
        fovs = np.array([[a[0] for a in angs], [a[1] for a in angs]])
        sg = geoloc.ScanGeometry(fovs, np.zeros(k))
        P = np.repeat(p.reshape(3, 1), k, axis=1)
        V = np.repeat(v.reshape(3, 1), k, axis=1)
        vecs = sg.vectors(P, V, *rpy)
        times = np.array([np.datetime64(t)] * k)
        with np.errstate(invalid="ignore"):
            pix = geoloc.compute_pixels(o, sg, times, rpy)
        lla = with_watchdog(20, lambda: geoloc.get_lonlatalt(pix, times))
        d = float(astronomy.jdays2000(np.datetime64(t)))
        for j in range(k):
            lines.append("view " + " ".join(lib.f2h(x) for x in list(p) + list(v) + [fovs[0, j], fovs[1, j]] + rpy))
            exp.append(("view", descr, (fovs[0, j], fovs[1, j], rpy), vecs[:, j]))
            lines.append("hit " + " ".join(lib.f2h(x) for x in list(p) + list(vecs[:, j])))
            exp.append(("hit", descr, (fovs[0, j], fovs[1, j], rpy), pix[:, j]))
            lines.append("llakm " + " ".join(lib.f2h(x) for x in [d] + list(pix[:, j])))
            exp.append(("llakm", descr, (fovs[0, j], fovs[1, j], rpy), [float(lla[0][j]), float(lla[1][j]), float(lla[2][j])]))
    outs = drv.run_parallel(lines)
    for (op, descr, ang, got), o_ in zip(exp, outs):
        ctx.count("eval_corr_" + op)
        ctx.distinct((descr["utc"], descr["line1"], ang[0], ang[1], tuple(ang[2])))
        case = dict(descr, fx=ang[0], fy=ang[1], rpy=ang[2])
        toks = o_.split()
        if op == "view":
            m = np.array([lib.h2f(x) for x in toks])
            if not np.all(np.abs(m - got) <= 1e-11):
                ctx.disagree("view", case, list(got), list(m))
        elif op == "hit":
            m = np.array([lib.h2f(x) for x in toks])
            disc = m[3]
            ctx.bump("hit", "miss" if disc < 0 else "hit")
            if np.isnan(got[0]) != (disc < 0 or math.isnan(m[5])):
                ctx.disagree("hit-nan", case, list(got), list(m))
            elif not np.isnan(got[0]) and not np.all(np.abs(m[5:8] - got) <= 1e-7):
                ctx.disagree("hit", case, list(got), list(m[5:8]))
        else:
            if toks[0] == "diverged":
                if not all(math.isnan(x) for x in got):
                    ctx.disagree("llakm", case, got, "diverged (NaN position)")
                continue
            m = [lib.h2f(x) for x in toks[:3]]
            if any(math.isnan(x) for x in got) or any(math.isnan(x) for x in m):
                if not (all(math.isnan(x) for x in got) and all(math.isnan(x) for x in m)):
                    ctx.disagree("llakm-nan", case, got, m)
                continue
            if not (abs((m[0] - got[0] + 180) % 360 - 180) <= 1e-8 and abs(m[1] - got[1]) <= 1e-8 and abs(m[2] - got[2]) <= 1e-6):
                ctx.disagree("llakm", case, got, m)
    ctx.sample({"state": exp[0][1], "angles": [exp[0][2][0], exp[0][2][1]], "rpy": exp[0][2][2]})


def check_pixel_times(ctx, o, descr, fovs, rpy, t, layout, dt_s):
    from pyorbital import geoloc
    fovs = np.asarray(fovs, dtype=float)
    k = fovs.shape[1]
    offs = np.array([j * dt_s + (j // (k // 2)) * 6.0 for j in range(k)])
    times = np.datetime64(t) + (offs * 1e9).astype("int64").astype("timedelta64[ns]")
    if layout == "2d":
        sg = geoloc.ScanGeometry(fovs.reshape(2, 2, k // 2), np.zeros((2, k // 2)))
        tt = times.reshape(2, k // 2)
    else:
        sg = geoloc.ScanGeometry(fovs, np.zeros(k))
        tt = times
    with np.errstate(invalid="ignore"):
        pix = np.asarray(geoloc.compute_pixels(o, sg, tt, rpy)).reshape(3, -1)
    bad = 0
    for j in range(k):
        ctx.count("eval_oracle_pixel_times")
        sg1 = geoloc.ScanGeometry(fovs[:, j:j + 1], np.zeros(1))
        with np.errstate(invalid="ignore"):
            one = np.asarray(geoloc.compute_pixels(o, sg1, times[j:j + 1], rpy)).reshape(3)
        # The nadir direction comes from geodetic_lat, whose np.allclose exit leaves up to 1.2e-7 rad (theorem
        # geodeticLat_result_close_to_fixpoint); in a batch the joint exit may run a pass more than for one pixel alone,
        # so the two view directions may differ by up to 2.4e-7 rad, which moves the pixel by (slant range) x 2.4e-7 /
        # cos(incidence angle) on the ground (metres for oblique views of high orbits).  A pixel placed at another pixel's
        # time is off by the satellite's motion in between (>= 40 m for 50 ms).
        tol_km = 1e-6
        if not (np.any(np.isnan(one)) or np.any(np.isnan(pix[:, j]))):
            pj = np.asarray(o.get_position(times[j], normalize=False)[0], dtype=float)
            ray = one - pj
            rng_km = float(np.linalg.norm(ray))
            nrm = one * np.array([1 / A_E ** 2, 1 / A_E ** 2, 1 / B_E ** 2])
            nrm = nrm / np.linalg.norm(nrm)
            cos_inc = abs(float(ray @ nrm)) / rng_km if rng_km > 0 else 1.0
            tol_km += 6e-7 * rng_km / max(cos_inc, 0.02)
        if not np.allclose(pix[:, j], one, rtol=0, atol=tol_km, equal_nan=True):
            ctx.violation("pixel_not_at_its_time", dict(descr, fovs=fovs.tolist(), rpy=list(rpy), layout=layout, dt_s=dt_s, index=j),
                          list(pix[:, j]), "the pixel computed alone at its own time: %r" % list(one), site="geoloc.compute_pixels")
            bad += 1
            break
    return bad


# ---------------------------------------------------------------------------------------------------------------------------
# memory layouts: the same shape and values, other strides (the gaps of strided / padded buffers hold NaN / NaT)
LAYOUTS_1D = ["strided", "reversed", "strided0", "offset"]
LAYOUTS_ND = ["F", "T", "swap", "strided", "strided0", "reversed", "rev0", "revall", "offset"]
LAYOUT_ARGS = ["fovs", "offs", "times", "pos", "vel", "roll", "pitch", "yaw", "pixels"]


def _filled(shape, dtype):
    big = np.empty(shape, dtype=dtype)
    big[...] = np.array("NaT", dtype=dtype) if dtype.kind in "mM" else np.nan
    return big


def relayout(x, name):
    """x (an ndarray of floats, datetime64 or timedelta64) with the same shape, dtype and values in the memory layout `name`;
    "C" is a fresh C-ordered copy."""
    x = np.array(x, order="C", copy=True)
    if name == "C" or x.ndim == 0:
        return x
    if name == "F":
        return np.asfortranarray(x)
    if name == "T":
        return np.ascontiguousarray(x.T).T
    if name == "swap":
        if x.ndim < 2:
            return x
        return np.ascontiguousarray(x.swapaxes(-1, -2)).swapaxes(-1, -2)
    if name == "strided":
        big = _filled(x.shape[:-1] + (2 * x.shape[-1] + 1,), x.dtype)
        view = big[..., 1::2]
        view[...] = x
        return view
    if name == "strided0":
        big = _filled((3 * x.shape[0],) + x.shape[1:], x.dtype)
        view = big[::3]
        view[...] = x
        return view
    if name == "reversed":
        return np.ascontiguousarray(x[..., ::-1])[..., ::-1]
    if name == "rev0":
        return np.ascontiguousarray(x[::-1])[::-1]
    if name == "revall":
        sl = (slice(None, None, -1),) * x.ndim
        return np.ascontiguousarray(x[sl])[sl]
    if name == "offset":
        big = _filled(tuple(d + 2 for d in x.shape), x.dtype)
        sl = tuple(slice(1, d + 1) for d in x.shape)
        big[sl] = x
        return big[sl]
    raise ValueError("unknown layout " + str(name))


def apply_layout(x, name):
    """x in the named layout ("-" and non-arrays: unchanged); the harness itself verifies shape and values are kept"""
    if name in (None, "-") or not isinstance(x, np.ndarray):
        return x
    y = relayout(x, name)
    if not (y.shape == x.shape and y.dtype == x.dtype and np.array_equal(y, x, equal_nan=(x.dtype.kind == "f"))):
        raise RuntimeError("relayout changed the array")
    return y


def pick_layout(r, ndim):
    if ndim == 0:
        return "-"
    if r.random() < 0.25:
        return "C"
    return r.choice(LAYOUTS_1D if ndim == 1 else LAYOUTS_ND)


class _LaidOutOrbit(object):
    """the orbit object with the position / velocity arrays it returns in a given memory layout (values unchanged)"""

    def __init__(self, orb, lay_pos, lay_vel):
        self.orb, self.lay_pos, self.lay_vel = orb, lay_pos, lay_vel

    def get_position(self, times, normalize=False):
        p, v = self.orb.get_position(times, normalize=normalize)
        return apply_layout(np.asarray(p), self.lay_pos), apply_layout(np.asarray(v), self.lay_vel)


def make_layout_scan(ctx):
    """(fovs, offs, rpy, layouts): a 1-D line or 2-D scan with non-constant angles, per-pixel time offsets, attitude as
    scalars, constant arrays or per-pixel arrays, and a layout name for every array argument"""
    r = ctx.rng
    shape = (r.randrange(2, 5), r.randrange(2, 6)) if r.random() < 0.7 else (r.randrange(2, 9),)
    n = int(np.prod(shape))
    angs = [rand_angles(ctx, miss=r.random() < 0.1) for _ in range(n)]
    fovs = np.array([[a[0] for a in angs], [a[1] for a in angs]]).reshape((2,) + shape)
    dt_s = r.choice([0.0, 0.05, 0.7, 5.8])
    line = shape[-1]
    offs = np.array([j * dt_s + (j // line) * (6.0 if dt_s else 0.0) for j in range(n)]).reshape(shape)
    mode = r.choice(["scalar", "scalar", "const", "pixel"])
    if mode == "scalar":
        rpy = list(angs[0][2])
    elif mode == "const":
        rpy = [np.full(shape, x) for x in angs[0][2]]
    else:
        rpy = [np.array([a[2][i] for a in angs]).reshape(shape) for i in range(3)]
    layouts = {"fovs": pick_layout(r, fovs.ndim), "offs": pick_layout(r, offs.ndim), "times": pick_layout(r, offs.ndim),
               "pos": pick_layout(r, 1 + offs.ndim), "vel": pick_layout(r, 1 + offs.ndim), "pixels": pick_layout(r, 1 + offs.ndim)}
    for nm, x in zip(("roll", "pitch", "yaw"), rpy):
        layouts[nm] = pick_layout(r, np.ndim(x))
    ctx.bump("layout_scan", "%dd/%s-attitude" % (len(shape), mode))
    return fovs, offs, rpy, layouts


def judge_scan(ctx, o, descr, fovs, offs, rpy, layouts, limit=3):
    """One scan with every array argument in the recorded memory layout, judged by the clauses of the statement: scan times,
    unit view vectors, NaN exactly on misses, ellipsoid equation, nearer intersection on the pixel's own view vector,
    satellite above the horizon, every pixel equal to the pixel computed alone (its own time, angles and attitude),
    lon/lat/alt terminating with |alt| <= 10 m and NaN exactly for the misses.  Returns the number of violations."""
    from pyorbital import geoloc
    fovs = np.array(fovs, dtype=float)
    shape = fovs.shape[1:]
    n = int(np.prod(shape))
    offs = np.array(offs, dtype=float).reshape(shape)
    rpy = [np.array(x, dtype=float).reshape(shape) if np.ndim(x) else float(x) for x in rpy]
    layouts = dict(layouts)
    t = dt.datetime.fromisoformat(descr["utc"])
    case = dict(descr, probe="layouts", fovs=fovs.tolist(), offs=offs.tolist(), rpy=[x.tolist() if np.ndim(x) else x for x in rpy],
                layouts=layouts)
    bad = [0]

    def viol(kind, j, observed, required, site):
        bad[0] += 1
        ctx.violation(kind, dict(case, index=j), observed, required, site=site)

    rpy_l = [apply_layout(x, layouts.get(nm, "C")) for nm, x in zip(("roll", "pitch", "yaw"), rpy)]
    want = np.datetime64(t) + (offs * 1e9).astype("int64").astype("timedelta64[ns]")
    fovs_l, offs_l = apply_layout(fovs, layouts.get("fovs", "C")), apply_layout(offs, layouts.get("offs", "C"))
    times = apply_layout(want, layouts.get("times", "C"))
    try:
        sg = geoloc.ScanGeometry(fovs_l, offs_l)
        tt = np.asarray(sg.times(t))
        if tt.shape != shape or not np.all(np.abs((tt - want).astype("int64")) <= 1):
            viol("pixel_times", None, [str(x) for x in tt.ravel()], [str(x) for x in want.ravel()], "ScanGeometry.times")
        with np.errstate(invalid="ignore"):
            pix = geoloc.compute_pixels(_LaidOutOrbit(o, layouts.get("pos", "C"), layouts.get("vel", "C")), sg, times, rpy_l)
        P, V = [np.asarray(x, dtype=float) for x in o.get_position(want, normalize=False)]
        vecs = sg.vectors(apply_layout(P, layouts.get("pos", "C")), apply_layout(V, layouts.get("vel", "C")), *rpy_l)
    except Timeout:
        raise
    except Exception as e:  # noqa
        viol("scan_raises", None, "%s: %s" % (type(e).__name__, str(e)[:200]), "pixels and view vectors for every accepted scan",
             "geoloc.compute_pixels")
        return bad[0]
    if np.shape(pix) != (3,) + shape or np.shape(vecs) != (3,) + shape:
        viol("shape_2d", None, [list(np.shape(pix)), list(np.shape(vecs))], "pixels and view vectors of shape %r" % ((3,) + shape,),
             "geoloc.compute_pixels")
        return bad[0]
    pixf = np.array(pix, dtype=float).reshape(3, -1)
    vecf = np.array(vecs, dtype=float).reshape(3, -1)
    Pf = P.reshape(3, -1)
    fovf = fovs.reshape(2, -1)
    wantf = want.reshape(-1)
    s = np.array([1 / A_E, 1 / A_E, 1 / B_E])
    for j in range(n):
        if bad[0] >= limit:
            break
        ctx.count("eval_oracle_layouts")
        p, vec, px = Pf[:, j], vecf[:, j], pixf[:, j]
        if not abs(np.linalg.norm(vec) - 1.0) <= 1e-12:
            viol("view_not_unit", j, float(np.linalg.norm(vec)), "1", "ScanGeometry.vectors")
        # every pixel is the pixel computed alone, at its own time, with its own angles and attitude (tolerance: see
        # check_pixel_times)
        rpy_j = [float(x.reshape(-1)[j]) if np.ndim(x) else x for x in rpy]
        sg1 = geoloc.ScanGeometry(np.array(fovf[:, j:j + 1]), np.zeros(1))
        with np.errstate(invalid="ignore"):
            one = np.asarray(geoloc.compute_pixels(o, sg1, np.array(wantf[j:j + 1]), rpy_j)).reshape(3)
        tol_km = 1e-6
        if not (np.any(np.isnan(one)) or np.any(np.isnan(px))):
            ray = one - p
            rng_km = float(np.linalg.norm(ray))
            nrm = one * s * s
            nrm = nrm / np.linalg.norm(nrm)
            cos_inc = abs(float(ray @ nrm)) / rng_km if rng_km > 0 else 1.0
            tol_km += 6e-7 * rng_km / max(cos_inc, 0.02)
        ps, vs = p * s, vec * s
        qa, qb, qc = float(vs @ vs), 2 * float(ps @ vs), float(ps @ ps) - 1
        disc = qb * qb - 4 * qa * qc
        grazing = abs(disc) < 1e-9     # either outcome within rounding, for the batch and for the pixel alone
        if not grazing and not np.allclose(px, one, rtol=0, atol=tol_km, equal_nan=True):
            viol("pixel_not_at_its_time", j, px.tolist(), "the pixel computed alone at its own time: %r" % one.tolist(), "geoloc.compute_pixels")
        if disc < -1e-9:
            if not np.all(np.isnan(px)):
                viol("miss_not_nan", j, px.tolist(), "NaN (ray misses the ellipsoid)", "geoloc.compute_pixels")
            continue
        if disc < 1e-9:
            continue
        if np.any(np.isnan(px)):
            viol("hit_is_nan", j, px.tolist(), "a point on the ellipsoid", "geoloc.compute_pixels")
            continue
        eq = px[0] ** 2 / A_E ** 2 + px[1] ** 2 / A_E ** 2 + px[2] ** 2 / B_E ** 2
        if abs(eq - 1) > 1e-9:
            viol("off_ellipsoid", j, eq, "1 within 1e-9", "geoloc.compute_pixels")
        ref = p + (-qb - math.sqrt(disc)) / (2 * qa) * vec
        if np.linalg.norm(px - ref) > 1e-6:
            viol("not_near_intersection", j, px.tolist(), ref.tolist(), "geoloc.compute_pixels")
        nrm = px * s * s
        if float(nrm @ (p - px)) <= 0:
            viol("satellite_below_horizon", j, float(nrm @ (p - px)), "> 0", "geoloc.compute_pixels")
    # lon/lat/alt of the pixels (pixel array and times in their layouts); a hang already found is not waited for again
    if any(v_["kind"] == "lonlatalt_hangs" for v_ in ctx.violations):
        return bad[0]
    pix_l = apply_layout(np.array(pix, dtype=float), layouts.get("pixels", "C"))
    keep = np.array(pix_l, copy=True)
    try:
        with np.errstate(invalid="ignore"):
            lla = with_watchdog(20, lambda: geoloc.get_lonlatalt(pix_l, times))
    except Timeout:
        viol("lonlatalt_hangs", None, "no result within 20 s", "terminates", "geoloc.get_lonlatalt")
        return bad[0]
    if not np.array_equal(pix_l, keep, equal_nan=True):
        viol("pixels_modified_by_conversion", None, np.asarray(pix_l).reshape(3, -1)[:, 0].tolist(),
             "the pixel array is left as compute_pixels returned it: %r" % keep.reshape(3, -1)[:, 0].tolist(), "geoloc.get_lonlatalt")
    lla = [np.asarray(x, dtype=float) for x in lla]
    if any(x.shape != shape for x in lla):
        viol("shape_2d", None, [list(x.shape) for x in lla], "longitudes, latitudes, altitudes of shape %r" % (shape,), "geoloc.get_lonlatalt")
        return bad[0]
    llaf = [x.reshape(-1) for x in lla]
    for j in range(n):
        if bad[0] >= limit:
            break
        ctx.count("eval_oracle_lla")
        miss = bool(np.isnan(pixf[0, j]))
        got = [float(llaf[i][j]) for i in range(3)]
        if any(miss != math.isnan(x) for x in got):
            viol("lla_nan_mismatch", j, got, "NaN exactly for missed pixels", "geoloc.get_lonlatalt")
        elif not miss and abs(got[2]) > 0.010:
            viol("pixel_altitude", j, got[2], "|alt| <= 10 m", "geoloc.get_lonlatalt")
    return bad[0]


def oracle(ctx):
    from pyorbital import geoloc
    n = ctx.size(40, 300)
    per = ctx.size(12, 60)
    worst_eq = 0.0
    n_state = 0
    for (p, v, t, descr, o) in states(ctx, n, per):
        shape2d = ctx.rng.random() < 0.4
        k = ctx.rng.randrange(2, 7)
        angs = [rand_angles(ctx, miss=ctx.rng.random() < 0.1) for _ in range(k)]
        rpy = angs[0][2]
        fovs = np.array([[a[0] for a in angs], [a[1] for a in angs]])
        sg = geoloc.ScanGeometry(fovs, np.zeros(k))
        times = np.array([np.datetime64(t)] * k)
        with np.errstate(invalid="ignore"):
            pix = geoloc.compute_pixels(o, sg, times, rpy)
        P = np.repeat(p.reshape(3, 1), k, axis=1)
        V = np.repeat(v.reshape(3, 1), k, axis=1)
        vecs = sg.vectors(P, V, *rpy)
        if shape2d and k % 2 == 0:
            # the same through a 2-D (lines x pixels) layout
            sg2 = geoloc.ScanGeometry(fovs.reshape(2, 2, k // 2), np.zeros((2, k // 2)))
            with np.errstate(invalid="ignore"):
                pix2 = geoloc.compute_pixels(o, sg2, times.reshape(2, k // 2), rpy)
            ctx.count("eval_oracle_2d")
            if pix2.shape != (3, 2, k // 2) or not np.allclose(pix2.reshape(3, -1), pix, rtol=0, atol=1e-9, equal_nan=True):
                ctx.violation("shape_2d", dict(descr, fovs=fovs.tolist(), rpy=rpy), "2-D layout differs from 1-D", "same pixels", site="geoloc.compute_pixels")
        # pixels observed at different times (along a line and from line to line), 1-D and 2-D layouts: every pixel is the
        # one computed for that pixel alone, at its own time
        if k % 2 == 0:
            check_pixel_times(ctx, o, descr, fovs, rpy, t, ctx.rng.choice(["1d", "2d"]), ctx.rng.choice([0.05, 0.7, 5.8]))
        # every array argument in a random memory layout (shape and values unchanged), judged by the same clauses
        n_state += 1
        if n_state % 2 == 0:
            lf, lo, lr, ll = make_layout_scan(ctx)
            for nm in LAYOUT_ARGS:
                ctx.bump("layouts", "%s:%s" % (nm, ll[nm]))
            judge_scan(ctx, o, descr, lf, lo, lr, ll)
        nadir_ref = -p / np.linalg.norm(p)
        for j in range(k):
            ctx.count("eval_oracle")
            case = dict(descr, fx=float(fovs[0, j]), fy=float(fovs[1, j]), rpy=rpy)
            vec = vecs[:, j]
            if abs(np.linalg.norm(vec) - 1.0) > 1e-12:
                ctx.violation("view_not_unit", case, float(np.linalg.norm(vec)), "1", site="ScanGeometry.vectors")
            # independent ray/ellipsoid intersection
            s = np.array([1 / A_E, 1 / A_E, 1 / B_E])
            ps, vs = p * s, vec * s
            qa, qb, qc = float(vs @ vs), 2 * float(ps @ vs), float(ps @ ps) - 1
            disc = qb * qb - 4 * qa * qc
            px = pix[:, j]
            if disc < -1e-9:
                if not np.all(np.isnan(px)):
                    ctx.violation("miss_not_nan", case, list(px), "NaN (ray misses the ellipsoid)", site="geoloc.compute_pixels")
                continue
            if disc < 1e-9:
                continue  # grazing: either outcome within rounding
            if np.any(np.isnan(px)):
                ctx.violation("hit_is_nan", case, list(px), "a point on the ellipsoid", site="geoloc.compute_pixels")
                continue
            eq = px[0] ** 2 / A_E ** 2 + px[1] ** 2 / A_E ** 2 + px[2] ** 2 / B_E ** 2
            worst_eq = max(worst_eq, abs(eq - 1))
            if abs(eq - 1) > 1e-9:
                ctx.violation("off_ellipsoid", case, eq, "1 within 1e-9", site="geoloc.compute_pixels")
            t_near = (-qb - math.sqrt(disc)) / (2 * qa)
            ref = p + t_near * vec
            if np.linalg.norm(px - ref) > 1e-6:
                ctx.violation("not_near_intersection", case, list(px), list(ref), site="geoloc.compute_pixels")
            nrm = px * s * s
            if float(nrm @ (p - px)) <= 0:
                ctx.violation("satellite_below_horizon", case, float(nrm @ (p - px)), "> 0", site="geoloc.compute_pixels")
        # zero angles and attitude -> nadir within 0.2 deg of geocentric nadir; roll/pitch add; yaw keeps off-nadir angle
        z = geoloc.ScanGeometry(np.zeros((2, 1)), np.zeros(1)).vectors(p.reshape(3, 1), v.reshape(3, 1))[:, 0]
        ang = math.degrees(math.acos(max(-1, min(1, float(z @ nadir_ref)))))
        ctx.count("eval_oracle_attitude")
        if ang > 0.2:
            ctx.violation("nadir", descr, ang, "<= 0.2 deg from geocentric nadir", site="ScanGeometry.vectors")
        fx, fy, (roll, pitch, yaw) = rand_angles(ctx)
        va = geoloc.ScanGeometry(np.array([[fx], [fy]]), np.zeros(1)).vectors(p.reshape(3, 1), v.reshape(3, 1), roll, pitch, 0.0)[:, 0]
        vb = geoloc.ScanGeometry(np.array([[fx + roll], [fy + pitch]]), np.zeros(1)).vectors(p.reshape(3, 1), v.reshape(3, 1), 0.0, 0.0, 0.0)[:, 0]
        if np.linalg.norm(va - vb) > 1e-12:
            ctx.violation("roll_pitch_add", dict(descr, fx=fx, fy=fy, roll=roll, pitch=pitch), list(va), list(vb), site="ScanGeometry.vectors")
        vy = geoloc.ScanGeometry(np.array([[fx], [fy]]), np.zeros(1)).vectors(p.reshape(3, 1), v.reshape(3, 1), roll, pitch, yaw)[:, 0]
        if abs(float(vy @ z) - float(va @ z)) > 1e-12:
            ctx.violation("yaw_changes_off_nadir", dict(descr, fx=fx, fy=fy, yaw=yaw), float(vy @ z), float(va @ z), site="ScanGeometry.vectors")
        # sense: positive across-track angle tilts to the right of the velocity, positive along-track backward
        # sense relative to nadir: forward = velocity component orthogonal to nadir, up = -nadir, right = forward x up
        fwd = v - float(v @ z) * z
        fwd = fwd / np.linalg.norm(fwd)
        right = np.cross(fwd, -z)
        if abs(fy) > 1e-3:
            vb2 = geoloc.ScanGeometry(np.array([[0.0], [abs(fy)]]), np.zeros(1)).vectors(p.reshape(3, 1), v.reshape(3, 1))[:, 0]
            if float(vb2 @ fwd) >= 0:
                ctx.violation("along_track_sense", dict(descr, fy=abs(fy)), float(vb2 @ fwd),
                              "negative component along the forward direction (tilts backward)", site="ScanGeometry.vectors")
        if abs(fx) > 1e-3:
            vr = geoloc.ScanGeometry(np.array([[abs(fx)], [0.0]]), np.zeros(1)).vectors(p.reshape(3, 1), v.reshape(3, 1))[:, 0]
            if float(vr @ right) <= 0:
                ctx.violation("across_track_sense", dict(descr, fx=abs(fx)), float(vr @ right),
                              "positive component to the right of the velocity", site="ScanGeometry.vectors")
        # lon/lat/alt of the pixels: terminates, alt within 10 m of zero on hits, NaN exactly on misses
        pix_before = np.array(pix, copy=True)
        try:
            lla = with_watchdog(20, lambda: geoloc.get_lonlatalt(pix, times))
        except Timeout:
            ctx.violation("lonlatalt_hangs", dict(descr, fovs=fovs.tolist(), rpy=rpy, nan_pixels=int(np.isnan(pix[0]).sum())),
                          "no result within 20 s", "terminates", site="geoloc.get_lonlatalt")
            continue
        if not np.array_equal(pix, pix_before, equal_nan=True):
            ctx.violation("pixels_modified_by_conversion", dict(descr, fovs=fovs.tolist(), rpy=rpy), np.asarray(pix)[:, 0].tolist(),
                          "the pixel array is left as compute_pixels returned it: %r" % pix_before[:, 0].tolist(), site="geoloc.get_lonlatalt")
            pix = pix_before
        for j in range(k):
            ctx.count("eval_oracle_lla")
            miss = bool(np.isnan(pix[0, j]))
            alt = float(lla[2][j])
            if miss != math.isnan(alt) or miss != math.isnan(float(lla[0][j])) or miss != math.isnan(float(lla[1][j])):
                ctx.violation("lla_nan_mismatch", dict(descr, pixel=list(pix[:, j])), [float(lla[i][j]) for i in range(3)],
                              "NaN exactly for missed pixels", site="geoloc.get_lonlatalt")
            elif not miss and abs(alt) > 0.010:
                ctx.violation("pixel_altitude", dict(descr, pixel=list(pix[:, j])), alt, "|alt| <= 10 m", site="geoloc.get_lonlatalt")
        # times: start + offsets
        offs = np.array([0.0, 0.5, 1.25])
        sgt = geoloc.ScanGeometry(np.zeros((2, 3)), offs)
        tt = sgt.times(t)
        want = np.datetime64(t) + (offs * 1e9).astype("int64").astype("timedelta64[ns]")
        if not np.all(np.abs((tt - want).astype("int64")) <= 1):
            ctx.violation("pixel_times", descr, [str(x) for x in tt], [str(x) for x in want], site="ScanGeometry.times")
    # explicit pos/vel pairs through a (line1, line2) tuple is the same path; also check tuple input of compute_pixels
    ctx.note("worst ellipsoid-equation residual = %.3g" % worst_eq)
    _oracle_polar(ctx)


class _FixedState(object):
    """orbit stand-in with an explicit state: compute_pixels only calls get_position(times, normalize=False)"""

    def __init__(self, pos, vel):
        self.pos = np.array(pos, dtype=np.float64)
        self.vel = np.array(vel, dtype=np.float64)

    def get_position(self, times, normalize=False):
        k = np.asarray(times).size
        return np.repeat(self.pos.reshape(3, 1), k, axis=1), np.repeat(self.vel.reshape(3, 1), k, axis=1)


POLAR_Z = [7000.0, 7200.0, 7178.137]
POLAR_OFF = [0.0, 1e-9, 1e-7, 1e-6, 1e-5, 1e-4, 1e-3]
POLAR_ANG = [0.0, 1e-9, -1e-8, 1e-7, -1e-6, 1e-5, -1e-4, 1e-3]


def _check_polar_pixels(ctx, pos, vel, fovs, tiso):
    """pixels of an explicit state on/near the polar axis: hit the ellipsoid, lon/lat/alt terminate, |alt| <= 10 m"""
    from pyorbital import geoloc
    fovs = np.array(fovs, dtype=np.float64)
    k = fovs.shape[1]
    t = dt.datetime.fromisoformat(tiso)
    times = np.array([np.datetime64(t)] * k)
    sg = geoloc.ScanGeometry(fovs, np.zeros(k))
    with np.errstate(invalid="ignore"):
        pix = geoloc.compute_pixels(_FixedState(pos, vel), sg, times)
    case = {"pos": [float(x) for x in pos], "vel": [float(x) for x in vel], "fovs": fovs.tolist(), "utc": tiso}
    bad = 0
    worst = 0.0
    try:
        with np.errstate(all="ignore"):
            lla = with_watchdog(20, lambda: geoloc.get_lonlatalt(pix, times))
    except Timeout:
        ctx.violation("lonlatalt_hangs", case, "no result within 20 s", "terminates", site="geoloc.get_lonlatalt")
        return 1, worst
    for j in range(k):
        ctx.count("eval_oracle_polar")
        px = pix[:, j]
        if np.any(np.isnan(px)):
            ctx.violation("hit_is_nan", dict(case, index=j), list(px), "a point on the ellipsoid (near-nadir view)", site="geoloc.compute_pixels")
            bad += 1
            continue
        alt = float(lla[2][j])
        lat = float(lla[1][j])
        if not (abs(alt) <= 0.010) or not (-90.0 <= lat <= 90.0):
            ctx.violation("pixel_altitude_polar", dict(case, index=j, pixel=[float(x) for x in px]), {"alt_km": alt, "lat": lat},
                          "|alt| <= 10 m, lat in [-90, 90]", site="geoloc.get_lonlatalt")
            bad += 1
        if not math.isnan(alt):
            worst = max(worst, abs(alt))
    return bad, worst


def _oracle_polar(ctx):
    """explicit states exactly above a pole and within 1e-9..1e-3 km of the polar axis; nadir view and small scan angles"""
    r = ctx.rng
    worst = 0.0
    for z in POLAR_Z:
        for off in POLAR_OFF:
            for sgn in (1.0, -1.0):
                az = r.uniform(0, 2 * math.pi)
                hd = r.uniform(0, 2 * math.pi)
                pos = [off * math.cos(az), off * math.sin(az), sgn * z]
                vel = [7.5 * math.cos(hd), 7.5 * math.sin(hd), 0.0]
                fx = list(POLAR_ANG)
                fy = [0.0] + [r.choice(POLAR_ANG) for _ in POLAR_ANG[1:]]
                t = dt.datetime(2000, 1, 1) + dt.timedelta(seconds=r.uniform(0, 30 * 365 * 86400))
                ctx.distinct(("polar", z, off, sgn))
                ctx.bump("polar_offset_km", "%g" % off)
                _, w = _check_polar_pixels(ctx, pos, vel, [fx, fy], t.isoformat())
                worst = max(worst, w)
    ctx.note("worst |altitude| of pixels on/near the polar axis = %.3g km" % worst)


def match_known(entry, v):
    return False


def replay(ctx, case):
    """Re-evaluate the recorded pixel (or scan) on the current tree: hit/miss, ellipsoid equation, nearer intersection,
    lon/lat/alt termination and altitude.  Violations that depend on the history of a ScanGeometry object or on other
    clauses are reproduced by check.py re-running the recorded seed."""
    from pyorbital import geoloc, orbital
    inp = case.get("input", case)
    if "pos" in inp and "fovs" in inp:
        bad, worst = _check_polar_pixels(ctx, inp["pos"], inp["vel"], inp["fovs"], inp["utc"])
        print("explicit state", inp, "worst |alt| km", worst, "violations", bad)
        return 1 if bad else 0
    if "line1" not in inp:
        print(inp)
        return 0
    o = orbital.Orbital("x", line1=inp["line1"], line2=inp["line2"])
    if inp.get("probe") == "layouts":
        descr = {"line1": inp["line1"], "line2": inp["line2"], "utc": inp["utc"]}
        bad = judge_scan(ctx, o, descr, inp["fovs"], inp["offs"], inp["rpy"], inp["layouts"])
        for v_ in ctx.violations[:3]:
            print(v_["kind"], "index", v_["case"].get("index"), "observed", v_["observed"], "required", v_["required"])
        print("layout case", inp["layouts"], ":", "violated" if bad else "holds")
        return 1 if bad else 0
    t = dt.datetime.fromisoformat(inp["utc"])
    p, v = [np.array(x, dtype=float) for x in o.get_position(t, normalize=False)]
    rpy = tuple(inp.get("rpy", (0.0, 0.0, 0.0)))
    if "layout" in inp:
        bad = check_pixel_times(ctx, o, {"line1": inp["line1"], "line2": inp["line2"], "utc": inp["utc"]}, inp["fovs"], rpy, t,
                                inp["layout"], inp["dt_s"])
        print("pixel-times case:", "violated" if bad else "holds")
        return 1 if bad else 0
    if "fovs" in inp:
        fovs = np.array(inp["fovs"], dtype=float)
    elif "fx" in inp and "fy" in inp:
        fovs = np.array([[inp["fx"]], [inp["fy"]]], dtype=float)
    else:
        print("no scan angles recorded", inp)
        return 0
    k = fovs.shape[1]
    sg = geoloc.ScanGeometry(fovs, np.zeros(k))
    times = np.array([np.datetime64(t)] * k)
    with np.errstate(invalid="ignore"):
        pix = geoloc.compute_pixels(o, sg, times, rpy)
    vecs = sg.vectors(np.repeat(p.reshape(3, 1), k, axis=1), np.repeat(v.reshape(3, 1), k, axis=1), *rpy)
    bad = 0
    s_ = np.array([1 / A_E, 1 / A_E, 1 / B_E])
    for j in range(k):
        vec = vecs[:, j]
        ps, vs = p * s_, vec * s_
        qa, qb, qc = float(vs @ vs), 2 * float(ps @ vs), float(ps @ ps) - 1
        disc = qb * qb - 4 * qa * qc
        px = pix[:, j]
        if abs(np.linalg.norm(vec) - 1.0) > 1e-12:
            bad += 1
        if disc < -1e-9:
            bad += 0 if np.all(np.isnan(px)) else 1
        elif disc > 1e-9:
            if np.any(np.isnan(px)):
                bad += 1
            else:
                eq = px[0] ** 2 / A_E ** 2 + px[1] ** 2 / A_E ** 2 + px[2] ** 2 / B_E ** 2
                ref = p + (-qb - math.sqrt(disc)) / (2 * qa) * vec
                if abs(eq - 1) > 1e-9 or np.linalg.norm(px - ref) > 1e-6:
                    bad += 1
    try:
        keep = np.array(pix, copy=True)
        lla = with_watchdog(20, lambda: geoloc.get_lonlatalt(pix, times))
        if not np.array_equal(pix, keep, equal_nan=True):
            print("get_lonlatalt modified the pixel array")
            bad += 1
            pix = keep
        for j in range(k):
            miss = bool(np.isnan(pix[0, j]))
            alt = float(lla[2][j])
            if miss != math.isnan(alt) or (not miss and abs(alt) > 0.010):
                bad += 1
    except Timeout:
        print("get_lonlatalt does not return")
        bad += 1
    print("pixels", pix.tolist(), "violations", bad)
    return 1 if bad else 0
