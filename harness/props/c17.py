"""C17 — Downloads degrade per URI: HTTP errors drop only own data; timeouts are loud."""
import itertools
import json
import os
import shutil
import sys
import tempfile
import time

_HARNESS = os.path.dirname(os.path.dirname(os.path.abspath(__file__)))
if _HARNESS not in sys.path:
    sys.path.insert(0, _HARNESS)
import lib  # noqa: E402
import tlegen  # noqa: E402

ID = "C17"
LEAN_TARGETS = ["PV.Props.C17"]
# T-D: functions translated from the source by harness/pytrans.py, proved equal to the model (DESIGN section 0)
EQUIV = {"PV.Equiv.TranslatedDownload": ["fetch_plain_tle_eq", "fetch_spacetrack_eq"]}
RULE = ("exhaustive: every assignment of {200 with an empty body, 200 with 1-3 entries, 200 with non-TLE text, HTTP error status, "
        "timeout} to the URIs of every shape of <= 3 sources holding <= 5 URIs in total (quick; <= 6 thorough; sources without "
        "URIs included), requests.get interposed; bodies vary with the URI (with / without name lines, CRLF, trailing blank "
        "lines, HTML with blank lines, error bodies that hold valid TLEs, Timeout / ConnectTimeout / ReadTimeout); every entry "
        "served is a distinct element set, so the result shows which URI each entry came from and in which order; the URI "
        "names of every case sort in the configured order, against it, or in neither order (drawn per case; the body belongs "
        "to the position, the expectation follows the configured order); one URI listed twice, within a source or in two "
        "sources, for every assignment over <= 4 positions (<= 5 thorough); the whole table and the Space-Track table again "
        "with the TLES environment variable set to a pattern whose newest file holds other satellites / the served satellites "
        "with other elements / matching nothing, for <= 4 URIs (<= 5 thorough), restored afterwards: the same results are "
        "required; Space-Track: {login 200/401/500} x {query 200/404/500} x 5 bodies with requests.Session interposed; "
        "Space-Track again with 1, 2, 49, 50, 51, 100, 120 (thorough: further counts up to 400) configured platforms and a "
        "stand-in server that serves one entry per catalogue number a query asks for (some numbers unknown to it; with / "
        "without name lines, LF / CRLF): login failed -> [] and no query, query failed -> [], success -> exactly the "
        "entries served over all queries made (order and number of queries not judged); "
        "distinct = (shape, assignment, URI name order, repeated position, TLES)")
ASSUMPTIONS = ["a body is abstracted to the list of entries _parse_tles_for_downloader extracts from it; the extraction itself is "
               "C10's subject",
               "'non-TLE text' = text in which no stripped line starts with '1 ' (HTML / error pages, blank lines allowed): it holds "
               "no entry; text imitating a line-1 prefix is outside the statement and is not generated",
               "success = status 200 exactly (the code's test); error statuses generated: 403, 404, 418, 500, 503",
               "sources is a dict, so source names are distinct (hypothesis Nodup of the theorems)",
               "failures other than a status or requests.exceptions.Timeout (e.g. ConnectionError) are outside the statement",
               "Space-Track requests carry no timeout in the code; only status outcomes are modelled there",
               "a URI listed twice in one source: the model (and the code) request it twice and concatenate its entries twice; "
               "the oracle also accepts its entries once, at the first position (the statement speaks of 'its successful URIs'); "
               "a URI listed in two sources must serve both",
               "the TLES variable is not part of the model: the model's answer for an assignment is compared with the code's "
               "under every TLES setting"]
TRUSTED = ["model: PV.Model.Download (hand-written from tlefile.py Downloader.fetch_plain_tle / fetch_spacetrack), tied by the "
           "exhaustive outcome-assignment table (exact agreement of result dicts, key order and raised URI)"]
LEVEL_TEXT = ("Theorems (Lean 4 kernel, core only, by induction over arbitrary lists - no bound on sources, URIs or entries): "
              "without a timeout the result is the dict of all configured sources in order, each mapped to the in-order "
              "concatenation of the entries of its URIs answered 200; turning one URI's 200 into an HTTP error removes exactly "
              "that URI's entries and nothing else; any timeout makes the call raise the timeout error for the first timed-out "
              "URI and never return a dict; Space-Track: failed login -> [] with no query, failed query -> [], success -> all "
              "entries. The model is tied to tlefile.py by the exhaustive assignment table (exact agreement).")
LEVEL_NOTE = ("Trusted: Lean kernel; axioms propext, Quot.sound, Classical.choice; the hand-written model PV.Model.Download and the "
              "correspondence harness (interposed requests.get / requests.Session); the body -> entries abstraction (C10).")
TECHNIQUE = ("Lean 4 proof by list induction over an executable model of the two loops; differential correspondence, exhaustive "
             "over all outcome assignments of the bounded shapes")

KINDS = ["ok0", "okN", "oknon", "http", "to"]
STATUSES = [404, 500, 418, 403, 503]
NON_TLE = ["<html>\n<head><title>503</title></head>\n\n<body>\nService unavailable\n</body>\n</html>\n",
           "No GP data found\n",
           "Too many requests, retry later\n\n",
           '{"error": "rate limit", "retry": 15}',
           "\n\n<!DOCTYPE html>\n<p>2 errors</p>\n \n"]
EMPTY = ["", "\n", "", "\r\n", ""]
COUNTS = [2, 1, 3, 1, 2]     # URI 1: exactly one entry without a name line (a two-line body); URI 3: the same after a blank line
NAMES = ["NOAA 19", "METOP-B", "SUOMI NPP", "ISS (ZARYA)", "AQUA", "TERRA", "NOAA 20", "FY-3D"]


def pool():
    """Distinct checksum-valid element sets (id = index + 1)."""
    seen, out = set(), []
    for (_, l1, l2) in tlegen.REAL_TLES:
        if (l1, l2) not in seen:
            seen.add((l1, l2))
            out.append((l1, l2))
    return out


POOL = pool()
ID_OF = {e: i + 1 for i, e in enumerate(POOL)}


def entries_of(i, kind):
    """Entries URI number i serves under outcome `kind` (error bodies also hold valid TLEs: they must be dropped)."""
    if kind == "okN":
        return POOL[3 * i: 3 * i + COUNTS[i % 5]]
    if kind == "http":
        return POOL[15 + 2 * i: 15 + 2 * i + 2]
    return []


def body_text(i, entries):
    sep = "\r\n" if i % 3 == 1 else "\n"
    txt = ""
    for j, (l1, l2) in enumerate(entries):
        if i % 2 == 0:
            txt += NAMES[(i + j) % len(NAMES)] + sep
        txt += l1 + sep + l2 + sep
    if i % 5 in (2, 4):
        txt += sep          # trailing blank line
    if i % 5 == 3:
        txt = sep + txt     # leading blank line
    return txt


class FakeResponse:
    def __init__(self, status, text):
        self.status_code = status
        self.text = text
        self.content = text.encode("utf-8")
        self.ok = status < 400


def response_for(i, kind):
    if kind == "ok0":
        return FakeResponse(200, EMPTY[i % 5])
    if kind == "okN":
        return FakeResponse(200, body_text(i, entries_of(i, kind)))
    if kind == "oknon":
        return FakeResponse(200, NON_TLE[i % 5])
    if kind == "http":
        return FakeResponse(STATUSES[i % 5], body_text(i, entries_of(i, kind)))
    raise AssertionError(kind)


def shapes(max_total, max_sources=3):
    out = []
    for k in range(0, max_sources + 1):
        for sizes in itertools.product(range(0, max_total + 1), repeat=k):
            if sum(sizes) <= max_total:
                out.append(sizes)
    return out


# host labels in ascending lexical order: the label decides where a URI sorts, the configured order is the request order
LABELS = ["alpha", "bravo", "delta", "kilo", "papa", "tango", "yankee", "zulu"]


def layout(sizes, kinds, order=None, slots=None):
    """-> [(source, [(uri, i, kind), ...]), ...]; distinct URIs are numbered globally in the order of their first request.

    order[i] = lexical rank of URI i's name among the URIs (None: names ascend with the configured order);
    slots[p] = which distinct URI is configured at position p (None: all distinct; a repeated number = a URI listed twice,
    in one source or in two)."""
    n = sum(sizes)
    slots = list(range(n)) if slots is None else list(slots)
    order = list(range(max(slots) + 1 if slots else 0)) if order is None else list(order)
    srcs, p, first_src = [], 0, {}
    for s, m in enumerate(sizes):
        uris = []
        for _ in range(m):
            i = slots[p]
            first_src.setdefault(i, s)
            uris.append(("https://%s.example/host%d/tle/u%d.txt" % (LABELS[order[i]], first_src[i], i), i, kinds[i]))
            p += 1
        srcs.append(("src%d" % s, uris))
    return srcs


def pick_order(rng, n):
    """Names in configured order (as generated configs have them), in the opposite order, or in any order."""
    r = rng.random()
    o = list(range(n))
    if r < 0.2:
        return o
    if r < 0.5:
        return o[::-1]
    rng.shuffle(o)
    return o


def dup_slots(n):
    """All ways to list one URI twice among n positions (n - 1 distinct URIs, numbered by first occurrence)."""
    out = []
    for a in range(n):
        for b in range(a + 1, n):
            slots, nxt = [], 0
            for p in range(n):
                if p == b:
                    slots.append(slots[a])
                else:
                    slots.append(nxt)
                    nxt += 1
            out.append(slots)
    return out


# ---- the TLES environment variable while downloading: a downloaded entry is the served text, whatever local files exist
TLES_KINDS = ["other", "same", "nothing"]


def _variant(l1, l2, satnum=None, elnum=None):
    """The element set re-issued under another catalogue number / element number (checksums recomputed)."""
    if satnum is not None:
        l1 = l1[:2] + satnum + l1[7:]
        l2 = l2[:2] + satnum + l2[7:]
    if elnum is not None:
        l1 = l1[:64] + "%4d" % elnum
    return tlegen.fix_checksum(l1), tlegen.fix_checksum(l2)


class TlesEnv:
    """Local TLE files and the TLES variable: 'other' = the newest matching file holds other satellites, 'same' = it holds
    the satellites that are served (same names, same catalogue numbers) with other elements, 'nothing' = the pattern matches
    no file.  The variable is restored on exit."""

    def __enter__(self):
        self.saved = os.environ.get("TLES")
        self.work = tempfile.mkdtemp(prefix="pv-c17-")
        self.patterns = {}
        served = set(e[0][2:7] for e in POOL)
        free = [("%05d" % n) for n in range(90001, 90100) if ("%05d" % n) not in served]
        for kind in ("other", "same"):
            d = os.path.join(self.work, kind)
            os.makedirs(d)
            for age, fname in enumerate(("older.tle", "newest.tle")):
                txt = ""
                for j, (l1, l2) in enumerate(POOL):
                    if kind == "other":
                        v1, v2 = _variant(l1, l2, satnum=free[(j + age) % len(free)])
                        name = "LOCALSAT %d" % (j + age)
                    else:
                        v1, v2 = _variant(l1, l2, elnum=(int(l1[64:68]) + 1 + age) % 10000)
                        name = NAMES[j % len(NAMES)]
                    if ID_OF.get((v1, v2)) is not None:
                        raise RuntimeError("C17 harness: a local variant coincides with a served element set")
                    txt += (name + "\n" if j % 2 == 0 else "") + v1 + "\n" + v2 + "\n"
                with open(os.path.join(d, fname), "w") as f:
                    f.write(txt)
                time.sleep(0.02)
            self.patterns[kind] = os.path.join(d, "*.tle")
        os.makedirs(os.path.join(self.work, "nothing"))
        self.patterns["nothing"] = os.path.join(self.work, "nothing", "*.tle")
        return self

    def use(self, kind):
        if kind is None:
            os.environ.pop("TLES", None)
        else:
            os.environ["TLES"] = self.patterns[kind]

    def __exit__(self, *a):
        if self.saved is None:
            os.environ.pop("TLES", None)
        else:
            os.environ["TLES"] = self.saved
        shutil.rmtree(self.work, ignore_errors=True)
        return False


class Interposed:
    """requests.get / requests.Session replaced by fakes for the duration of the block."""

    def __init__(self):
        import requests
        self.requests = requests
        self.table = {}
        self.calls = []
        self.session_plan = None

    def __enter__(self):
        rq = self.requests
        self.saved = (rq.get, rq.post, rq.Session, rq.request)
        me = self

        def fake_get(url, **kw):
            me.calls.append(("get", url))
            i, kind = me.table[url]
            if kind == "to":
                exc = [rq.exceptions.Timeout, rq.exceptions.ConnectTimeout, rq.exceptions.ReadTimeout][i % 3]
                raise exc("interposed timeout for %s" % url)
            return response_for(i, kind)

        class FakeSession:
            def __init__(self, *a, **k):
                pass

            def __enter__(self):
                return self

            def __exit__(self, *a):
                return False

            def close(self):
                pass

            def post(self, url, data=None, **kw):
                me.calls.append(("post", url))
                return FakeResponse(me.session_plan["login"], "")

            def get(self, url, **kw):
                me.calls.append(("get", url))
                plan = me.session_plan
                if "catalogue" in plan:
                    return many_response(plan, url)
                return FakeResponse(plan["query"], plan["body"])

        def refuse(*a, **k):
            me.calls.append(("unexpected", a[:2]))
            raise AssertionError("unexpected request")

        rq.get, rq.post, rq.Session, rq.request = fake_get, refuse, FakeSession, refuse
        return self

    def __exit__(self, *a):
        rq = self.requests
        rq.get, rq.post, rq.Session, rq.request = self.saved
        return False


def run_plain(ip, srcs):
    """The implementation under the assignment -> ('dict', [(source, [ids])]) | ('exc', class name, message)."""
    from pyorbital import tlefile
    ip.table = {u: (i, k) for _, uris in srcs for (u, i, k) in uris}
    ip.calls = []
    cfg = {"downloaders": {"fetch_plain_tle": {s: [u for (u, _, _) in uris] for s, uris in srcs}}}
    try:
        res = tlefile.Downloader(cfg).fetch_plain_tle()
    except BaseException as e:  # noqa
        if isinstance(e, KeyboardInterrupt):
            raise
        return ("exc", type(e).__name__, str(e)[:200])
    if not isinstance(res, dict):
        return ("other", type(res).__name__, "")
    out = []
    for s, tl in res.items():
        # a source can never hold more entries than the assignment serves in total; a result beyond that (state leaking
        # between calls makes it grow without bound) is recorded by its head and its length, which still differs from
        # every legitimate result, instead of by all of its elements
        if len(tl) > 64:
            out.append((s, [ID_OF.get((t.line1, t.line2), -1) for t in tl[:64]] + [-2, len(tl)]))
        else:
            out.append((s, [ID_OF.get((t.line1, t.line2), -1) for t in tl]))
    return ("dict", out)


def model_line(srcs):
    toks = []
    for s, uris in srcs:
        items = []
        for (u, i, k) in uris:
            name = "u%d" % i
            if k == "to":
                o = "T"
            elif k == "oknon":
                o = "200~N"
            elif k == "ok0":
                o = "200~"
            elif k == "okN":
                o = "200~" + ".".join(str(ID_OF[e]) for e in entries_of(i, k))
            else:
                o = "%d~%s" % (STATUSES[i % 5], ".".join(str(ID_OF[e]) for e in entries_of(i, k)))
            items.append(name + ":" + o)
        toks.append(s + "=" + ",".join(items))
    return "c17 " + " ".join(toks) if toks else "c17"


def model_parse(out):
    out = out.strip()
    if out.startswith("timeout"):
        return ("timeout", out.split(" ")[1])
    body = out[4:].strip()
    d = []
    if body:
        for item in body.split(";"):
            s, ids = item.split("=")
            d.append((s, [int(x) for x in ids.split(".") if x]))
    return ("dict", d)


def statement(srcs):
    """What the statement requires, computed from the assignment alone (configured order of the URIs)."""
    if any(k == "to" for _, uris in srcs for (_, _, k) in uris):
        return ("timeout", None)
    return ("dict", [(s, [ID_OF[e] for (_, i, k) in uris if k in ("ok0", "okN", "oknon") for e in entries_of(i, k)])
                     for s, uris in srcs])


def also_accepted(srcs):
    """A URI listed twice in ONE source: 'the entries served by its successful URIs' in order may be read per listed URI
    (its entries twice: what the model says) or per distinct URI at its first position; the oracle accepts both."""
    alt = {}
    for s, uris in srcs:
        seen, ids = set(), []
        for (u, i, k) in uris:
            if u in seen:
                continue
            seen.add(u)
            if k in ("ok0", "okN", "oknon"):
                ids += [ID_OF[e] for e in entries_of(i, k)]
        if len(seen) != len(uris):
            alt[s] = ids
    return alt


def case_of(srcs, tles=None):
    c = {"sources": [[s, [[u, i, k] for (u, i, k) in uris]] for s, uris in srcs]}
    if tles is not None:
        c["TLES"] = tles
    return c


def observe(ctx):
    """Run the implementation once over the whole table; cached for correspond and oracle."""
    if getattr(ctx, "_c17_obs", None) is not None:
        return ctx._c17_obs
    max_total = ctx.size(5, 6)
    obs = []
    import logging
    logging.disable(logging.CRITICAL)
    try:
        return _observe(ctx, max_total, obs)
    finally:
        logging.disable(logging.NOTSET)


def _spacetrack(ip, tlefile, tles):
    st = []
    bodies = [("-", ""), ("e3", body_text(0, POOL[20:23])), ("N", NON_TLE[0]), ("e2", body_text(2, POOL[23:25])),
              ("e1", body_text(3, POOL[25:26]))]
    ents = {"-": [], "e3": POOL[20:23], "N": [], "e2": POOL[23:25], "e1": POOL[25:26]}
    for login in (200, 401, 500):
        for query in (200, 404, 500):
            for bname, btxt in bodies:
                ip.session_plan = {"login": login, "query": query, "body": btxt}
                ip.calls = []
                cfg = {"platforms": {33591: "NOAA-19", 38771: "METOP-B"},
                       "downloaders": {"fetch_spacetrack": {"user": "u", "password": "p"}}}
                try:
                    r = tlefile.Downloader(cfg).fetch_spacetrack()
                    got = ("list", [ID_OF.get((t.line1, t.line2), -1) for t in r])
                except Exception as e:  # noqa
                    got = ("exc", type(e).__name__, str(e)[:200])
                st.append({"login": login, "query": query, "body": bname, "ids": [ID_OF[e] for e in ents[bname]],
                           "got": got, "calls": list(ip.calls), "tles": tles})
    return st


# ---- Space-Track with many configured platforms: "a success yields all served entries", however many are configured and
# however the implementation asks for them.  The stand-in server reads the catalogue numbers out of each query URL and serves
# one entry for every number it knows (a query whose URL names no numbers is served every known configured number); what it
# served over all queries of one call is what the call must return.
MANY_COUNTS = [1, 2, 49, 50, 51, 100, 120]
MANY_FIRST = 40001


def many_entry(num):
    """A distinct checksum-valid element set for catalogue number `num`."""
    l1, l2 = POOL[num % len(POOL)]
    return _variant(l1, l2, satnum="%05d" % num, elnum=num % 9000 + 1)


def many_numbers(n, style):
    """n configured catalogue numbers (ascending for even styles, scattered for odd ones)."""
    nums = [MANY_FIRST + 3 * k for k in range(n)]
    if style % 2:
        nums = nums[1::2] + nums[0::2][::-1]
    return nums


def many_unknown(num, style):
    """Numbers the stand-in server has no element set for (none for styles 0 and 1)."""
    return style >= 2 and num % 7 == 3


def many_response(plan, url):
    import re
    if plan["query"] != 200:
        return FakeResponse(plan["query"], "")
    m = re.search(r"NORAD_CAT_ID/([^/]*)", url)
    asked = [int(x) for x in re.findall(r"\d+", m.group(1))] if m else []
    if not asked:
        asked = list(plan["configured"])
    sep = "\r\n" if plan["style"] % 4 == 1 else "\n"
    txt = ""
    for num in asked:
        if num in plan["catalogue"]:
            l1, l2 = plan["catalogue"][num]
            plan["served"].append(num)
            if plan["style"] % 2 == 0:
                txt += "SAT %d" % num + sep
            txt += l1 + sep + l2 + sep
    return FakeResponse(200, txt)


def run_many(ip, tlefile, n, style, login, query, tles):
    nums = many_numbers(n, style)
    cat = {num: many_entry(num) for num in nums if not many_unknown(num, style)}
    back = {e: num for num, e in cat.items()}
    ip.session_plan = {"login": login, "query": query, "catalogue": cat, "configured": nums, "style": style, "served": []}
    ip.calls = []
    cfg = {"platforms": {num: "SAT %d" % num for num in nums},
           "downloaders": {"fetch_spacetrack": {"user": "u", "password": "p"}}}
    try:
        r = tlefile.Downloader(cfg).fetch_spacetrack()
        got = ("list", [back.get((t.line1, t.line2), -1) for t in r])
    except Exception as e:  # noqa
        got = ("exc", type(e).__name__, str(e)[:200])
    return {"login": login, "query": query, "many": n, "style": style, "served": list(ip.session_plan["served"]),
            "got": got, "n_query": sum(1 for c in ip.calls if c[0] == "get"),
            "unexpected": [c for c in ip.calls if c[0] == "unexpected"][:2], "tles": tles}


def _spacetrack_many(ctx, ip, tlefile, tles):
    counts = list(MANY_COUNTS)
    if ctx.tier == "thorough" or ctx.intensified:
        counts += [3, 25, 99, 101, 150, 151, 200, 201, 256, 400] + [ctx.rng.randrange(1, 400) for _ in range(6)]
    out = []
    for n in counts:
        for style in range(4):
            for login in (200, 401):
                for query in (200, 500):
                    out.append(run_many(ip, tlefile, n, style, login, query, tles))
    return out


def judge_many(ctx, rec):
    got = rec["got"]
    case = {"login": rec["login"], "query": rec["query"], "many": rec["many"], "style": rec["style"], "spacetrack": True}
    if rec.get("tles") is not None:
        case["TLES"] = rec["tles"]
    if rec["login"] != 200:
        if list(got) != ["list", []]:
            ctx.violation("spacetrack_result", case, list(got), [], site="Downloader.fetch_spacetrack")
            return 1
        if rec["n_query"] != 0:
            ctx.violation("spacetrack_query_count", case, rec["n_query"], 0, site="Downloader.fetch_spacetrack")
            return 1
        return 0
    if rec["query"] != 200:
        if list(got) != ["list", []]:
            ctx.violation("spacetrack_result", case, list(got), [], site="Downloader.fetch_spacetrack")
            return 1
        return 0
    if got[0] != "list" or sorted(set(got[1])) != sorted(set(rec["served"])):
        obs = list(got) if got[0] != "list" else {"returned": len(got[1]), "catalogue numbers returned": got[1][:8],
                                                  "queries": rec["n_query"]}
        ctx.violation("spacetrack_result", case, obs,
                      {"all served entries": len(set(rec["served"])), "catalogue numbers served": sorted(set(rec["served"]))[:8],
                       "configured platforms": rec["many"]}, site="Downloader.fetch_spacetrack")
        return 1
    return 0


def _observe(ctx, max_total, obs):
    from pyorbital import tlefile
    max_env = ctx.size(4, 5)      # the whole table again for every TLES setting, up to this many URIs
    max_dup = ctx.size(4, 5)
    with TlesEnv() as tenv, Interposed() as ip:
        def run(sizes, kinds, order, slots, tles, family):
            if getattr(ip, "diverged", 0) >= 20:
                return      # results have grown beyond anything an assignment can serve (state leaking between calls): the
                            # cases observed so far carry the violation; going on would only take unbounded time and memory
            srcs = layout(sizes, kinds, order, slots)
            got = run_plain(ip, srcs)
            if got[0] == "dict" and any(len(ids) > 64 for _, ids in got[1]):
                ip.diverged = getattr(ip, "diverged", 0) + 1
            obs.append(((sizes, kinds, tuple(order), tuple(slots) if slots else None, tles), family, got))

        # (1) every assignment over every shape, TLES unset; URI names in / against / regardless of the configured order
        tenv.use(None)
        for sizes in shapes(max_total):
            n = sum(sizes)
            for kinds in itertools.product(KINDS, repeat=n):
                run(sizes, kinds, pick_order(ctx.rng, n), None, None, "table")
        # (2) one URI listed twice (within a source or in two sources), every assignment of the distinct URIs
        for sizes in shapes(max_dup):
            n = sum(sizes)
            for slots in dup_slots(n):
                for kinds in itertools.product(KINDS, repeat=n - 1):
                    run(sizes, kinds, pick_order(ctx.rng, n - 1), slots, None, "listed_twice")
        st = _spacetrack(ip, tlefile, None)
        stm = _spacetrack_many(ctx, ip, tlefile, None)
        # (3) the same experiments with the TLES variable set
        for tles in TLES_KINDS:
            tenv.use(tles)
            for sizes in shapes(max_env):
                n = sum(sizes)
                for kinds in itertools.product(KINDS, repeat=n):
                    run(sizes, kinds, pick_order(ctx.rng, n), None, tles, "table_TLES_" + tles)
            st += _spacetrack(ip, tlefile, tles)
            stm += _spacetrack_many(ctx, ip, tlefile, tles)
        tenv.use(None)
        # downloader not configured
        try:
            r = tlefile.Downloader({"downloaders": {}}).fetch_plain_tle()
            unconf = ("dict", [(s, len(v)) for s, v in r.items()]) if isinstance(r, dict) else ("other", repr(r))
        except Exception as e:  # noqa
            unconf = ("exc", type(e).__name__)
    ctx._c17_obs = {"plain": obs, "st": st, "st_many": stm, "unconf": unconf, "max_total": max_total, "max_env": max_env, "max_dup": max_dup}
    return ctx._c17_obs


def norm_impl(got, srcs):
    """Implementation outcome in the model's vocabulary."""
    if got[0] == "dict":
        return ("dict", got[1])
    if got[0] == "exc" and got[1] == "TleDownloadTimeoutError":
        hit = [("u%d" % i) for _, uris in srcs for (u, i, k) in uris if u in got[2]]
        # the message names the URI
        for _, uris in srcs:
            for (u, i, k) in uris:
                if ("to %s within" % u) in got[2]:
                    return ("timeout", "u%d" % i)
        return ("timeout", "?" + ",".join(hit))
    return got


def correspond(ctx):
    obs = observe(ctx)
    lines, meta = [], []
    for key, family, got in obs["plain"]:
        lines.append(model_line(layout(*key[:4])))
        meta.append((key, got))
    outs = ctx.driver().run_parallel(lines)
    for line, (key, got), o in zip(lines, meta, outs):
        srcs, tles = layout(*key[:4]), key[4]
        m = model_parse(o)
        g = norm_impl(got, srcs)
        ctx.count("eval_corr")
        ctx.bump("model_outcome", m[0])
        if tuple(g) != tuple(m):
            ctx.disagree("c17", dict(case_of(srcs, tles), driver=line), g, m)
    for rec in obs["st"]:
        body = rec["body"] if rec["body"] in ("-", "N") else ".".join(str(x) for x in rec["ids"])
        line = "c17st %d %d %s" % (rec["login"], rec["query"], body)
        o = ctx.driver().run([line])[0]
        ids, reqs = o.split(" ")
        mids = [] if ids == "-" else [int(x) for x in ids.split(".")]
        mreqs = reqs.split(",")
        got = rec["got"]
        greqs = ["login" if (c[0] == "post" and "login" in c[1]) else "query" if (c[0] == "get" and "query" in c[1]) else str(c)
                 for c in rec["calls"]]
        ctx.count("eval_corr_spacetrack")
        if got != ("list", mids) or greqs != mreqs:
            ctx.disagree("c17st", {"login": rec["login"], "query": rec["query"], "body": rec["body"], "TLES": rec.get("tles")},
                         [got, greqs], [mids, mreqs])
    ctx.exhaustive = True


def judge_plain(ctx, srcs, got, tles=None):
    want = statement(srcs)
    alt = also_accepted(srcs)
    case = case_of(srcs, tles)
    if want[0] == "timeout":
        if not (got[0] == "exc" and got[1] == "TleDownloadTimeoutError"):
            ctx.violation("timeout_not_loud", case, list(got), "TleDownloadTimeoutError raised", site="Downloader.fetch_plain_tle")
            return 1
        return 0
    if got[0] == "exc":
        kind = "body_shape_raises" if got[1] != "TleDownloadTimeoutError" else "spurious_timeout"
        ctx.violation(kind, case, list(got), {"dict": want[1]}, site="Downloader.fetch_plain_tle")
        return 1
    if got[0] != "dict":
        ctx.violation("not_a_dict", case, list(got), {"dict": want[1]}, site="Downloader.fetch_plain_tle")
        return 1
    have = dict(got[1])
    bad = 0
    for s, ids in want[1]:
        if s not in have:
            ctx.violation("source_missing", dict(case, source=s), [list(x) for x in got[1]], {"dict": want[1]}, site="Downloader.fetch_plain_tle")
            bad = 1
        elif have[s] != ids and not (s in alt and have[s] == alt[s]):
            ctx.violation("wrong_entries", dict(case, source=s), have[s], ids, site="Downloader.fetch_plain_tle")
            bad = 1
    if not bad and [s for s, _ in got[1]] != [s for s, _ in want[1]]:
        ctx.violation("wrong_keys", case, [s for s, _ in got[1]], [s for s, _ in want[1]], site="Downloader.fetch_plain_tle")
        bad = 1
    return bad


def judge_st(ctx, rec):
    got, calls = rec["got"], rec["calls"]
    case = {"login": rec["login"], "query": rec["query"], "body": rec["body"], "spacetrack": True}
    if rec.get("tles") is not None:
        case["TLES"] = rec["tles"]
    n_query = sum(1 for c in calls if c[0] == "get")
    if rec["login"] != 200:
        want, wq = [], 0
    elif rec["query"] != 200:
        want, wq = [], 1
    else:
        want, wq = rec["ids"], 1
    if got != ("list", want) and list(got) != ["list", want]:
        ctx.violation("spacetrack_result", case, list(got), want, site="Downloader.fetch_spacetrack")
        return 1
    if n_query != wq:
        ctx.violation("spacetrack_query_count", case, n_query, wq, site="Downloader.fetch_spacetrack")
        return 1
    return 0


def oracle(ctx):
    obs = observe(ctx)
    for key, family, got in obs["plain"]:
        srcs = layout(*key[:4])
        sizes, kinds = key[0], key[1]
        ctx.count("eval_oracle")
        ctx.distinct(key)
        judge_plain(ctx, srcs, got, key[4])
        ctx.bump("observed", got[0] if got[0] != "exc" else got[1])
        ctx.bump("family", family)
        if family == "table":
            for s, uris in srcs:
                names = [u for (u, _, _) in uris]
                if len(names) > 1:
                    ctx.bump("uri_names_of_a_source", "in configured order" if names == sorted(names) else
                             "in reverse order" if names == sorted(names, reverse=True) else "in neither order")
        if len(ctx.samples) < 4 and sum(sizes) == 4 and len(sizes) == 2 and "http" in kinds and "okN" in kinds and "to" not in kinds \
                and family == "table" and ctx.rng.random() < 0.05:
            ctx.sample({"assignment": case_of(srcs)["sources"], "result": got[1]})
    for rec in obs["st"]:
        ctx.count("eval_oracle_spacetrack")
        judge_st(ctx, rec)
    for rec in obs["st_many"]:
        ctx.count("eval_oracle_spacetrack_many")
        ctx.distinct(("spacetrack", rec["many"], rec["style"], rec["login"], rec["query"], rec.get("tles")))
        if rec["login"] == 200 and rec["query"] == 200:
            ctx.bump("spacetrack_platforms_configured", rec["many"])
        if len([v for v in ctx.violations if v["case"].get("many")]) < 8:
            judge_many(ctx, rec)
    if obs["unconf"] != ("dict", []):
        ctx.violation("unconfigured_not_empty", {"unconfigured": True}, list(obs["unconf"]), "{}", site="Downloader.fetch_plain_tle")
    ctx.exhaustive = True
    ctx.note("shapes: <= 3 sources, <= %d URIs in total; alphabet %s; the whole table again under TLES = %s for <= %d URIs; "
             "one URI listed twice for <= %d positions" % (obs["max_total"], KINDS, TLES_KINDS, obs["max_env"], obs["max_dup"]))


def match_known(entry, v):
    m = entry.get("match", {})
    return bool(m) and m.get("kind") == v.get("kind")


def replay(ctx, case):
    inp = case.get("input", case)
    tles = inp.get("TLES")
    with TlesEnv() as tenv, Interposed() as ip:
        if inp.get("spacetrack") and inp.get("many"):
            from pyorbital import tlefile
            import logging
            tenv.use(tles)
            logging.disable(logging.CRITICAL)
            try:
                rec = run_many(ip, tlefile, inp["many"], inp["style"], inp["login"], inp["query"], tles)
            finally:
                logging.disable(logging.NOTSET)
                tenv.use(None)
            print("spacetrack with %d configured platforms (style %d) login=%s query=%s TLES=%s -> %d queries, %d entries served, "
                  "returned %s" % (rec["many"], rec["style"], rec["login"], rec["query"], tles, rec["n_query"],
                                   len(rec["served"]), (len(rec["got"][1]) if rec["got"][0] == "list" else rec["got"])))
            rc = judge_many(ctx, rec)
            for v in ctx.violations[:2]:
                print("VIOLATES:", v["kind"], "observed:", v["observed"], "required:", v["required"])
            return 1 if rc else 0
        if inp.get("spacetrack"):
            obs = observe(ctx)
            rc = 0
            for rec in obs["st"]:
                if (rec["login"], rec["query"], rec["body"], rec.get("tles")) == (inp["login"], inp["query"], inp["body"], tles):
                    print("spacetrack login=%s query=%s body=%s TLES=%s -> %s, requests %s" % (
                        rec["login"], rec["query"], rec["body"], tles, rec["got"], rec["calls"]))
                    rc |= judge_st(ctx, rec)
            return 1 if rc else 0
        if inp.get("unconfigured"):
            obs = observe(ctx)
            print("unconfigured ->", obs["unconf"])
            return 0 if obs["unconf"] == ("dict", []) else 1
        srcs = [(s, [(u, i, k) for (u, i, k) in uris]) for s, uris in inp["sources"]]
        tenv.use(tles)
        import logging
        logging.disable(logging.CRITICAL)
        try:
            got = run_plain(ip, srcs)
        finally:
            logging.disable(logging.NOTSET)
    print("assignment:", json.dumps(inp["sources"]), "TLES:", tles or "unset")
    print("observed:", got)
    print("statement requires:", statement(srcs), also_accepted(srcs) or "")
    rc = judge_plain(ctx, srcs, got, tles)
    for v in ctx.violations[:3]:
        print("VIOLATES:", v["kind"], "observed:", v["observed"], "required:", v["required"])
    return 1 if rc else 0
