"""C12 — Julian dates and Greenwich sidereal time are exact."""
import contextlib
import datetime as dt
import decimal
import json
import math
import os
import subprocess
import sys
import time
import warnings
from fractions import Fraction

import numpy as np

import lib

ID = "C12"
LEAN_TARGETS = ["PV.Props.C12"]
# T-C tie (DESIGN 2.3): kernels traced from the current source are proved equal to the model over the reals
EQUIV = {'PV.Equiv.Astro': ['gmst_eq']}
EQUIV.update({'PV.Equiv.TranslatedTime': ['iso_j2000', 'j2000_minutes', 'time_jdays2000', 'jdays2000_of_dt2np', 'jdays2000_datetime', 'jdays2000_dt64', 'jdays2000_objarr', 'jdays2000_dtarr', 'jdays_of_jdays2000', 'tz_unaware_eq', 'tz_unaware_same_instant']})      # T-D
RULE = ("calendar: every civil day 1900-01-01..2100-12-31 (complete) model vs numpy day count and vs the Fliegel-Van Flandern "
        "JDN; instants: random UTC instants 1900-2100 incl. leap days, century years, year/day boundaries, sub-second, in "
        "every representation (datetime, datetime64[s|ms|us|ns], object arrays, arrays); jdays2000 compared bit-exactly, "
        "gmst at 1e-11; oracle: |jdays - exact civil JD| <= 1e-9 d (Fraction arithmetic), gmst in [0,2pi), "
        "|gmst - IAU-1982| <= 1e-7 rad (50-digit decimal arithmetic), daily advance; aware datetimes (UTC and offsets) also with "
        "the process in non-UTC time zones (TZ + tzset); fresh interpreters running call orders (date-only value first, "
        "instants first, arrays first, coarse units first) with every answer judged against the exact civil JD; "
        "structured time arrays: 0-d/1-D/2-D/3-D arrays of every datetime64 unit (ns with sub-microsecond digits, us, ms, s, "
        "m, h, D, W, M, Y) and object arrays (naive, aware, dates) in every shape of variation (random, sorted, reversed, "
        "shuffled, out-and-back with first == last, constant, one element different, rows/columns with equal ends, "
        "out-and-back rows, constant rows, constant rows but one element) and memory layout, plus a few arrays of more than "
        "65536 elements per run (65537 ... 2**20+1, sizes that are no multiple of a power of two, 1-D/2-D/3-D): EVERY element "
        "screened against an integer-tick reference and confirmed exactly (Fraction / 50-digit decimal), the head, the block "
        "boundaries and the tail judged exactly in any case; "
        "distinct = instant")
ASSUMPTIONS = ["UT1 = UTC (as the statement says)",
               "IEEE-754 rounding of the day division and of the GMST polynomial is measured (1e-9 d, 1e-7 rad), not proved",
               "numpy's datetime64 calendar is modelled by days_from_civil and compared on every day 1900-2100"]
TRUSTED = ["models PV.Model.Time (integer ticks, calendar) and PV.Model.Astro.gmst", "spec PV.Spec.Iau82"]
LEVEL_TEXT = ("Theorems: days-from-civil + 2440588 equals the Fliegel-Van Flandern Julian day number for every civil date (no "
              "year bound), hence the exact-rational Julian date of the model is the civil Julian date; J2000 offset; day-count "
              "differences are elapsed time; GMST lies in [0, 2pi); the coded cubic equals the IAU-1982 polynomial plus "
              "5.58e-5 T^3 s (source literal 6.2*10e-6), below 4.1e-9 rad for |T| <= 1; daily rate 1.00273790935 rev/day. "
              "Tie: calendar model vs numpy on all 73 414 days (exhaustive), jdays2000 bit-exact on sampled instants in "
              "every representation, gmst at 1e-11. Float tolerances are measured.")
LEVEL_NOTE = ("Trusted: Lean kernel + Mathlib reals (propext, Classical.choice, Quot.sound); hand-written models and the "
              "correspondence harness; numpy's datetime64 arithmetic outside the compared range; binary64 rounding not modelled.")
TECHNIQUE = "Lean 4 proof (integer calendar identity by case split + omega; polynomial identities/bounds over R) + exhaustive calendar correspondence + bit-exact jdays correspondence"

EPOCH70 = dt.datetime(1970, 1, 1)
TWO_PI_DEC = decimal.Decimal("6.283185307179586476925286766559005768394338798750211641949889")


def jdn_fvf(y, m, d):
    a = (14 - m) // 12
    yy = y + 4800 - a
    mm = m + 12 * a - 3
    return d + (153 * mm + 2) // 5 + 365 * yy + yy // 4 - yy // 100 + yy // 400 - 32045


def exact_jd(t):
    """Civil-calendar Julian date of a naive datetime as an exact Fraction (independent integer algorithm)."""
    secs = Fraction(t.hour * 3600 + t.minute * 60 + t.second) + Fraction(t.microsecond, 10 ** 6)
    return Fraction(jdn_fvf(t.year, t.month, t.day)) - Fraction(1, 2) + secs / 86400


def iau82_gmst(jd_frac):
    """IAU-1982 GMST (radians, reduced to [0, 2pi)) with 60-digit decimal arithmetic."""
    decimal.getcontext().prec = 60
    T = (decimal.Decimal(jd_frac.numerator) / decimal.Decimal(jd_frac.denominator) - decimal.Decimal("2451545.0")) / decimal.Decimal(36525)
    th = (decimal.Decimal("67310.54841") + (decimal.Decimal(876600) * 3600 + decimal.Decimal("8640184.812866")) * T
          + decimal.Decimal("0.093104") * T * T - decimal.Decimal("6.2e-6") * T * T * T)
    rad = th / 240 * TWO_PI_DEC / 360
    r = rad % TWO_PI_DEC
    if r < 0:
        r += TWO_PI_DEC
    return r


def gen_instants(ctx, n):
    r = ctx.rng
    out = []
    specials = [dt.datetime(1900, 1, 1), dt.datetime(1900, 2, 28, 23, 59, 59, 999999), dt.datetime(1900, 3, 1),
                dt.datetime(2000, 2, 29, 12), dt.datetime(2000, 1, 1, 12), dt.datetime(2100, 2, 28, 23, 59, 59),
                dt.datetime(2100, 3, 1), dt.datetime(2100, 12, 31, 23, 59, 59, 999999), dt.datetime(1999, 12, 31, 23, 59, 59, 999999),
                dt.datetime(2024, 2, 29), dt.datetime(1970, 1, 1), dt.datetime(1969, 12, 31, 23, 59, 59, 1),
                dt.datetime(2009, 10, 8, 14, 30), dt.datetime(2038, 1, 19, 3, 14, 8)]
    out += specials
    lo = int((dt.datetime(1900, 1, 1) - EPOCH70).total_seconds())
    hi = int((dt.datetime(2101, 1, 1) - EPOCH70).total_seconds())
    while len(out) < n:
        s = r.randrange(lo, hi)
        k = r.random()
        us = 0 if k < 0.2 else r.randrange(10 ** 6)
        if k > 0.9:
            s = s - s % 86400 + r.choice([0, 86399, 43200])
        out.append(EPOCH70 + dt.timedelta(seconds=s, microseconds=us))
    return out


def us_of(t):
    d = t - EPOCH70
    return (d.days * 86400 + d.seconds) * 10 ** 6 + d.microseconds


# ---------------------------------------------------------------- time representations
# POSIX rule strings (no tz database needed): the zone of the PROCESS must not matter for any representation
ZONES = ["CET-1CEST,M3.5.0,M10.5.0/3", "PST8PDT,M3.2.0,M11.1.0", "IST-5:30", "AEST-10AEDT,M10.1.0,M4.1.0/3", "NPT-5:45", "<-03>3"]
OFFSETS = [60, -480, 330, 0, 765, -210]            # minutes east of Greenwich for aware spellings
TICK_US = {"dt64ns": None, "dt64us": 1, "dt64ms": 10 ** 3, "dt64s": 10 ** 6, "dt64m": 60 * 10 ** 6, "dt64h": 3600 * 10 ** 6,
           "dt64D": 86400 * 10 ** 6, "dt64W": 7 * 86400 * 10 ** 6}
DATE_KINDS = ("date", "dt64D", "dt64W", "dt64M", "dt64Y")
INSTANT_KINDS = ("datetime", "aware", "dt64us", "dt64ns", "dt64ms", "dt64s")
ARRAY_KINDS = ("arr_us", "arr_ns", "arr_obj", "arr_aware", "arr_s", "arr_D", "arr_date")
COARSE_KINDS = ("dt64m", "dt64h")


def canon(kind, t):
    """The instant (naive UTC datetime) that the representation `kind` made from t denotes: t itself where the representation
    can hold it, else the start of the second / minute / hour / day / week / month / year that numpy's datetime64 of that
    unit stands for (a calendar date is midnight UTC of that day)."""
    if kind in ("date", "arr_date", "arr_D"):
        kind = "dt64D"
    if kind == "arr_s":
        kind = "dt64s"
    if kind == "dt64M":
        return dt.datetime(t.year, t.month, 1)
    if kind == "dt64Y":
        return dt.datetime(t.year, 1, 1)
    q = TICK_US.get(kind)
    if not q:
        return t
    us = us_of(t)
    return EPOCH70 + dt.timedelta(microseconds=us - us % q)


def make_value(kind, t, off_min=0):
    """The time representation `kind` of canon(kind, t)."""
    t = canon(kind, t)
    us = us_of(t)
    if kind == "datetime":
        return t
    if kind in ("aware", "arr_aware"):
        a = t.replace(tzinfo=dt.timezone.utc).astimezone(dt.timezone(dt.timedelta(minutes=off_min)))
        return a if kind == "aware" else np.array([a], dtype=object)
    if kind == "date":
        return t.date()
    if kind == "dt64ns":
        return np.datetime64(us * 1000, "ns")
    if kind == "dt64M":
        return np.datetime64((t.year - 1970) * 12 + t.month - 1, "M")
    if kind == "dt64Y":
        return np.datetime64(t.year - 1970, "Y")
    if kind in TICK_US:
        return np.datetime64(us // TICK_US[kind], kind[4:])
    if kind == "arr_us":
        return np.array([np.datetime64(us, "us")])
    if kind == "arr_ns":
        return np.array([np.datetime64(us * 1000, "ns")])
    if kind == "arr_s":
        return np.array([np.datetime64(us // 10 ** 6, "s")])
    if kind == "arr_D":
        return np.array([np.datetime64(us // (86400 * 10 ** 6), "D")])
    if kind == "arr_obj":
        return np.array([t], dtype=object)
    if kind == "arr_date":
        return np.array([t.date()], dtype=object)
    raise ValueError(kind)


def evaluate(val, fns=("jdays", "jdays2000", "gmst")):
    """The three observables for one time value: {function: float} or {function: 'EXC ...'}."""
    from pyorbital import astronomy
    out = {}
    for f in fns:
        try:
            with warnings.catch_warnings():
                warnings.simplefilter("ignore")      # numpy warns that datetime64 has no time zone (it converts to UTC)
                out[f] = float(np.atleast_1d(getattr(astronomy, f)(val))[0])
        except Exception as e:  # noqa
            out[f] = "EXC %s: %s" % (type(e).__name__, e)
    return out


def judge(vals, t_true):
    """The absolute clauses of the statement for the instant t_true: list of (function, observed, required)."""
    return judge_ex(vals, exact_jd(t_true), t_true.isoformat())


def judge_ex(vals, ex, label):
    """The absolute clauses for the instant whose exact civil Julian date is the Fraction ex (label: its ISO spelling)."""
    bad = []
    for f, v in vals.items():
        if not isinstance(v, float) or math.isnan(v) or math.isinf(v):
            bad.append((f, v, "a finite value for the instant %s" % label))
        elif f == "jdays":
            if abs(Fraction(v) - ex) > Fraction(1, 10 ** 9):
                bad.append((f, v, "civil JD %r of %s within 1e-9 d" % (float(ex), label)))
        elif f == "jdays2000":
            if abs(Fraction(v) - (ex - 2451545)) > Fraction(1, 10 ** 9):
                bad.append((f, v, "civil JD - 2451545.0 = %r of %s within 1e-9 d" % (float(ex - 2451545), label)))
        elif f == "gmst":
            ref = iau82_gmst(ex)
            dg = abs(decimal.Decimal(v) - ref)
            dg = min(dg, TWO_PI_DEC - dg)
            if not (0.0 <= v < 2 * math.pi):
                bad.append((f, v, "[0, 2pi)"))
            elif dg > decimal.Decimal("1e-7"):
                bad.append((f, v, "IAU-1982 GMST %r of %s within 1e-7 rad" % (float(ref), label)))
    return bad


@contextlib.contextmanager
def process_tz(tz):
    """Run a block with the process' local time zone set to the POSIX rule string tz (None: leave it as it is)."""
    if tz is None:
        yield
        return
    old = os.environ.get("TZ")
    os.environ["TZ"] = tz
    time.tzset()
    try:
        yield
    finally:
        if old is None:
            os.environ.pop("TZ", None)
        else:
            os.environ["TZ"] = old
        time.tzset()


def repr_probe(ctx, t, kind, off_min, tz):
    """One instant in one representation, evaluated with the process in zone tz: violations of the absolute clauses."""
    with process_tz(tz):
        vals = evaluate(make_value(kind, t, off_min))
    return judge(vals, canon(kind, t))


# ---------------------------------------------------------------- call orders in a fresh interpreter
CHILD = r"""
import json, sys
spec = json.load(sys.stdin)
sys.path.insert(0, spec["harness"])
import lib                      # puts the code under test (PV_REPO) first on sys.path
import datetime as dt
from props import c12
out = []
for kind, iso, off in spec["order"]:
    v = c12.evaluate(c12.make_value(kind, dt.datetime.fromisoformat(iso), off))
    out.append({f: (lib.f2h(x) if isinstance(x, float) else x) for f, x in v.items()})
import pyorbital
print(json.dumps({"pyorbital": pyorbital.__file__, "out": out}))
"""


def run_order(order, tz):
    """Evaluate the steps [(kind, iso, off_min)] in this order in a FRESH interpreter (its first time conversion is the first step),
    optionally with the process zone tz.  Returns [{function: float | 'EXC ...'}] per step."""
    env = dict(os.environ, PV_REPO=lib.REPO)
    if tz is not None:
        env["TZ"] = tz
    spec = {"harness": os.path.dirname(os.path.dirname(os.path.abspath(__file__))), "order": order}
    p = subprocess.run([sys.executable, "-c", CHILD], input=json.dumps(spec).encode(), env=env, stdout=subprocess.PIPE,
                       stderr=subprocess.PIPE, timeout=300)
    if p.returncode != 0:
        raise RuntimeError("child interpreter failed: " + p.stderr.decode(errors="replace")[-800:])
    res = json.loads(p.stdout.decode().strip().split("\n")[-1])
    return [{f: (lib.h2f(x) if not x.startswith("EXC") else x) for f, x in step.items()} for step in res["out"]]


def judge_order(order, tz):
    """[(index, function, observed, required)] for every answer of the sequence that breaks an absolute clause."""
    bad = []
    for i, (step, vals) in enumerate(zip(order, run_order(order, tz))):
        for f, v, req in judge(vals, canon(step[0], dt.datetime.fromisoformat(step[1]))):
            bad.append((i, f, v, req))
    return bad


def gen_orders(ctx, inst):
    """Call orders for fresh interpreters: which representation the process converts FIRST must not matter."""
    r = ctx.rng

    inst = [t for t in inst if t >= dt.datetime(1900, 1, 8)]      # the week holding the instant starts inside 1900-2100

    def steps(kinds):
        return [[k, r.choice(inst).isoformat(), r.choice(OFFSETS)] for k in kinds]

    def mixed(n):
        return [r.choice(INSTANT_KINDS + ARRAY_KINDS + DATE_KINDS + COARSE_KINDS) for _ in range(n)]
    orders = []
    for rep in range(ctx.size(1, 6)):
        for first in DATE_KINDS:                                   # date-only value first, then ordinary instants in every representation
            orders.append(("date_first:" + first, steps((first,) + INSTANT_KINDS + ARRAY_KINDS + DATE_KINDS + COARSE_KINDS), None))
        orders.append(("instants_first", steps(INSTANT_KINDS + DATE_KINDS + ARRAY_KINDS + COARSE_KINDS), None))
        orders.append(("arrays_first", steps(ARRAY_KINDS[:3] + DATE_KINDS + INSTANT_KINDS + ARRAY_KINDS[3:]), None))
        for first in ("arr_D", "arr_date") + COARSE_KINDS + ("dt64s",):
            orders.append(("coarse_first:" + first, steps((first,) + INSTANT_KINDS + DATE_KINDS), None))
        orders.append(("aware_first", steps(("aware", "arr_aware", "datetime") + DATE_KINDS + INSTANT_KINDS), r.choice(ZONES)))
        orders.append(("random", steps(mixed(14)), r.choice([None] + ZONES)))
    return orders


def correspond(ctx):
    from pyorbital import astronomy
    drv = ctx.driver()
    # (1) complete calendar 1900..2100
    d0 = dt.date(1900, 1, 1)
    ndays = (dt.date(2100, 12, 31) - d0).days + 1
    days = [d0 + dt.timedelta(days=i) for i in range(ndays)]
    outs = drv.run_parallel(["civil %d %d %d" % (d.year, d.month, d.day) for d in days])
    npdays = np.array([np.datetime64(d.isoformat()) for d in days]).astype("datetime64[D]").astype(np.int64)
    for d, o, nd in zip(days, outs, npdays):
        a, b = o.split()
        ctx.count("eval_corr_calendar")
        if int(a) != int(nd) or int(b) != jdn_fvf(d.year, d.month, d.day) or int(a) + 2440588 != int(b):
            ctx.disagree("civil", {"date": d.isoformat()}, [int(nd), jdn_fvf(d.year, d.month, d.day)], [int(a), int(b)])
    ctx.exhaustive = True
    ctx.note("calendar correspondence complete over %d days" % ndays)
    # (2) instants in every representation: jdays2000 bit-exact, gmst close
    n = ctx.size(1500, 60000)
    inst = gen_instants(ctx, n)
    lines, exp = [], []
    for t in inst:
        us = us_of(t)
        reps = [("us", us, t), ("us", us, np.datetime64(us, "us")), ("ms", us // 1000, np.datetime64(us // 1000, "ms")),
                ("s", us // 10 ** 6, np.datetime64(us // 10 ** 6, "s")), ("ns", us * 1000 + 7, np.datetime64(us * 1000 + 7, "ns"))]
        for unit, ticks, val in reps:
            lines.append("jd %s %d" % (unit, ticks))
            exp.append(("jd", unit, ticks, float(astronomy.jdays2000(val))))
        d = float(astronomy.jdays2000(t))
        lines.append("gmst " + lib.f2h(d))
        exp.append(("gmst", t, d, (float(astronomy.gmst(t)), float(astronomy.jdays(t)))))
        ctx.distinct(us)
    outs = drv.run_parallel(lines)
    for e, o in zip(exp, outs):
        if e[0] == "jd":
            ctx.count("eval_corr_jd")
            ctx.bump("unit", e[1])
            mv = lib.h2f(o)
            if mv != e[3]:
                ctx.disagree("jd", {"unit": e[1], "ticks": e[2]}, e[3], mv)
        else:
            ctx.count("eval_corr_gmst")
            vals = [lib.h2f(x) for x in o.split()]
            if not lib.angle_close(vals[0], e[3][0], 1e-11) or vals[2] != e[3][1]:
                ctx.disagree("gmst", {"t": str(e[1]), "d": e[2]}, list(e[3]), [vals[0], vals[2]])
    ctx.sample({"instant": str(inst[0]), "us": us_of(inst[0])})
    ctx.sample({"instant": str(inst[-1]), "us": us_of(inst[-1])})
    # arrays: dt2np converts arrays to datetime64[ns]; the model's ns reading must reproduce them bit for bit
    sel = inst[:300]
    arr = np.array([np.datetime64(us_of(t), "us") for t in sel])
    got = astronomy.jdays2000(arr)
    obj = astronomy.jdays2000(np.array(sel, dtype=object))
    mod = [lib.h2f(o) for o in drv.run(["jd ns %d" % (us_of(t) * 1000) for t in sel])]
    for t, g, ob, m in zip(sel, got, obj, mod):
        ctx.count("eval_corr_array")
        if float(g) != m or float(ob) != m:
            ctx.disagree("jd-array", {"t": str(t)}, [float(g), float(ob)], m)


def oracle(ctx):
    from pyorbital import astronomy
    n = ctx.size(1200, 40000)
    inst = gen_instants(ctx, n)
    worst_jd = 0.0
    worst_g = 0.0
    prev = None
    for t in inst:
        ctx.count("eval_oracle")
        case = {"utc": t.isoformat()}
        jd = astronomy.jdays(t)
        ex = exact_jd(t)
        err = abs(Fraction(float(jd)) - ex)
        worst_jd = max(worst_jd, float(err))
        if err > Fraction(1, 10 ** 9):
            ctx.violation("jdays", case, float(jd), "civil JD %s within 1e-9 d" % float(ex), site="astronomy.jdays")
        j2 = astronomy.jdays2000(t)
        if abs(Fraction(float(j2)) - (ex - Fraction(2451545))) > Fraction(1, 10 ** 9):
            ctx.violation("jdays2000", case, float(j2), "jdays - 2451545.0 within 1e-9 d", site="astronomy.jdays2000")
        g = float(astronomy.gmst(t))
        if not (0.0 <= g < 2 * math.pi):
            ctx.violation("gmst_range", case, g, "[0, 2pi)", site="astronomy.gmst")
        ref = iau82_gmst(ex)
        dg = abs(decimal.Decimal(g) - ref)
        dg = min(dg, TWO_PI_DEC - dg)
        worst_g = max(worst_g, float(dg))
        if dg > decimal.Decimal("1e-7"):
            ctx.violation("gmst_iau82", case, g, "IAU-1982 GMST %s within 1e-7 rad" % float(ref), site="astronomy.gmst")
        # differences of day counts = elapsed time; daily advance of GMST
        t2 = t + dt.timedelta(days=1)
        if t2.year <= 2100:
            d1 = float(astronomy.jdays2000(t2)) - float(j2)
            if abs(d1 - 1.0) > 2e-9:
                ctx.violation("day_difference", case, d1, "1 day within 2e-9", site="astronomy.jdays2000")
            adv = (float(astronomy.gmst(t2)) - g) % (2 * math.pi)
            want = (2 * math.pi * 1.00273790935) % (2 * math.pi)
            dd = abs(adv - want)
            dd = min(dd, 2 * math.pi - dd)
            if dd > 1e-7:
                ctx.violation("gmst_rate", case, adv, "2pi*1.00273790935 mod 2pi = %r within 1e-7" % want, site="astronomy.gmst")
        if prev is not None:
            el = Fraction(us_of(t) - us_of(prev), 86400 * 10 ** 6)
            dj = Fraction(float(astronomy.jdays2000(t))) - Fraction(float(astronomy.jdays2000(prev)))
            if abs(dj - el) > Fraction(2, 10 ** 9):
                ctx.violation("elapsed", {"a": prev.isoformat(), "b": t.isoformat()}, float(dj), float(el), site="astronomy.jdays2000")
        prev = t
    # every representation gives the same instant's value to 1e-9 d
    for t in inst[:300]:
        us = us_of(t)
        ref = float(astronomy.jdays(t))
        off = ctx.rng.choice(OFFSETS)      # minutes: the same instant spelled in another UTC offset
        for kind, o in (("dt64us", 0), ("dt64ns", 0), ("arr_obj", 0), ("arr_us", 0), ("aware", 0), ("aware", off), ("arr_aware", off)):
            ctx.count("eval_oracle_repr")
            val = make_value(kind, t, o)
            with warnings.catch_warnings():
                warnings.simplefilter("ignore")      # numpy warns that datetime64 has no time zone (it converts to UTC)
                got = np.atleast_1d(astronomy.jdays(val))[0]
            if abs(float(got) - ref) > 1e-9:
                ctx.violation("representation", {"utc": t.isoformat(), "repr": kind, "offset_min": o, "tz": None},
                              float(got), ref, site="astronomy.jdays")
    # ... whatever the local time zone of the process is: aware datetimes name their own offset, naive ones and datetime64 are UTC
    for i, t in enumerate(inst[:ctx.size(300, 3000)]):
        tz = ZONES[i % len(ZONES)]
        off = ctx.rng.choice(OFFSETS)
        for kind, o in (("aware", 0), ("aware", off), ("arr_aware", off), ("datetime", 0), ("dt64us", 0)):
            ctx.count("eval_oracle_repr_tz")
            ctx.bump("process_tz", tz)
            for f, v, req in repr_probe(ctx, t, kind, o, tz):
                ctx.violation("representation", {"utc": t.isoformat(), "repr": kind, "offset_min": o, "tz": tz, "function": f},
                              v, req + " (process time zone %s)" % tz, site="astronomy." + f)
    # structured time arrays of every shape, unit and shape of variation; a few arrays of more than 65536 elements
    array_oracle(ctx)
    # fresh interpreters: the representation that the process converts first must not matter for any later (or that) answer
    for name, order, tz in gen_orders(ctx, inst):
        ctx.bump("call_order", name.split(":")[0])
        bad = judge_order(order, tz)
        ctx.count("eval_oracle_order", 3 * len(order))
        for i, f, v, req in bad[:3]:
            ctx.violation("call_order", {"order": order, "tz": tz, "family": name, "index": i, "function": f}, v,
                          req + " (step %d, %s, of a fresh interpreter)" % (i, order[i][0]), site="astronomy." + f)
    ctx.note("worst |jdays - civil JD| = %.3g d; worst |gmst - IAU82| = %.3g rad" % (worst_jd, worst_g))
    # arrays of instants that are advanced IN PLACE between calls: every call answers for the instants the array holds now
    for t in inst[:ctx.size(60, 600)]:
        ctx.bump("inplace_probe", inplace_probe(ctx, t, ctx.rng.choice([86400.0, 3600.0, 0.25, 366 * 86400.0])))


def inplace_probe(ctx, t, step_s):
    from pyorbital import astronomy
    us = us_of(t)
    unit = "us" if (step_s * 1e6) % 1000 else "ns"
    arr = np.array([np.datetime64(us, "us"), np.datetime64(us + 12345678, "us")]).astype("datetime64[%s]" % unit)
    step = np.timedelta64(int(round(step_s * 1e6)), "us")
    for rnd in range(3):
        got = {"jdays": np.array(astronomy.jdays(arr), dtype=float), "jdays2000": np.array(astronomy.jdays2000(arr), dtype=float),
               "gmst": np.array(astronomy.gmst(arr), dtype=float)}
        for i in range(len(arr)):
            ctx.count("eval_oracle_inplace")
            ti = arr[i].astype("datetime64[us]").astype(object)
            ex = exact_jd(ti)
            ref_g = iau82_gmst(ex)
            dg = abs(decimal.Decimal(float(got["gmst"][i])) - ref_g)
            dg = min(dg, TWO_PI_DEC - dg)
            bad = None
            if abs(Fraction(float(got["jdays"][i])) - ex) > Fraction(1, 10 ** 9):
                bad = ("jdays", float(got["jdays"][i]), float(ex))
            elif abs(Fraction(float(got["jdays2000"][i])) - (ex - 2451545)) > Fraction(1, 10 ** 9):
                bad = ("jdays2000", float(got["jdays2000"][i]), float(ex - 2451545))
            elif dg > decimal.Decimal("1e-7"):
                bad = ("gmst", float(got["gmst"][i]), float(ref_g))
            if bad:
                ctx.violation("stale_after_inplace_update", {"utc": t.isoformat(), "step_s": step_s, "round": rnd, "index": i,
                                                            "function": bad[0]}, bad[1],
                              "%s of the instant the array holds now (%s): %r" % (bad[0], ti.isoformat(), bad[2]), site="astronomy." + bad[0])
                return "violated"
        arr += step
    return "ok"


# ---------------------------------------------------------------- structured time arrays (small: every element exactly; large:
# every element screened against an integer-tick reference, head / block boundaries / tail exactly)
DAY_NS = 86400 * 10 ** 9
LO_NS = -2208988800 * 10 ** 9            # 1900-01-01T00:00 in ns since 1970 (own arithmetic: 25567 days before 1970-01-01)
HI_NS = 4133980800 * 10 ** 9             # 2101-01-01T00:00 (exclusive)
J2000_NS = 946728000 * 10 ** 9           # 2000-01-01T12:00
UNIT_NS = {"ns": 1, "us": 10 ** 3, "ms": 10 ** 6, "s": 10 ** 9, "m": 60 * 10 ** 9, "h": 3600 * 10 ** 9, "D": DAY_NS, "W": 7 * DAY_NS}
ARR_UNITS = ("ns", "ns", "ns", "us", "us", "ms", "s", "m", "h", "D", "W", "M", "Y", "obj", "obj_aware", "obj_date")
LARGE_UNITS = ("ns", "ns", "ns", "us", "us", "ms", "s", "m", "h", "D")
FLAT_PATTERNS = ("random", "sorted", "reversed", "shuffled", "out_and_back", "ends_equal_shuffled", "constant", "one_different")
ROW_PATTERNS = ("rows_equal_ends", "rows_out_and_back", "rows_constant", "rows_constant_but_one", "cols_equal_ends",
                "rows_equal_ends_same")
ARR_LAYOUTS = ("C", "C", "F", "T", "strided", "reversed")
LARGE_SIZES = (65537, 100003, 131073, 262145, 300001, 2 ** 20 + 1, 65536 + 65535, 3 * 65536 + 1, 196613)
MAX_REPORT = 3


def _tick_range(unit):
    """[lo, hi) of the tick counts of `unit` whose instant (the START of the tick) lies in 1900-01-01 .. 2100-12-31."""
    if unit == "M":
        return (1900 - 1970) * 12, (2101 - 1970) * 12
    if unit == "Y":
        return 1900 - 1970, 2101 - 1970
    q = UNIT_NS[unit]
    return -((-LO_NS) // q), -((-HI_NS) // q)          # ceil(LO/q), ceil(HI/q)


def _ticks_to_ns(ticks, unit):
    """True instants (ns since 1970-01-01, int64) of tick counts: linear units by multiplication, months / years by the
    civil calendar of Python's datetime (not numpy's)."""
    if unit in UNIT_NS:
        return ticks.astype(np.int64) * UNIT_NS[unit]
    out = np.empty(ticks.shape, dtype=np.int64)
    fl, of = ticks.reshape(-1), out.reshape(-1)
    for i, k in enumerate(fl.tolist()):
        t = dt.datetime(1970 + k // 12, k % 12 + 1, 1) if unit == "M" else dt.datetime(1970 + k, 1, 1)
        of[i] = us_of(t) * 1000
    return out


def _pattern_ticks(g, shape, pattern, lo, hi, span):
    """int64 tick counts of the given shape in [lo, hi) varying in the way called `pattern` (g: numpy Generator)."""
    n_all = int(np.prod(shape)) if shape else 1
    span = int(max(1, min(span, hi - lo - 1)))
    base = int(g.integers(lo, hi - span))

    def offs(size):
        return g.integers(0, span + 1, size=size).astype(np.int64)

    def nonzero(size=None):
        return g.integers(1, span + 1, size=size).astype(np.int64)
    if pattern in ROW_PATTERNS and len(shape) >= 2:
        if pattern == "cols_equal_ends" and len(shape) == 2:
            return np.ascontiguousarray(_pattern_ticks(g, (shape[1], shape[0]), "rows_equal_ends", lo, hi, span).T)
        n = shape[-1]
        rows = n_all // n
        rbase = g.integers(lo, hi - span, size=(rows, 1)).astype(np.int64)
        if pattern == "rows_equal_ends_same":
            rbase = np.full((rows, 1), base, dtype=np.int64)
        o = offs((rows, n))
        if pattern in ("rows_constant", "rows_constant_but_one"):
            o[...] = 0
            if pattern == "rows_constant_but_one":
                c = [n // 2, n - 1, 0, int(g.integers(0, n))][int(g.integers(0, 4))]
                o[int(g.integers(0, rows)), c] = nonzero()
        else:
            if pattern == "rows_out_and_back":
                h = n // 2
                o[:, :h] = np.sort(o[:, :h], axis=1)
                o[:, h:] = -np.sort(-o[:, h:], axis=1)
            o[:, 0] = 0
            o[:, -1] = 0
            if n >= 3:
                o[:, n // 2] = np.maximum(o[:, n // 2], 1)
        return (rbase + o).reshape(shape)
    if pattern in ROW_PATTERNS:
        pattern = "out_and_back"
    if pattern == "random":
        flat = g.integers(lo, hi, size=n_all).astype(np.int64)
    elif pattern == "sorted":
        flat = base + np.sort(offs(n_all))
    elif pattern == "reversed":
        flat = base + np.sort(offs(n_all))[::-1]
    elif pattern == "shuffled":
        flat = base + offs(n_all)
    elif pattern in ("out_and_back", "ends_equal_shuffled"):
        o = offs(n_all)
        if pattern == "out_and_back":
            h = n_all // 2
            o[:h] = np.sort(o[:h])
            o[h:] = -np.sort(-o[h:])
        o[0] = 0
        o[-1] = 0
        if n_all >= 3:
            o[n_all // 2] = max(int(o[n_all // 2]), 1)
        flat = base + o
    elif pattern == "constant":
        flat = np.full(n_all, base, dtype=np.int64)
    elif pattern == "one_different":
        flat = np.full(n_all, base, dtype=np.int64)
        idx = [n_all - 1, 0, n_all // 2, int(g.integers(0, n_all))][int(g.integers(0, 4))]
        flat[idx] += nonzero()
    else:
        raise ValueError("unknown pattern " + str(pattern))
    return np.ascontiguousarray(flat, dtype=np.int64).reshape(shape)


def _arr_layout(x, name, fill):
    """x with the same shape and values in another memory layout (gaps of strided buffers hold `fill`)."""
    if x.ndim == 0 or name == "C":
        return x
    if name == "F":
        return np.asfortranarray(x)
    if name == "T":
        return np.ascontiguousarray(x.T).T
    if name == "reversed":
        return np.ascontiguousarray(x[..., ::-1])[..., ::-1]
    if name == "strided":
        big = np.empty(x.shape[:-1] + (2 * x.shape[-1] + 1,), dtype=x.dtype)
        big[...] = fill
        view = big[..., 1::2]
        view[...] = x
        return view
    raise ValueError("unknown layout " + str(name))


def build_array(spec):
    """(the time value handed to pyorbital, the true instants as int64 ns since 1970 of the same shape) of an array recipe
    {seed, shape, unit, pattern, span, layout}: deterministic in the recipe."""
    g = np.random.default_rng(int(spec["seed"]))
    shape = tuple(int(x) for x in spec["shape"])
    unit = spec["unit"]
    tick_unit = {"obj": "us", "obj_aware": "us", "obj_date": "D"}.get(unit, unit)
    lo, hi = _tick_range(tick_unit)
    ticks = _pattern_ticks(g, shape, spec["pattern"], lo, hi, int(spec["span"]))
    true_ns = _ticks_to_ns(ticks, tick_unit)
    if unit in ("obj", "obj_aware", "obj_date"):
        val = np.empty(shape, dtype=object)
        fl = val.reshape(-1)
        offs = g.integers(0, len(OFFSETS), size=fl.size)
        for i, k in enumerate(ticks.reshape(-1).tolist()):
            if unit == "obj_date":
                fl[i] = (EPOCH70 + dt.timedelta(days=k)).date()
            else:
                t = EPOCH70 + dt.timedelta(microseconds=k)
                if unit == "obj_aware":
                    t = t.replace(tzinfo=dt.timezone.utc).astimezone(dt.timezone(dt.timedelta(minutes=OFFSETS[int(offs[i])])))
                fl[i] = t
        fill = fl[0]
    else:
        val = ticks.astype("datetime64[%s]" % unit)
        fill = np.datetime64("NaT")
    layout = spec.get("layout", "C")
    if layout == "scalar":
        if shape != ():
            raise ValueError("scalar layout needs shape ()")
        val = val[()]
    else:
        val = _arr_layout(val, layout, fill)
    got_ticks = np.asarray(val).astype("datetime64[%s]" % tick_unit).astype(np.int64) if unit not in ("obj", "obj_aware", "obj_date") else None
    if got_ticks is not None and not (np.shape(val) == shape and np.array_equal(got_ticks, ticks)):
        raise RuntimeError("array recipe did not produce the intended values")
    return val, true_ns


def exact_jd_ns(ns):
    """(exact civil Julian date as a Fraction, ISO spelling) of the instant ns nanoseconds after 1970-01-01T00:00 UTC."""
    us, sub = divmod(int(ns), 1000)
    t = EPOCH70 + dt.timedelta(microseconds=us)
    label = t.strftime("%Y-%m-%dT%H:%M:%S") + ".%06d%03d" % (t.microsecond, sub)
    return exact_jd(t) + Fraction(sub, DAY_NS), label


def _call(f, val):
    from pyorbital import astronomy
    try:
        with warnings.catch_warnings():
            warnings.simplefilter("ignore")          # numpy warns that datetime64 has no time zone (it converts to UTC)
            return getattr(astronomy, f)(val)
    except Exception as e:  # noqa
        return "EXC %s: %s" % (type(e).__name__, str(e)[:200])


def _sample_indices(n_all, shape, g):
    """Flat indices judged exactly whatever the screening says: head, tail, power-of-two block boundaries, row ends, random."""
    if n_all <= 64:
        return list(range(n_all))
    idx = {0, 1, n_all - 1, n_all - 2, n_all - 3, n_all // 2}
    for blk in (1 << 12, 1 << 16, 1 << 18, 1 << 20):
        if n_all > blk:
            last = (n_all // blk) * blk
            idx |= {blk - 1, blk, last - 1, last, min(last + 1, n_all - 1), (last + n_all) // 2}
    if len(shape) >= 2:
        n = shape[-1]
        idx |= {n - 1, n, n // 2, n_all - n, n_all - n // 2 - 1}
    idx |= set(int(i) for i in g.integers(0, n_all, size=8))
    return sorted(i for i in idx if 0 <= i < n_all)


def array_probe(spec):
    """Every clause of the statement for every element of the array built from the recipe `spec`.
    Returns (violations [(kind, flat index | None, function, observed, required)], number of elements, regime string)."""
    val, true_ns = build_array(spec)
    shape = true_ns.shape
    n_all = int(true_ns.size)
    tflat = true_ns.reshape(-1)
    bad = []
    got = {}
    for f in ("jdays2000", "jdays", "gmst"):
        res = _call(f, val)
        if isinstance(res, str):
            bad.append(("array_raises", None, f, res, "one value per element of the time array"))
            continue
        if np.shape(res) != shape:
            bad.append(("array_shape", None, f, list(np.shape(res)), "one value per element: shape %s" % list(shape)))
            continue
        try:
            got[f] = np.array(res, dtype=float).reshape(-1)       # a copy, C order of the logical elements
        except Exception as e:  # noqa
            bad.append(("array_raises", None, f, "result not numeric: %s" % e, "one float per element of the time array"))
    # screening of every element: signed errors against integer-tick arithmetic (good to ~1e-15 d / 1e-10 rad)
    d = tflat - J2000_NS
    days = d // DAY_NS
    frac = (d - days * DAY_NS) / float(DAY_NS)
    cand = {}
    with np.errstate(all="ignore"):
        err = {}
        if "jdays2000" in got:
            err["jdays2000"] = (got["jdays2000"] - days) - frac
        if "jdays" in got:
            err["jdays"] = (got["jdays"] - (days + 2451545)) - frac
        for f, e in err.items():
            cand[f] = np.nonzero(~(np.abs(e) <= 1e-9 * (1 - 1e-6)))[0]
        if "gmst" in got:
            tt = (days + frac) / 36525.0
            th = 67310.54841 + (876600.0 * 3600.0 + 8640184.812866) * tt + 0.093104 * tt * tt - 6.2e-6 * tt * tt * tt
            ref = np.deg2rad(th / 240.0) % (2 * np.pi)
            dg = np.abs(got["gmst"] - ref)
            dg = np.minimum(dg, 2 * np.pi - dg)
            g_ = got["gmst"]
            cand["gmst"] = np.nonzero(~((dg <= 1e-7 - 1e-9) & (g_ >= 0.0) & (g_ < 2 * np.pi)))[0]
    g = np.random.default_rng(int(spec["seed"]) + 1)
    sample = _sample_indices(n_all, shape, g)
    for f in ("jdays2000", "jdays", "gmst"):
        if f not in got:
            continue
        c = cand.get(f, np.zeros(0, dtype=int))
        todo = sorted(set(sample) | set(int(i) for i in c[:4]) | set(int(i) for i in c[-4:]))
        nrep = 0
        for i in todo:
            ex, label = exact_jd_ns(int(tflat[i]))
            for ff, v, req in judge_ex({f: float(got[f][i])}, ex, label):
                if nrep < MAX_REPORT:
                    bad.append(("array_element", i, f, v, req + " (element %s of %d, %d candidate(s) in the array)" % (
                        list(int(x) for x in np.unravel_index(i, shape)) if shape else [], n_all, len(c))))
                nrep += 1
    # differences of day counts equal elapsed time: neighbours in C order, and first vs last (2e-9 = twice the 1e-9 of each)
    if "jdays2000" in got and n_all >= 2:
        e = err["jdays2000"]
        with np.errstate(all="ignore"):
            de = np.abs(np.diff(e))
        worst = int(np.argmax(np.where(np.isnan(de), np.inf, de)))
        for i, j in ((worst, worst + 1), (0, n_all - 1)):
            a, la = exact_jd_ns(int(tflat[i]))
            b, lb = exact_jd_ns(int(tflat[j]))
            vi, vj = float(got["jdays2000"][i]), float(got["jdays2000"][j])
            if math.isnan(vi) or math.isnan(vj) or math.isinf(vi) or math.isinf(vj):
                continue                                      # reported above as a non-finite element
            dj = Fraction(vj) - Fraction(vi)
            if abs(dj - (b - a)) > Fraction(2, 10 ** 9):
                bad.append(("array_elapsed", i, "jdays2000", float(dj), "elapsed time %r d between %s (element %d) and %s (element %d) "
                            "within 2e-9 d" % (float(b - a), la, i, lb, j)))
                break
    # daily advance of GMST, element by element (instants whose next day still lies before 2101)
    if "gmst" in got:
        nxt = (true_ns + DAY_NS).astype("datetime64[ns]")
        res = _call("gmst", nxt)
        ok = (tflat + DAY_NS) < HI_NS
        if not isinstance(res, str) and np.shape(res) == shape and ok.any():
            with np.errstate(all="ignore"):
                adv = (np.array(res, dtype=float).reshape(-1) - got["gmst"]) % (2 * np.pi)
                want = (2 * math.pi * 1.00273790935) % (2 * math.pi)
                dd = np.abs(adv - want)
                dd = np.minimum(dd, 2 * np.pi - dd)
            w = np.nonzero(ok & ~(dd <= 1e-7))[0]
            if len(w):
                i = int(w[-1])
                bad.append(("array_gmst_rate", i, "gmst", float(adv[i]), "2pi*1.00273790935 mod 2pi = %r within 1e-7 rad per day at "
                            "%s (element %d of %d, %d such element(s))" % (want, exact_jd_ns(int(tflat[i]))[1], i, n_all, len(w))))
    return bad, n_all


def gen_array_spec(ctx, large):
    r = ctx.rng
    if large:
        unit = r.choice(LARGE_UNITS)
        target = r.choice(LARGE_SIZES + (r.randrange(65537, 400000), r.randrange(65537, 140000), 2 * 65536))
        ndim = r.choice([1, 1, 2, 2, 3])
        if ndim == 1:
            shape = [target]
        elif ndim == 2:
            m = r.choice([2, 3, 5, 7, 16, r.randrange(2, 64)])
            shape = [m, -(-target // m)]
            if r.random() < 0.3:
                shape = shape[::-1]
        else:
            a, b = r.randrange(2, 6), r.randrange(2, 9)
            shape = [a, b, -(-target // (a * b))]
    else:
        unit = r.choice(ARR_UNITS)
        ndim = r.choice([0, 1, 1, 2, 2, 2, 3])
        if ndim == 0:
            shape = []
        elif ndim == 1:
            shape = [r.choice([1, 2, 3, r.randrange(2, 40)])]
        elif ndim == 2:
            shape = [r.randrange(1, 7), r.choice([2, 3, 4, 5, r.randrange(2, 12)])]
        else:
            shape = [r.randrange(1, 4), r.randrange(1, 5), r.randrange(2, 7)]
    tick_unit = {"obj": "us", "obj_aware": "us", "obj_date": "D"}.get(unit, unit)
    lo, hi = _tick_range(tick_unit)
    span = max(1, int(10 ** r.uniform(0, math.log10(hi - lo))))
    if len(shape) >= 2 and r.random() < 0.55:
        pattern = r.choice(ROW_PATTERNS)
    else:
        pattern = r.choice(FLAT_PATTERNS)
    layout = r.choice(ARR_LAYOUTS) if shape else r.choice(["C", "scalar"])
    if unit.startswith("obj") and not shape:
        layout = "C"
    return {"seed": r.randrange(2 ** 31), "shape": shape, "unit": unit, "pattern": pattern, "span": span, "layout": layout}


def array_oracle(ctx):
    """Structured small arrays (every element exactly) and a few arrays of more than 65536 elements per run."""
    plan = [False] * ctx.size(500, 12000) + [True] * ctx.size(6, 60)
    if ctx.intensified:
        plan += [False] * 500 + [True] * 6
    for large in plan:
        spec = gen_array_spec(ctx, large)
        bad, n_all = array_probe(spec)
        ctx.count("eval_oracle_array_elements", 3 * n_all)
        ctx.bump("array_pattern", spec["pattern"])
        ctx.bump("array_unit", spec["unit"])
        ctx.bump("array_shape", "%d-D %s" % (len(spec["shape"]), "large" if large else "small"))
        for kind, i, f, obs, req in bad[:MAX_REPORT]:
            ctx.violation(kind, {"array": spec, "index": i, "function": f}, obs, req, site="astronomy." + f)


def match_known(entry, v):
    return False


def replay(ctx, case):
    from pyorbital import astronomy
    inp = case.get("input", case)
    if "array" in inp:
        bad, n_all = array_probe(inp["array"])
        print("array recipe", inp["array"], "(%d elements)" % n_all)
        for b in bad[:6]:
            print("array: %s element %s %s -> %r, required %s" % b)
        return 1 if bad else 0
    if "order" in inp:
        bad = judge_order(inp["order"], inp.get("tz"))
        for b in bad[:6]:
            print("call order: step %d %s %s -> %r, required %s" % (b[0], inp["order"][b[0]][0], b[1], b[2], b[3]))
        return 1 if bad else 0
    if "repr" in inp:
        bad = repr_probe(ctx, dt.datetime.fromisoformat(inp["utc"]), inp["repr"], inp.get("offset_min", 0), inp.get("tz"))
        for b in bad:
            print("representation %s offset %s process tz %s: %s -> %r, required %s" % (
                inp["repr"], inp.get("offset_min"), inp.get("tz"), b[0], b[1], b[2]))
        return 1 if bad else 0
    if "step_s" in inp:
        r = inplace_probe(ctx, dt.datetime.fromisoformat(inp["utc"]), inp["step_s"])
        print("in-place probe:", r)
        return 1 if r == "violated" else 0
    t = dt.datetime.fromisoformat(inp.get("utc") or inp.get("b"))
    jd = float(astronomy.jdays(t))
    ex = exact_jd(t)
    g = float(astronomy.gmst(t))
    ref = iau82_gmst(ex)
    print("jdays", jd, "exact", float(ex), "gmst", g, "iau82", float(ref))
    dg = abs(decimal.Decimal(g) - ref)
    dg = min(dg, TWO_PI_DEC - dg)
    return 1 if (abs(Fraction(jd) - ex) > Fraction(1, 10 ** 9) or dg > decimal.Decimal("1e-7") or not 0 <= g < 2 * math.pi) else 0
