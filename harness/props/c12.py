"""C12 — Julian dates and Greenwich sidereal time are exact."""
import contextlib
import datetime as dt
import decimal
import json
import math
import os
import subprocess
import sys
import time
import warnings
from fractions import Fraction

import numpy as np

import lib

ID = "C12"
LEAN_TARGETS = ["PV.Props.C12"]
# T-C tie (DESIGN 2.3): kernels traced from the current source are proved equal to the model over the reals
EQUIV = {'PV.Equiv.Astro': ['gmst_eq']}
RULE = ("calendar: every civil day 1900-01-01..2100-12-31 (complete) model vs numpy day count and vs the Fliegel-Van Flandern "
        "JDN; instants: random UTC instants 1900-2100 incl. leap days, century years, year/day boundaries, sub-second, in "
        "every representation (datetime, datetime64[s|ms|us|ns], object arrays, arrays); jdays2000 compared bit-exactly, "
        "gmst at 1e-11; oracle: |jdays - exact civil JD| <= 1e-9 d (Fraction arithmetic), gmst in [0,2pi), "
        "|gmst - IAU-1982| <= 1e-7 rad (50-digit decimal arithmetic), daily advance; aware datetimes (UTC and offsets) also with "
        "the process in non-UTC time zones (TZ + tzset); fresh interpreters running call orders (date-only value first, "
        "instants first, arrays first, coarse units first) with every answer judged against the exact civil JD; "
        "distinct = instant")
ASSUMPTIONS = ["UT1 = UTC (as the statement says)",
               "IEEE-754 rounding of the day division and of the GMST polynomial is measured (1e-9 d, 1e-7 rad), not proved",
               "numpy's datetime64 calendar is modelled by days_from_civil and compared on every day 1900-2100"]
TRUSTED = ["models PV.Model.Time (integer ticks, calendar) and PV.Model.Astro.gmst", "spec PV.Spec.Iau82"]
LEVEL_TEXT = ("Theorems: days-from-civil + 2440588 equals the Fliegel-Van Flandern Julian day number for every civil date (no "
              "year bound), hence the exact-rational Julian date of the model is the civil Julian date; J2000 offset; day-count "
              "differences are elapsed time; GMST lies in [0, 2pi); the coded cubic equals the IAU-1982 polynomial plus "
              "5.58e-5 T^3 s (source literal 6.2*10e-6), below 4.1e-9 rad for |T| <= 1; daily rate 1.00273790935 rev/day. "
              "Tie: calendar model vs numpy on all 73 414 days (exhaustive), jdays2000 bit-exact on sampled instants in "
              "every representation, gmst at 1e-11. Float tolerances are measured.")
LEVEL_NOTE = ("Trusted: Lean kernel + Mathlib reals (propext, Classical.choice, Quot.sound); hand-written models and the "
              "correspondence harness; numpy's datetime64 arithmetic outside the compared range; binary64 rounding not modelled.")
TECHNIQUE = "Lean 4 proof (integer calendar identity by case split + omega; polynomial identities/bounds over R) + exhaustive calendar correspondence + bit-exact jdays correspondence"

EPOCH70 = dt.datetime(1970, 1, 1)
TWO_PI_DEC = decimal.Decimal("6.283185307179586476925286766559005768394338798750211641949889")


def jdn_fvf(y, m, d):
    a = (14 - m) // 12
    yy = y + 4800 - a
    mm = m + 12 * a - 3
    return d + (153 * mm + 2) // 5 + 365 * yy + yy // 4 - yy // 100 + yy // 400 - 32045


def exact_jd(t):
    """Civil-calendar Julian date of a naive datetime as an exact Fraction (independent integer algorithm)."""
    secs = Fraction(t.hour * 3600 + t.minute * 60 + t.second) + Fraction(t.microsecond, 10 ** 6)
    return Fraction(jdn_fvf(t.year, t.month, t.day)) - Fraction(1, 2) + secs / 86400


def iau82_gmst(jd_frac):
    """IAU-1982 GMST (radians, reduced to [0, 2pi)) with 60-digit decimal arithmetic."""
    decimal.getcontext().prec = 60
    T = (decimal.Decimal(jd_frac.numerator) / decimal.Decimal(jd_frac.denominator) - decimal.Decimal("2451545.0")) / decimal.Decimal(36525)
    th = (decimal.Decimal("67310.54841") + (decimal.Decimal(876600) * 3600 + decimal.Decimal("8640184.812866")) * T
          + decimal.Decimal("0.093104") * T * T - decimal.Decimal("6.2e-6") * T * T * T)
    rad = th / 240 * TWO_PI_DEC / 360
    r = rad % TWO_PI_DEC
    if r < 0:
        r += TWO_PI_DEC
    return r


def gen_instants(ctx, n):
    r = ctx.rng
    out = []
    specials = [dt.datetime(1900, 1, 1), dt.datetime(1900, 2, 28, 23, 59, 59, 999999), dt.datetime(1900, 3, 1),
                dt.datetime(2000, 2, 29, 12), dt.datetime(2000, 1, 1, 12), dt.datetime(2100, 2, 28, 23, 59, 59),
                dt.datetime(2100, 3, 1), dt.datetime(2100, 12, 31, 23, 59, 59, 999999), dt.datetime(1999, 12, 31, 23, 59, 59, 999999),
                dt.datetime(2024, 2, 29), dt.datetime(1970, 1, 1), dt.datetime(1969, 12, 31, 23, 59, 59, 1),
                dt.datetime(2009, 10, 8, 14, 30), dt.datetime(2038, 1, 19, 3, 14, 8)]
    out += specials
    lo = int((dt.datetime(1900, 1, 1) - EPOCH70).total_seconds())
    hi = int((dt.datetime(2101, 1, 1) - EPOCH70).total_seconds())
    while len(out) < n:
        s = r.randrange(lo, hi)
        k = r.random()
        us = 0 if k < 0.2 else r.randrange(10 ** 6)
        if k > 0.9:
            s = s - s % 86400 + r.choice([0, 86399, 43200])
        out.append(EPOCH70 + dt.timedelta(seconds=s, microseconds=us))
    return out


def us_of(t):
    d = t - EPOCH70
    return (d.days * 86400 + d.seconds) * 10 ** 6 + d.microseconds


# ---------------------------------------------------------------- time representations
# POSIX rule strings (no tz database needed): the zone of the PROCESS must not matter for any representation
ZONES = ["CET-1CEST,M3.5.0,M10.5.0/3", "PST8PDT,M3.2.0,M11.1.0", "IST-5:30", "AEST-10AEDT,M10.1.0,M4.1.0/3", "NPT-5:45", "<-03>3"]
OFFSETS = [60, -480, 330, 0, 765, -210]            # minutes east of Greenwich for aware spellings
TICK_US = {"dt64ns": None, "dt64us": 1, "dt64ms": 10 ** 3, "dt64s": 10 ** 6, "dt64m": 60 * 10 ** 6, "dt64h": 3600 * 10 ** 6,
           "dt64D": 86400 * 10 ** 6, "dt64W": 7 * 86400 * 10 ** 6}
DATE_KINDS = ("date", "dt64D", "dt64W", "dt64M", "dt64Y")
INSTANT_KINDS = ("datetime", "aware", "dt64us", "dt64ns", "dt64ms", "dt64s")
ARRAY_KINDS = ("arr_us", "arr_ns", "arr_obj", "arr_aware", "arr_s", "arr_D", "arr_date")
COARSE_KINDS = ("dt64m", "dt64h")


def canon(kind, t):
    """The instant (naive UTC datetime) that the representation `kind` made from t denotes: t itself where the representation
    can hold it, else the start of the second / minute / hour / day / week / month / year that numpy's datetime64 of that
    unit stands for (a calendar date is midnight UTC of that day)."""
    if kind in ("date", "arr_date", "arr_D"):
        kind = "dt64D"
    if kind == "arr_s":
        kind = "dt64s"
    if kind == "dt64M":
        return dt.datetime(t.year, t.month, 1)
    if kind == "dt64Y":
        return dt.datetime(t.year, 1, 1)
    q = TICK_US.get(kind)
    if not q:
        return t
    us = us_of(t)
    return EPOCH70 + dt.timedelta(microseconds=us - us % q)


def make_value(kind, t, off_min=0):
    """The time representation `kind` of canon(kind, t)."""
    t = canon(kind, t)
    us = us_of(t)
    if kind == "datetime":
        return t
    if kind in ("aware", "arr_aware"):
        a = t.replace(tzinfo=dt.timezone.utc).astimezone(dt.timezone(dt.timedelta(minutes=off_min)))
        return a if kind == "aware" else np.array([a], dtype=object)
    if kind == "date":
        return t.date()
    if kind == "dt64ns":
        return np.datetime64(us * 1000, "ns")
    if kind == "dt64M":
        return np.datetime64((t.year - 1970) * 12 + t.month - 1, "M")
    if kind == "dt64Y":
        return np.datetime64(t.year - 1970, "Y")
    if kind in TICK_US:
        return np.datetime64(us // TICK_US[kind], kind[4:])
    if kind == "arr_us":
        return np.array([np.datetime64(us, "us")])
    if kind == "arr_ns":
        return np.array([np.datetime64(us * 1000, "ns")])
    if kind == "arr_s":
        return np.array([np.datetime64(us // 10 ** 6, "s")])
    if kind == "arr_D":
        return np.array([np.datetime64(us // (86400 * 10 ** 6), "D")])
    if kind == "arr_obj":
        return np.array([t], dtype=object)
    if kind == "arr_date":
        return np.array([t.date()], dtype=object)
    raise ValueError(kind)


def evaluate(val, fns=("jdays", "jdays2000", "gmst")):
    """The three observables for one time value: {function: float} or {function: 'EXC ...'}."""
    from pyorbital import astronomy
    out = {}
    for f in fns:
        try:
            with warnings.catch_warnings():
                warnings.simplefilter("ignore")      # numpy warns that datetime64 has no time zone (it converts to UTC)
                out[f] = float(np.atleast_1d(getattr(astronomy, f)(val))[0])
        except Exception as e:  # noqa
            out[f] = "EXC %s: %s" % (type(e).__name__, e)
    return out


def judge(vals, t_true):
    """The absolute clauses of the statement for the instant t_true: list of (function, observed, required)."""
    ex = exact_jd(t_true)
    bad = []
    for f, v in vals.items():
        if not isinstance(v, float) or math.isnan(v) or math.isinf(v):
            bad.append((f, v, "a finite value for the instant %s" % t_true.isoformat()))
        elif f == "jdays":
            if abs(Fraction(v) - ex) > Fraction(1, 10 ** 9):
                bad.append((f, v, "civil JD %r of %s within 1e-9 d" % (float(ex), t_true.isoformat())))
        elif f == "jdays2000":
            if abs(Fraction(v) - (ex - 2451545)) > Fraction(1, 10 ** 9):
                bad.append((f, v, "civil JD - 2451545.0 = %r of %s within 1e-9 d" % (float(ex - 2451545), t_true.isoformat())))
        elif f == "gmst":
            ref = iau82_gmst(ex)
            dg = abs(decimal.Decimal(v) - ref)
            dg = min(dg, TWO_PI_DEC - dg)
            if not (0.0 <= v < 2 * math.pi):
                bad.append((f, v, "[0, 2pi)"))
            elif dg > decimal.Decimal("1e-7"):
                bad.append((f, v, "IAU-1982 GMST %r of %s within 1e-7 rad" % (float(ref), t_true.isoformat())))
    return bad


@contextlib.contextmanager
def process_tz(tz):
    """Run a block with the process' local time zone set to the POSIX rule string tz (None: leave it as it is)."""
    if tz is None:
        yield
        return
    old = os.environ.get("TZ")
    os.environ["TZ"] = tz
    time.tzset()
    try:
        yield
    finally:
        if old is None:
            os.environ.pop("TZ", None)
        else:
            os.environ["TZ"] = old
        time.tzset()


def repr_probe(ctx, t, kind, off_min, tz):
    """One instant in one representation, evaluated with the process in zone tz: violations of the absolute clauses."""
    with process_tz(tz):
        vals = evaluate(make_value(kind, t, off_min))
    return judge(vals, canon(kind, t))


# ---------------------------------------------------------------- call orders in a fresh interpreter
CHILD = r"""
import json, sys
spec = json.load(sys.stdin)
sys.path.insert(0, spec["harness"])
import lib                      # puts the code under test (PV_REPO) first on sys.path
import datetime as dt
from props import c12
out = []
for kind, iso, off in spec["order"]:
    v = c12.evaluate(c12.make_value(kind, dt.datetime.fromisoformat(iso), off))
    out.append({f: (lib.f2h(x) if isinstance(x, float) else x) for f, x in v.items()})
import pyorbital
print(json.dumps({"pyorbital": pyorbital.__file__, "out": out}))
"""


def run_order(order, tz):
    """Evaluate the steps [(kind, iso, off_min)] in this order in a FRESH interpreter (its first time conversion is the first step),
    optionally with the process zone tz.  Returns [{function: float | 'EXC ...'}] per step."""
    env = dict(os.environ, PV_REPO=lib.REPO)
    if tz is not None:
        env["TZ"] = tz
    spec = {"harness": os.path.dirname(os.path.dirname(os.path.abspath(__file__))), "order": order}
    p = subprocess.run([sys.executable, "-c", CHILD], input=json.dumps(spec).encode(), env=env, stdout=subprocess.PIPE,
                       stderr=subprocess.PIPE, timeout=300)
    if p.returncode != 0:
        raise RuntimeError("child interpreter failed: " + p.stderr.decode(errors="replace")[-800:])
    res = json.loads(p.stdout.decode().strip().split("\n")[-1])
    return [{f: (lib.h2f(x) if not x.startswith("EXC") else x) for f, x in step.items()} for step in res["out"]]


def judge_order(order, tz):
    """[(index, function, observed, required)] for every answer of the sequence that breaks an absolute clause."""
    bad = []
    for i, (step, vals) in enumerate(zip(order, run_order(order, tz))):
        for f, v, req in judge(vals, canon(step[0], dt.datetime.fromisoformat(step[1]))):
            bad.append((i, f, v, req))
    return bad


def gen_orders(ctx, inst):
    """Call orders for fresh interpreters: which representation the process converts FIRST must not matter."""
    r = ctx.rng

    inst = [t for t in inst if t >= dt.datetime(1900, 1, 8)]      # the week holding the instant starts inside 1900-2100

    def steps(kinds):
        return [[k, r.choice(inst).isoformat(), r.choice(OFFSETS)] for k in kinds]

    def mixed(n):
        return [r.choice(INSTANT_KINDS + ARRAY_KINDS + DATE_KINDS + COARSE_KINDS) for _ in range(n)]
    orders = []
    for rep in range(ctx.size(1, 6)):
        for first in DATE_KINDS:                                   # date-only value first, then ordinary instants in every representation
            orders.append(("date_first:" + first, steps((first,) + INSTANT_KINDS + ARRAY_KINDS + DATE_KINDS + COARSE_KINDS), None))
        orders.append(("instants_first", steps(INSTANT_KINDS + DATE_KINDS + ARRAY_KINDS + COARSE_KINDS), None))
        orders.append(("arrays_first", steps(ARRAY_KINDS[:3] + DATE_KINDS + INSTANT_KINDS + ARRAY_KINDS[3:]), None))
        for first in ("arr_D", "arr_date") + COARSE_KINDS + ("dt64s",):
            orders.append(("coarse_first:" + first, steps((first,) + INSTANT_KINDS + DATE_KINDS), None))
        orders.append(("aware_first", steps(("aware", "arr_aware", "datetime") + DATE_KINDS + INSTANT_KINDS), r.choice(ZONES)))
        orders.append(("random", steps(mixed(14)), r.choice([None] + ZONES)))
    return orders


def correspond(ctx):
    from pyorbital import astronomy
    drv = ctx.driver()
    # (1) complete calendar 1900..2100
    d0 = dt.date(1900, 1, 1)
    ndays = (dt.date(2100, 12, 31) - d0).days + 1
    days = [d0 + dt.timedelta(days=i) for i in range(ndays)]
    outs = drv.run_parallel(["civil %d %d %d" % (d.year, d.month, d.day) for d in days])
    npdays = np.array([np.datetime64(d.isoformat()) for d in days]).astype("datetime64[D]").astype(np.int64)
    for d, o, nd in zip(days, outs, npdays):
        a, b = o.split()
        ctx.count("eval_corr_calendar")
        if int(a) != int(nd) or int(b) != jdn_fvf(d.year, d.month, d.day) or int(a) + 2440588 != int(b):
            ctx.disagree("civil", {"date": d.isoformat()}, [int(nd), jdn_fvf(d.year, d.month, d.day)], [int(a), int(b)])
    ctx.exhaustive = True
    ctx.note("calendar correspondence complete over %d days" % ndays)
    # (2) instants in every representation: jdays2000 bit-exact, gmst close
    n = ctx.size(1500, 60000)
    inst = gen_instants(ctx, n)
    lines, exp = [], []
    for t in inst:
        us = us_of(t)
        reps = [("us", us, t), ("us", us, np.datetime64(us, "us")), ("ms", us // 1000, np.datetime64(us // 1000, "ms")),
                ("s", us // 10 ** 6, np.datetime64(us // 10 ** 6, "s")), ("ns", us * 1000 + 7, np.datetime64(us * 1000 + 7, "ns"))]
        for unit, ticks, val in reps:
            lines.append("jd %s %d" % (unit, ticks))
            exp.append(("jd", unit, ticks, float(astronomy.jdays2000(val))))
        d = float(astronomy.jdays2000(t))
        lines.append("gmst " + lib.f2h(d))
        exp.append(("gmst", t, d, (float(astronomy.gmst(t)), float(astronomy.jdays(t)))))
        ctx.distinct(us)
    outs = drv.run_parallel(lines)
    for e, o in zip(exp, outs):
        if e[0] == "jd":
            ctx.count("eval_corr_jd")
            ctx.bump("unit", e[1])
            mv = lib.h2f(o)
            if mv != e[3]:
                ctx.disagree("jd", {"unit": e[1], "ticks": e[2]}, e[3], mv)
        else:
            ctx.count("eval_corr_gmst")
            vals = [lib.h2f(x) for x in o.split()]
            if not lib.angle_close(vals[0], e[3][0], 1e-11) or vals[2] != e[3][1]:
                ctx.disagree("gmst", {"t": str(e[1]), "d": e[2]}, list(e[3]), [vals[0], vals[2]])
    ctx.sample({"instant": str(inst[0]), "us": us_of(inst[0])})
    ctx.sample({"instant": str(inst[-1]), "us": us_of(inst[-1])})
    # arrays: dt2np converts arrays to datetime64[ns]; the model's ns reading must reproduce them bit for bit
    sel = inst[:300]
    arr = np.array([np.datetime64(us_of(t), "us") for t in sel])
    got = astronomy.jdays2000(arr)
    obj = astronomy.jdays2000(np.array(sel, dtype=object))
    mod = [lib.h2f(o) for o in drv.run(["jd ns %d" % (us_of(t) * 1000) for t in sel])]
    for t, g, ob, m in zip(sel, got, obj, mod):
        ctx.count("eval_corr_array")
        if float(g) != m or float(ob) != m:
            ctx.disagree("jd-array", {"t": str(t)}, [float(g), float(ob)], m)


def oracle(ctx):
    from pyorbital import astronomy
    n = ctx.size(1200, 40000)
    inst = gen_instants(ctx, n)
    worst_jd = 0.0
    worst_g = 0.0
    prev = None
    for t in inst:
        ctx.count("eval_oracle")
        case = {"utc": t.isoformat()}
        jd = astronomy.jdays(t)
        ex = exact_jd(t)
        err = abs(Fraction(float(jd)) - ex)
        worst_jd = max(worst_jd, float(err))
        if err > Fraction(1, 10 ** 9):
            ctx.violation("jdays", case, float(jd), "civil JD %s within 1e-9 d" % float(ex), site="astronomy.jdays")
        j2 = astronomy.jdays2000(t)
        if abs(Fraction(float(j2)) - (ex - Fraction(2451545))) > Fraction(1, 10 ** 9):
            ctx.violation("jdays2000", case, float(j2), "jdays - 2451545.0 within 1e-9 d", site="astronomy.jdays2000")
        g = float(astronomy.gmst(t))
        if not (0.0 <= g < 2 * math.pi):
            ctx.violation("gmst_range", case, g, "[0, 2pi)", site="astronomy.gmst")
        ref = iau82_gmst(ex)
        dg = abs(decimal.Decimal(g) - ref)
        dg = min(dg, TWO_PI_DEC - dg)
        worst_g = max(worst_g, float(dg))
        if dg > decimal.Decimal("1e-7"):
            ctx.violation("gmst_iau82", case, g, "IAU-1982 GMST %s within 1e-7 rad" % float(ref), site="astronomy.gmst")
        # differences of day counts = elapsed time; daily advance of GMST
        t2 = t + dt.timedelta(days=1)
        if t2.year <= 2100:
            d1 = float(astronomy.jdays2000(t2)) - float(j2)
            if abs(d1 - 1.0) > 2e-9:
                ctx.violation("day_difference", case, d1, "1 day within 2e-9", site="astronomy.jdays2000")
            adv = (float(astronomy.gmst(t2)) - g) % (2 * math.pi)
            want = (2 * math.pi * 1.00273790935) % (2 * math.pi)
            dd = abs(adv - want)
            dd = min(dd, 2 * math.pi - dd)
            if dd > 1e-7:
                ctx.violation("gmst_rate", case, adv, "2pi*1.00273790935 mod 2pi = %r within 1e-7" % want, site="astronomy.gmst")
        if prev is not None:
            el = Fraction(us_of(t) - us_of(prev), 86400 * 10 ** 6)
            dj = Fraction(float(astronomy.jdays2000(t))) - Fraction(float(astronomy.jdays2000(prev)))
            if abs(dj - el) > Fraction(2, 10 ** 9):
                ctx.violation("elapsed", {"a": prev.isoformat(), "b": t.isoformat()}, float(dj), float(el), site="astronomy.jdays2000")
        prev = t
    # every representation gives the same instant's value to 1e-9 d
    for t in inst[:300]:
        us = us_of(t)
        ref = float(astronomy.jdays(t))
        off = ctx.rng.choice(OFFSETS)      # minutes: the same instant spelled in another UTC offset
        for kind, o in (("dt64us", 0), ("dt64ns", 0), ("arr_obj", 0), ("arr_us", 0), ("aware", 0), ("aware", off), ("arr_aware", off)):
            ctx.count("eval_oracle_repr")
            val = make_value(kind, t, o)
            with warnings.catch_warnings():
                warnings.simplefilter("ignore")      # numpy warns that datetime64 has no time zone (it converts to UTC)
                got = np.atleast_1d(astronomy.jdays(val))[0]
            if abs(float(got) - ref) > 1e-9:
                ctx.violation("representation", {"utc": t.isoformat(), "repr": kind, "offset_min": o, "tz": None},
                              float(got), ref, site="astronomy.jdays")
    # ... whatever the local time zone of the process is: aware datetimes name their own offset, naive ones and datetime64 are UTC
    for i, t in enumerate(inst[:ctx.size(300, 3000)]):
        tz = ZONES[i % len(ZONES)]
        off = ctx.rng.choice(OFFSETS)
        for kind, o in (("aware", 0), ("aware", off), ("arr_aware", off), ("datetime", 0), ("dt64us", 0)):
            ctx.count("eval_oracle_repr_tz")
            ctx.bump("process_tz", tz)
            for f, v, req in repr_probe(ctx, t, kind, o, tz):
                ctx.violation("representation", {"utc": t.isoformat(), "repr": kind, "offset_min": o, "tz": tz, "function": f},
                              v, req + " (process time zone %s)" % tz, site="astronomy." + f)
    # fresh interpreters: the representation that the process converts first must not matter for any later (or that) answer
    for name, order, tz in gen_orders(ctx, inst):
        ctx.bump("call_order", name.split(":")[0])
        bad = judge_order(order, tz)
        ctx.count("eval_oracle_order", 3 * len(order))
        for i, f, v, req in bad[:3]:
            ctx.violation("call_order", {"order": order, "tz": tz, "family": name, "index": i, "function": f}, v,
                          req + " (step %d, %s, of a fresh interpreter)" % (i, order[i][0]), site="astronomy." + f)
    ctx.note("worst |jdays - civil JD| = %.3g d; worst |gmst - IAU82| = %.3g rad" % (worst_jd, worst_g))
    # arrays of instants that are advanced IN PLACE between calls: every call answers for the instants the array holds now
    for t in inst[:ctx.size(60, 600)]:
        ctx.bump("inplace_probe", inplace_probe(ctx, t, ctx.rng.choice([86400.0, 3600.0, 0.25, 366 * 86400.0])))


def inplace_probe(ctx, t, step_s):
    from pyorbital import astronomy
    us = us_of(t)
    unit = "us" if (step_s * 1e6) % 1000 else "ns"
    arr = np.array([np.datetime64(us, "us"), np.datetime64(us + 12345678, "us")]).astype("datetime64[%s]" % unit)
    step = np.timedelta64(int(round(step_s * 1e6)), "us")
    for rnd in range(3):
        got = {"jdays": np.array(astronomy.jdays(arr), dtype=float), "jdays2000": np.array(astronomy.jdays2000(arr), dtype=float),
               "gmst": np.array(astronomy.gmst(arr), dtype=float)}
        for i in range(len(arr)):
            ctx.count("eval_oracle_inplace")
            ti = arr[i].astype("datetime64[us]").astype(object)
            ex = exact_jd(ti)
            ref_g = iau82_gmst(ex)
            dg = abs(decimal.Decimal(float(got["gmst"][i])) - ref_g)
            dg = min(dg, TWO_PI_DEC - dg)
            bad = None
            if abs(Fraction(float(got["jdays"][i])) - ex) > Fraction(1, 10 ** 9):
                bad = ("jdays", float(got["jdays"][i]), float(ex))
            elif abs(Fraction(float(got["jdays2000"][i])) - (ex - 2451545)) > Fraction(1, 10 ** 9):
                bad = ("jdays2000", float(got["jdays2000"][i]), float(ex - 2451545))
            elif dg > decimal.Decimal("1e-7"):
                bad = ("gmst", float(got["gmst"][i]), float(ref_g))
            if bad:
                ctx.violation("stale_after_inplace_update", {"utc": t.isoformat(), "step_s": step_s, "round": rnd, "index": i,
                                                            "function": bad[0]}, bad[1],
                              "%s of the instant the array holds now (%s): %r" % (bad[0], ti.isoformat(), bad[2]), site="astronomy." + bad[0])
                return "violated"
        arr += step
    return "ok"


def match_known(entry, v):
    return False


def replay(ctx, case):
    from pyorbital import astronomy
    inp = case.get("input", case)
    if "order" in inp:
        bad = judge_order(inp["order"], inp.get("tz"))
        for b in bad[:6]:
            print("call order: step %d %s %s -> %r, required %s" % (b[0], inp["order"][b[0]][0], b[1], b[2], b[3]))
        return 1 if bad else 0
    if "repr" in inp:
        bad = repr_probe(ctx, dt.datetime.fromisoformat(inp["utc"]), inp["repr"], inp.get("offset_min", 0), inp.get("tz"))
        for b in bad:
            print("representation %s offset %s process tz %s: %s -> %r, required %s" % (
                inp["repr"], inp.get("offset_min"), inp.get("tz"), b[0], b[1], b[2]))
        return 1 if bad else 0
    if "step_s" in inp:
        r = inplace_probe(ctx, dt.datetime.fromisoformat(inp["utc"]), inp["step_s"])
        print("in-place probe:", r)
        return 1 if r == "violated" else 0
    t = dt.datetime.fromisoformat(inp.get("utc") or inp.get("b"))
    jd = float(astronomy.jdays(t))
    ex = exact_jd(t)
    g = float(astronomy.gmst(t))
    ref = iau82_gmst(ex)
    print("jdays", jd, "exact", float(ex), "gmst", g, "iau82", float(ref))
    dg = abs(decimal.Decimal(g) - ref)
    dg = min(dg, TWO_PI_DEC - dg)
    return 1 if (abs(Fraction(jd) - ex) > Fraction(1, 10 ** 9) or dg > decimal.Decimal("1e-7") or not 0 <= g < 2 * math.pi) else 0
