"""C15 — the TLE database keeps every distinct epoch once and always exports the newest."""
import datetime as dt
import json
import os
import shutil
import sqlite3
import tempfile

import lib
import tlegen

ID = "C15"
LEAN_TARGETS = ["PV.Props.C15"]
# T-D: functions translated from the source by harness/pytrans.py, proved equal to the model (DESIGN section 0)
EQUIV = {"PV.Equiv.TranslatedDb": ["init_eq", "dbExecute_create", "updateResult_updateOp", "update_db_eq"]}
EQUIV.update({"PV.Equiv.TranslatedDbExport": ["loop_eq", "write_tle_txt_eq"], "PV.Equiv.TranslatedFetchRun": ["delivery", "run_eq", "updatesOf_dict"]})      # T-D
RULE = ("random operation histories of length <= 12 over {update(tle, source), crashed update, export(write_always, "
        "write_name), close+reopen} with 1-4 configured platforms plus unconfigured satellites, epochs drawn from a "
        "cluster around one instant (whole second, +-1 us, .100000, +1 s, previous second .999999, other day/year) so "
        "that duplicates, out-of-order arrival and with/without-fraction texts meet; several sources and several texts per "
        "(satellite, epoch); for a part of the base histories EVERY update is additionally replaced by a crash after "
        "k = 0..3 committed statements, both before the next statement and inside its transaction; every history runs "
        "against a real SQLite file in a temporary directory; driver histories: 1-3 invocations of fetch_tles.run() on "
        "one database file, each with its own YAML configuration listing a random non-empty subset of the downloaders "
        "(fetch_plain_tle with 1-3 named sources x 1-2 URIs, fetch_spacetrack, read_tle_files, read_xml_admin_messages) in "
        "EVERY order, `requests` interposed (no network; failing status codes included), deliveries drawn from a pool of "
        "entries with shared epochs (whole-day, +1e-8 day, half day, neighbouring day, other year; two texts per epoch; "
        "unconfigured satellites), judged on the rows (epoch, first-seen text, first-seen source = the name under which the "
        "driver stores the first delivery in the order it visits downloaders, sources, URIs and entries) and on the export "
        "of every run; distinct = the history itself, non-trivial = at least one row stored")
ASSUMPTIONS = [
    "SQLite is abstracted as a map table -> rows with a primary key; one `with self.db:` block = one atomic committed "
    "statement (journal atomicity of SQLite itself is trusted)",
    "text comparison of ORDER BY is byte-wise (BINARY collation); UTF-8 byte order = code point order; the epoch column "
    "holds TEXT (an ISO string is not a well-formed number, so the NUMERIC affinity of `date` leaves it alone)",
    "a crash is an exception at a statement boundary followed by closing the connection without commit and constructing "
    "a new SQLiteTLE on the same file (the `updated` flag dies with the process)",
    "epochs are datetime objects (year 1..9999), satellite numbers are what int(tle.satnumber) yields; the platform "
    "configuration is the same before and after a reopen; insertion_time (wall clock) is not compared",
    "creation of the output directory and the strftime file name are outside the model (one output directory per export)",
]
TRUSTED = [
    "model: PV.Model.Db (hand-written from tlefile.py:397-402, 544-641 and fetch_tles.py), tied by exact comparison of "
    "all rows of all tables, platform_names, the updated flag after every operation and every exported file",
    "harness: connection proxy around sqlite3.Connection counting CREATE/INSERT statements; Tle objects are real "
    "(tlefile.Tle from generated lines) with the epoch attribute set to the history's epoch where microseconds must be controlled",
]
LEVEL_TEXT = ("Theorems (Lean 4 kernel, core only, arbitrary operation lists, no length bound): after any history the rows "
              "of every table are exactly the first-seen (text, source) per distinct (configured satellite, epoch), keys "
              "unique, nothing for unconfigured satellites; no operation raises; updated <=> an update since the last "
              "reopen/crash added a row; a crash after any number of committed statements leaves the rows of the history "
              "without or with the whole update and equals update+reopen once the row insert committed; byte-wise order of "
              "isoformat texts (with and without fraction) = chronological order for years 1..9999, hence an export writes, "
              "in configuration order, [name] + the text of the greatest-epoch entry of every platform with data, writes "
              "nothing when clean unless write_always, and never fails (missing table, empty table, whole-second epoch). "
              "The model is tied to tlefile.py by differential runs against a real SQLite file with crash injection at "
              "every statement boundary.")
LEVEL_NOTE = ("Trusted: Lean kernel; axioms propext, Quot.sound, Classical.choice; the hand-written model PV.Model.Db and the "
              "correspondence harness; SQLite's transaction atomicity and BINARY collation; CPython sqlite3/datetime.")
TECHNIQUE = ("Lean 4 refinement proof (history-indexed invariant, snoc induction over operation lists, digit-wise lemma for "
             "the order of ISO texts) over an executable state-machine model; differential correspondence on a real SQLite "
             "file with a crash-injecting connection proxy; independent dict-based oracle")

POOL = [(25544, "ISS (ZARYA)"), (33591, "NOAA 19"), (28654, "NOAA-18"), (43013, "NOAA 20"), (7, "EXPLORER 7"),
        (99999, "OBJECT X"), (54234, "NOAA 21"), (40069, "METEOR-M 2")]
SOURCES = ["celestrak", "spacetrack", "file", "https://example.org/weather.txt", "süd"]


class CrashNow(BaseException):
    """Injected process death (BaseException: no handler of the code under test may swallow it)."""


def _is_write(sql):
    return sql.lstrip().split(None, 1)[0].upper() in ("CREATE", "INSERT", "REPLACE", "UPDATE", "DELETE", "DROP", "ALTER")


class ConnProxy(object):
    """Stands in for the sqlite3 connection of one update_db call and dies at a chosen statement boundary."""

    def __init__(self, real, k, mode):
        self.real, self.k, self.mode = real, k, mode
        self.n = 0
        self.fired = False

    def execute(self, sql, *args):
        if not _is_write(sql):
            return self.real.execute(sql, *args)
        if self.n == self.k and self.mode == "before":
            self.fired = True
            raise CrashNow()
        self.n += 1
        cur = self.real.execute(sql, *args)
        if self.n == self.k + 1 and self.mode == "inside":
            self.fired = True
            raise CrashNow()          # inside `with self.db:` -> rolled back unless SQLite already committed (DDL)
        return cur

    def __enter__(self):
        return self.real.__enter__()

    def __exit__(self, *exc):
        return self.real.__exit__(*exc)

    def __getattr__(self, name):
        return getattr(self.real, name)


# ---------------------------------------------------------------- histories
def _epoch_cluster(rng):
    base = dt.datetime(rng.choice([1957, 1999, 2000, 2023, 2024, 2056]), rng.randrange(1, 13), rng.randrange(1, 29),
                       rng.randrange(0, 24), rng.randrange(0, 60), rng.randrange(0, 60))
    if rng.random() < 0.2:
        base = base.replace(month=12, day=31, hour=23, minute=59, second=59)
    us = dt.timedelta(microseconds=1)
    cands = [base, base + us, base - us, base + 100000 * us, base + 999999 * us, base + dt.timedelta(seconds=1),
             base + dt.timedelta(seconds=1) + us, base + dt.timedelta(days=1), base - dt.timedelta(days=31),
             base.replace(year=base.year - 1), base + rng.randrange(1, 10 ** 6) * us,
             base + dt.timedelta(seconds=rng.randrange(1, 10 ** 6), microseconds=rng.randrange(0, 10 ** 6))]
    rng.shuffle(cands)
    return cands[:rng.randrange(2, 6)]


def _lines_for(rng, sat, n):
    out = []
    real = [(a, b) for (s, a, b) in tlegen.REAL_TLES if int(s) == sat]
    for i in range(n):
        if real and i == 0:
            out.append(real[0])
        else:
            _, l1, l2 = tlegen.random_tle(rng, "leo", {"satnum": rng.choice(["%05d", "%5d"]) % sat})
            out.append((l1, l2))
    return out


def ep2list(e):
    return [e.year, e.month, e.day, e.hour, e.minute, e.second, e.microsecond]


def gen_history(ctx, crashes=True, maxlen=12):
    rng = ctx.rng
    pool = list(POOL)
    rng.shuffle(pool)
    ncfg = rng.randrange(1, 5)
    platforms = pool[:ncfg]
    unconf = [s for s, _ in pool[ncfg:ncfg + 2]]
    sats = [s for s, _ in platforms]
    epochs = _epoch_cluster(rng)
    lines = {s: _lines_for(rng, s, 3) for s in sats + unconf}
    ops = []
    for _ in range(rng.randrange(1, maxlen + 1)):
        r = rng.random()
        if r < 0.62 or (r < 0.77 and not crashes):
            sat = rng.choice(unconf) if (unconf and rng.random() < 0.12) else rng.choice(sats[:rng.randrange(1, len(sats) + 1)])
            l1, l2 = rng.choice(lines[sat])
            ops.append(["U", sat, ep2list(rng.choice(epochs)), l1, l2, rng.choice(SOURCES)])
        elif r < 0.77:
            sat = rng.choice(unconf) if (unconf and rng.random() < 0.1) else rng.choice(sats)
            l1, l2 = rng.choice(lines[sat])
            ops.append(["C", rng.randrange(0, 5), rng.choice(["before", "inside"]), sat, ep2list(rng.choice(epochs)), l1, l2,
                        rng.choice(SOURCES)])
        elif r < 0.92:
            ops.append(["E", int(rng.random() < 0.4), int(rng.random() < 0.5)])
        else:
            ops.append(["R"])
    return {"platforms": [[s, n] for s, n in platforms], "ops": ops}


def crash_variants(hist):
    """every update of the history replaced, one at a time, by a crash at every statement boundary"""
    out = []
    for i, op in enumerate(hist["ops"]):
        if op[0] != "U":
            continue
        for k in range(0, 4):
            for mode in ("before", "inside"):
                ops = [list(o) for o in hist["ops"]]
                ops[i] = ["C", k, mode] + list(op[1:])
                out.append({"platforms": hist["platforms"], "ops": ops})
    return out


# ---------------------------------------------------------------- implementation runner
def _make_tle(op_sat, epoch, l1, l2):
    import numpy as np
    from pyorbital import tlefile
    tle = tlefile.Tle("", line1=l1, line2=l2)
    if not (int(tle.satnumber) == op_sat):
        raise RuntimeError((tle.satnumber, op_sat))
    tle.epoch = np.datetime64(dt.datetime(*epoch), "us")
    return tle


def read_db(path):
    """All tables of the file through an independent connection: (tables {sat: [(epoch, tle, source)]}, names or None)."""
    con = sqlite3.connect(path)
    try:
        names = [r[0] for r in con.execute("SELECT name FROM sqlite_master WHERE type='table' ORDER BY rowid")]
        tables, pn = {}, None
        for n in names:
            if n == "platform_names":
                pn = sorted((int(a), b) for a, b in con.execute("SELECT satid, platform_name FROM platform_names"))
            else:
                tables[int(n)] = [tuple(r) for r in con.execute("SELECT epoch, tle, source FROM '%s' ORDER BY rowid" % n)]
        return tables, pn
    finally:
        con.close()


def run_impl(hist, workdir, observe=None):
    """Run one history against the real SQLiteTLE on a file.  Returns (outs, tables, names, trouble).

    outs[i] = (status, updated, file text or None); status d/x/n/f as in the model's driver; `trouble` lists
    exceptions that are not the injected crash.  `observe(i, op, path, db)` is called after every operation."""
    from pyorbital import tlefile
    path = os.path.join(workdir, "tles.db")
    platforms = {}
    for s, n in hist["platforms"]:
        platforms[int(s)] = n
    base_wc = {"output_dir": os.path.join(workdir, "out"), "filename_pattern": "tle_%Y%m%d.txt"}
    db = tlefile.SQLiteTLE(path, platforms, dict(base_wc))
    outs, trouble = [], []
    try:
        for i, op in enumerate(hist["ops"]):
            kind = op[0]
            text = None
            if kind == "U":
                tle = _make_tle(op[1], op[2], op[3], op[4])
                try:
                    db.update_db(tle, op[5])
                    st = "d"
                except Exception as e:  # noqa
                    st = "x"
                    trouble.append((i, "update_db", "%s: %s" % (type(e).__name__, e)))
            elif kind == "C":
                k, mode = op[1], op[2]
                tle = _make_tle(op[3], op[4], op[5], op[6])
                real = db.db
                proxy = ConnProxy(real, k, mode)
                db.db = proxy
                try:
                    db.update_db(tle, op[7])
                except CrashNow:
                    pass
                except Exception as e:  # noqa   an exception of its own ends the process as well
                    trouble.append((i, "update_db", "%s: %s" % (type(e).__name__, e)))
                finally:
                    db.db = real
                real.close()                                   # no commit: the process is gone
                db = tlefile.SQLiteTLE(path, platforms, dict(base_wc))
                st = "x"
            elif kind == "E":
                odir = os.path.join(workdir, "out", "%03d" % i)
                db.writer_config = dict(base_wc, output_dir=odir, write_always=bool(op[1]), write_name=bool(op[2]))
                try:
                    db.write_tle_txt()
                    files = sorted(os.listdir(odir)) if os.path.isdir(odir) else []
                    if not files:
                        st = "n"
                    else:
                        st = "f"
                        with open(os.path.join(odir, files[0]), "rb") as f:
                            text = f.read().decode("utf-8")
                        if len(files) > 1:
                            trouble.append((i, "write_tle_txt", "several files: %r" % (files,)))
                except Exception as e:  # noqa
                    st = "x"
                    trouble.append((i, "write_tle_txt", "%s: %s" % (type(e).__name__, e)))
            elif kind == "R":
                db.close()
                db = tlefile.SQLiteTLE(path, platforms, dict(base_wc))
                st = "d"
            else:
                raise ValueError(kind)
            outs.append((st, bool(db.updated), text))
            if observe is not None:
                observe(i, op, path, db)
    finally:
        try:
            db.close()
        except Exception:  # noqa
            pass
    tables, names = read_db(path)
    return outs, tables, names, trouble


# ---------------------------------------------------------------- model runner
def hist_line(hist, inside_shift=None):
    """Driver line of a history.  `inside_shift[i]` adds 1 to the k of crash op i (used for the `inside` mode)."""
    toks = ["c15"]
    for s, n in hist["platforms"]:
        toks += ["P", str(s), lib.s2h(n)]
    for i, op in enumerate(hist["ops"]):
        toks.append(";")
        if op[0] == "U":
            toks += ["U", str(op[1])] + [str(x) for x in op[2]] + [lib.s2h(op[3]), lib.s2h(op[4]), lib.s2h(op[5])]
        elif op[0] == "C":
            k = op[1] + (inside_shift or {}).get(i, 0)
            toks += ["C", str(k), str(op[3])] + [str(x) for x in op[4]] + [lib.s2h(op[5]), lib.s2h(op[6]), lib.s2h(op[7])]
        elif op[0] == "E":
            toks += ["E", str(op[1]), str(op[2])]
        else:
            toks += ["R"]
    return " ".join(toks)


def parse_model(out):
    t = out.split(" ")
    if not (t[0] == "O"):
        raise RuntimeError(out[:80])
    i = 1
    outs = []
    while t[i] != "T":
        tok = t[i]
        text = lib.h2s(tok[3:]) if tok[0] == "f" else None
        outs.append((tok[0], tok[1] == "1", text))
        i += 1
    i += 1
    nt = int(t[i]); i += 1
    tables = {}
    for _ in range(nt):
        sat, nr = int(t[i]), int(t[i + 1]); i += 2
        rows = []
        for _ in range(nr):
            rows.append((lib.h2s(t[i]), lib.h2s(t[i + 1]), lib.h2s(t[i + 2]))); i += 3
        if not (sat not in tables):
            raise RuntimeError('sat not in tables')
        tables[sat] = rows
    if not (t[i] == "N"):
        raise RuntimeError('t[i] == "N"')
    i += 1
    if t[i] == "-":
        names = None
    else:
        n = int(t[i]); i += 1
        names = []
        for _ in range(n):
            names.append((int(t[i]), lib.h2s(t[i + 1]))); i += 2
        names = sorted(names)
    return outs, tables, names


def _canon(res):
    outs, tables, names = res[0], res[1], res[2]
    return ([list(o) for o in outs], {str(k): [list(r) for r in v] for k, v in sorted(tables.items())},
            None if names is None else [list(n) for n in names])


def inside_crashes(hist):
    return [i for i, op in enumerate(hist["ops"]) if op[0] == "C" and op[2] == "inside"]


def model_candidates(drv, hists):
    """Model results per history.  A crash `inside` the transaction of statement k+1 leaves k or k+1 committed
    statements (SQLite commits DDL at once, the `with` rolls an INSERT back): both boundary states are admissible."""
    lines, index = [], []
    for h in hists:
        ins = inside_crashes(h)[:6]
        combos = [{}]
        for i in ins:
            combos = [dict(list(c.items()) + [(i, s)]) for c in combos for s in (0, 1)]
        idx = []
        for c in combos:
            idx.append(len(lines))
            lines.append(hist_line(h, c))
        index.append(idx)
    outs = drv.run_parallel(lines)
    return [[parse_model(outs[j]) for j in idx] for idx in index]


def compare_one(ctx, hist, cands, workdir):
    impl = run_impl(hist, workdir)
    ci = _canon(impl)
    ok = any(_canon(m) == ci for m in cands)
    if impl[3]:
        ctx.bump("impl_exceptions", impl[3][0][2].split(":")[0])
    if not ok:
        ctx.disagree("c15", hist, {"outs": ci[0], "tables": ci[1], "names": ci[2], "exceptions": impl[3]},
                     {"outs": _canon(cands[0])[0], "tables": _canon(cands[0])[1], "names": _canon(cands[0])[2]})
    return impl, ok


def correspond(ctx):
    drv = ctx.driver()
    n_rand = ctx.size(400, 5000)
    n_base = ctx.size(30, 300)
    hists = [gen_history(ctx) for _ in range(n_rand)]
    for _ in range(n_base):
        b = gen_history(ctx, crashes=False, maxlen=ctx.rng.choice([4, 8, 12]))
        vs = crash_variants(b)
        ctx.count("crash_variant_histories", len(vs))
        hists += [b] + vs
    cands = model_candidates(drv, hists)
    root = tempfile.mkdtemp(prefix="pv-c15-")
    try:
        for j, (h, cs) in enumerate(zip(hists, cands)):
            wd = os.path.join(root, "h%05d" % j)
            os.makedirs(wd)
            impl, ok = compare_one(ctx, h, cs, wd)
            shutil.rmtree(wd, ignore_errors=True)
            ctx.count("eval_corr_histories")
            ctx.count("ops_compared", len(h["ops"]))
            for op in h["ops"]:
                ctx.bump("ops", op[0] if op[0] != "C" else "C%d%s" % (min(op[1], 4), op[2][0]))
            for o in impl[0]:
                ctx.bump("impl_outcome", o[0])
            if any(impl[1].values()):
                ctx.distinct(json.dumps(h, sort_keys=True))
            ctx.bump("rows_at_end", min(sum(len(v) for v in impl[1].values()), 9))
            if j < 3:
                ctx.sample({"history": h, "implementation": {"outs": _canon(impl)[0], "tables": _canon(impl)[1]}})
    finally:
        shutil.rmtree(root, ignore_errors=True)


# ---------------------------------------------------------------- oracle: the statement alone
def check_history(hist, workdir):
    """Reference by plain dicts.  Returns list of (kind, observed, required, site)."""
    bad = []
    conf = {int(s): n for s, n in hist["platforms"]}
    order = [int(s) for s, _ in hist["platforms"]]
    ref = {}            # (sat, epoch datetime) -> (text, source): first seen wins
    state = {"added": False}

    def rows_of(path):
        tables, names = read_db(path)
        got = {}
        for sat, rows in tables.items():
            for (e, t, s) in rows:
                got.setdefault((sat, dt.datetime.fromisoformat(e)), []).append((t, s))
        return tables, names, got

    def observe(i, op, path, db):
        kind = op[0]
        if kind == "U":
            sat, ep = op[1], dt.datetime(*op[2])
            if sat in conf and (sat, ep) not in ref:
                ref[(sat, ep)] = (op[3] + "\n" + op[4], op[5])
                state["added"] = True
        elif kind == "C":
            sat, ep = op[3], dt.datetime(*op[4])
            state["added"] = False
            if sat in conf and (sat, ep) not in ref:
                # the statement allows the row to be there or not (where the crash fell); it must be whole if there
                _, _, got = rows_of(path)
                if (sat, ep) in got:
                    ref[(sat, ep)] = (op[5] + "\n" + op[6], op[7])
        elif kind == "R":
            state["added"] = False
        if bool(db.updated) != state["added"]:
            bad.append(("updated_flag", {"after_op": i, "updated": bool(db.updated)},
                        {"updated": state["added"]}, "SQLiteTLE.update_db"))
        if kind in ("C", "R", "E") or i == len(hist["ops"]) - 1:
            tables, names, got = rows_of(path)
            want = {k: [v] for k, v in ref.items()}
            if got != want:
                bad.append(("rows", {"after_op": i, "rows": sorted((str(k), v) for k, v in got.items())},
                            {"rows": sorted((str(k), v) for k, v in want.items())}, "SQLiteTLE.update_db"))
            extra = [s for s in tables if s not in conf] + [s for s, _ in (names or []) if s not in conf]
            if extra:
                bad.append(("unconfigured_stored", {"after_op": i, "satellites": extra}, "nothing stored", "SQLiteTLE.update_db"))

    expected_files = {}
    # the expected export is computed from `ref` *at the time of the export*: wrap observe
    def observe2(i, op, path, db):
        observe(i, op, path, db)
        if op[0] == "E":
            if not state["added"] and not op[1]:
                expected_files[i] = None
            else:
                data = []
                for sat in order:
                    eps = [e for (s, e) in ref if s == sat]
                    if not eps:
                        continue
                    if op[2]:
                        data.append(conf[sat])
                    data.append(ref[(sat, max(eps))][0])
                expected_files[i] = "\n".join(data)

    outs, tables, names, trouble = run_impl(hist, workdir, observe2)
    for (i, where, what) in trouble:
        bad.append(("exception", {"op_index": i, "exception": what}, "no exception", "SQLiteTLE." + where))
    for i, want in expected_files.items():
        st, _, text = outs[i]
        if st == "x":
            continue            # reported above
        if want is None and st != "n":
            bad.append(("export_when_clean", {"op_index": i, "file": text}, "no file", "SQLiteTLE.write_tle_txt"))
        elif want is not None and (st != "f" or text != want):
            bad.append(("export_content", {"op_index": i, "file": text}, {"file": want}, "SQLiteTLE.write_tle_txt"))
    return bad


# ---------------------------------------------------------------- histories through the fetch_tles.run() driver
DRIVER_KINDS = ["fetch_plain_tle", "fetch_spacetrack", "read_tle_files", "read_xml_admin_messages"]
PLAIN_SOURCES = ["celestrak", "spacetrack", "file", "https://example.org/weather.txt", "süd", "amateur"]


def _driver_entry_pool(rng, sats):
    """{sat: [(l1, l2)]}: per satellite several epochs of one cluster (whole day, +1e-8 day, half day, next day, other year),
    up to two different texts per epoch"""
    yy = rng.choice([0, 8, 23, 24, 56, 57, 99])
    day = rng.randrange(2, 364)
    fields = [(yy, "%03d.00000000" % day), (yy, "%03d.00000001" % day), (yy, "%03d.50000000" % day),
              (yy, "%03d.99999999" % (day - 1)), (yy, "%03d.00000000" % (day + 1)), (yy, "%03d.%08d" % (day, rng.randrange(1, 10 ** 8))),
              (rng.choice([1, 22, 98]), "%03d.%08d" % (rng.randrange(1, 366), rng.randrange(0, 10 ** 8)))]
    pool = {}
    for sat in sats:
        eps = rng.sample(fields, rng.randrange(2, 5))
        out = []
        for (y, d) in eps:
            for _ in range(rng.choice([1, 2])):
                _, l1, l2 = tlegen.random_tle(rng, "leo", {"satnum": rng.choice(["%05d", "%5d"]) % sat, "epoch_year": "%02d" % y, "epoch_day": d})
                out.append((l1, l2))
        pool[sat] = out
    return pool


def gen_driver_history(ctx):
    rng = ctx.rng
    pool_p = list(POOL)
    rng.shuffle(pool_p)
    ncfg = rng.randrange(1, 5)
    platforms = pool_p[:ncfg]
    unconf = [s for s, _ in pool_p[ncfg:ncfg + 2]]
    sats = [s for s, _ in platforms]
    entries = _driver_entry_pool(rng, sats + unconf)

    def delivery(lo=0):
        out = []
        for _ in range(rng.randrange(lo, 5)):
            sat = rng.choice(unconf) if (unconf and rng.random() < 0.12) else rng.choice(sats)
            out.append(list(rng.choice(entries[sat])))
        return out

    runs = []
    for _ in range(rng.choice([1, 1, 2, 2, 3])):
        kinds = list(DRIVER_KINDS)
        rng.shuffle(kinds)                       # every order of the downloaders
        kinds = kinds[:rng.choice([1, 2, 2, 3, 3, 4])]
        dls = []
        for kind in kinds:
            if kind == "fetch_plain_tle":
                names = rng.sample(PLAIN_SOURCES, rng.randrange(1, 4))
                dls.append([kind, [[nm, [[rng.choice([200, 200, 200, 200, 404, 500]), delivery(), int(rng.random() < 0.5)]
                                         for _ in range(rng.randrange(1, 3))]] for nm in names]])
            elif kind == "fetch_spacetrack":
                dls.append([kind, {"login": rng.choice([200, 200, 200, 401]), "query": rng.choice([200, 200, 200, 500]),
                                   "entries": delivery(), "names": int(rng.random() < 0.3)}])
            elif kind == "read_tle_files":
                dls.append([kind, [[delivery(), int(rng.random() < 0.5)] for _ in range(rng.randrange(1, 3))]])
            else:
                dls.append([kind, [delivery() for _ in range(rng.randrange(1, 3))]])
        runs.append({"write_always": int(rng.random() < 0.3), "write_name": int(rng.random() < 0.5), "downloaders": dls})
    return {"driver": True, "platforms": [[s, n] for s, n in platforms], "runs": runs}


def _body(conf, entries, with_names):
    lines = []
    for (l1, l2) in entries:
        if with_names:
            lines.append(conf.get(_satnum(l1), "OBJECT %d" % _satnum(l1)))
        lines += [l1, l2]
    return "".join(x + "\n" for x in lines)


def _satnum(l1):
    return int(l1[2:7])


def _xml_doc(entries):
    s = ['<?xml version="1.0" encoding="UTF-8"?>', "<multi-mission-administrative-message>", "<message>", "<two-line-elements>"]
    for (l1, l2) in entries:
        s += ["<navigation>", "<line-1>" + l1 + "</line-1>", "<line-2>" + l2 + "</line-2>", "</navigation>"]
    s += ["</two-line-elements>", "</message>", "</multi-mission-administrative-message>"]
    return "\n".join(s)


class _Reply(object):
    def __init__(self, status, text):
        self.status_code, self.text, self.content, self.ok = status, text, text.encode("utf-8"), status < 400


class _NoNetwork(object):
    """requests.get answers from a table uri -> (status, body); requests.Session logs in and answers its query with the given
    statuses and body; anything else is refused.  No network."""

    def __init__(self, table, session):
        import requests
        self.rq, self.table, self.session = requests, table, session

    def __enter__(self):
        rq, me = self.rq, self
        self.saved = (rq.get, rq.post, rq.Session, rq.request)

        def fake_get(url, **kw):
            st, body = me.table[url]
            return _Reply(st, body)

        class FakeSession(object):
            def __init__(self, *a, **k):
                pass

            def __enter__(self):
                return self

            def __exit__(self, *a):
                return False

            def close(self):
                pass

            def post(self, url, data=None, **kw):
                return _Reply(me.session[0], "")

            def get(self, url, **kw):
                return _Reply(me.session[1], me.session[2])

        def refuse(*a, **k):
            raise RuntimeError("unexpected network request")

        rq.get, rq.post, rq.Session, rq.request = fake_get, refuse, FakeSession, refuse
        return self

    def __exit__(self, *a):
        rq = self.rq
        rq.get, rq.post, rq.Session, rq.request = self.saved
        return False


def _epoch_of(l1, l2):
    from pyorbital import tlefile
    return tlefile.Tle("", line1=l1, line2=l2).epoch.item()


def check_driver_history(hist, workdir):
    """1-3 invocations of fetch_tles.run() on one database.  The reference (plain dicts) follows the statement: one row per
    distinct (configured satellite, epoch) with the first-seen text and source, in the order the driver visits downloaders
    (configuration order), sources, URIs / files and entries; the source of a delivery is the configured name for plain-text
    sources, "spacetrack" for Space-Track and "file" for local files and XML admin messages.  Returns a list of
    (kind, observed, required, site)."""
    import logging
    import sys
    import yaml
    from pyorbital import fetch_tles
    bad = []
    conf = {int(s): n for s, n in hist["platforms"]}
    order = [int(s) for s, _ in hist["platforms"]]
    dbpath = os.path.join(workdir, "tles.db")
    ref = {}
    for ri, run in enumerate(hist["runs"]):
        rdir = os.path.join(workdir, "run%d" % ri)
        os.makedirs(rdir)
        odir = os.path.join(rdir, "out")
        table, session = {}, (200, 200, "")
        dl_cfg = {}
        visits = []                 # (l1, l2, source) in the order the driver meets them
        for di, (kind, spec) in enumerate(run["downloaders"]):
            if kind == "fetch_plain_tle":
                cfg = {}
                for si, (name, uris) in enumerate(spec):
                    cfg[name] = []
                    for ui, (status, ents, with_names) in enumerate(uris):
                        uri = "https://example.invalid/r%d/s%d/u%d.txt" % (ri, si, ui)
                        cfg[name].append(uri)
                        table[uri] = (status, _body(conf, ents, with_names) if status == 200 else "Not here\n")
                        if status == 200:
                            visits += [(l1, l2, name) for (l1, l2) in ents]
                dl_cfg[kind] = cfg
            elif kind == "fetch_spacetrack":
                session = (spec["login"], spec["query"], _body(conf, spec["entries"], spec["names"]) if spec["query"] == 200 else "error\n")
                dl_cfg[kind] = {"user": "someone", "password": "secret"}
                if spec["login"] == 200 and spec["query"] == 200:
                    visits += [(l1, l2, "spacetrack") for (l1, l2) in spec["entries"]]
            elif kind == "read_tle_files":
                paths = []
                for fi, (ents, with_names) in enumerate(spec):
                    path = os.path.join(rdir, "local%d.tle" % fi)
                    with open(path, "w") as f:
                        f.write(_body(conf, ents, with_names))
                    # a pattern matching exactly this file, or the path itself
                    paths.append(os.path.join(rdir, "local%d.t*" % fi) if (fi + ri) % 2 else path)
                    visits += [(l1, l2, "file") for (l1, l2) in ents]
                dl_cfg[kind] = {"paths": paths}
            elif kind == "read_xml_admin_messages":
                paths = []
                for fi, ents in enumerate(spec):
                    path = os.path.join(rdir, "admin%d.xml" % fi)
                    with open(path, "w") as f:
                        f.write(_xml_doc(ents))
                    paths.append(path)
                    visits += [(l1, l2, "file") for (l1, l2) in ents]
                dl_cfg[kind] = {"paths": paths}
            else:
                raise ValueError(kind)
        config = {"logging": {"version": 1, "disable_existing_loggers": False, "handlers": {"null": {"class": "logging.NullHandler"}},
                              "root": {"handlers": ["null"], "level": "CRITICAL"}},
                  "database": {"path": dbpath},
                  "platforms": {int(s): n for s, n in hist["platforms"]},
                  "text_writer": {"output_dir": odir, "filename_pattern": "tle_%Y%m%d_%H%M%S.%f.txt",
                                  "write_name": bool(run["write_name"]), "write_always": bool(run["write_always"])},
                  "downloaders": dl_cfg}
        cfg_file = os.path.join(rdir, "config.yaml")
        with open(cfg_file, "w", encoding="utf-8") as f:
            yaml.safe_dump(config, f, sort_keys=False, allow_unicode=True)
        # reference
        added = False
        for (l1, l2, src) in visits:
            sat, ep = _satnum(l1), _epoch_of(l1, l2)
            if sat in conf and (sat, ep) not in ref:
                ref[(sat, ep)] = (l1 + "\n" + l2, src)
                added = True
        # the driver
        argv, level, handlers = sys.argv, logging.getLogger().level, list(logging.getLogger().handlers)
        failed = None
        try:
            sys.argv = ["fetch_tles.py", cfg_file]
            with _NoNetwork(table, session):
                fetch_tles.run()
        except Exception as e:  # noqa
            failed = "%s: %s" % (type(e).__name__, e)
        finally:
            sys.argv = argv
            logging.getLogger().setLevel(level)
            logging.getLogger().handlers[:] = handlers
        if failed:
            bad.append(("exception", {"run": ri, "exception": failed}, "no exception", "fetch_tles.run"))
            break
        tables, names = read_db(dbpath)
        got = {}
        for sat, rows in tables.items():
            for (e, t, s_) in rows:
                got.setdefault((sat, dt.datetime.fromisoformat(e)), []).append((t, s_))
        want = {k: [v] for k, v in ref.items()}
        if got != want:
            diff = sorted(str(k) for k in set(got) | set(want) if got.get(k) != want.get(k))
            bad.append(("rows", {"after_run": ri, "differing": diff, "rows": sorted((str(k), v) for k, v in got.items())},
                        {"rows": sorted((str(k), v) for k, v in want.items())}, "fetch_tles.run"))
        extra = [s_ for s_ in tables if s_ not in conf] + [s_ for s_, _ in (names or []) if s_ not in conf]
        if extra:
            bad.append(("unconfigured_stored", {"after_run": ri, "satellites": extra}, "nothing stored", "fetch_tles.run"))
        files = sorted(os.listdir(odir)) if os.path.isdir(odir) else []
        text = None
        if files:
            with open(os.path.join(odir, files[0]), "rb") as f:
                text = f.read().decode("utf-8")
        if not added and not run["write_always"]:
            if files:
                bad.append(("export_when_clean", {"run": ri, "file": text}, "no file", "fetch_tles.run"))
        else:
            data = []
            for sat in order:
                eps = [e for (s_, e) in ref if s_ == sat]
                if not eps:
                    continue
                if run["write_name"]:
                    data.append(conf[sat])
                data.append(ref[(sat, max(eps))][0])
            if len(files) != 1 or text != "\n".join(data):
                bad.append(("export_content", {"run": ri, "files": files, "file": text}, {"file": "\n".join(data)}, "fetch_tles.run"))
        if bad:
            break
    return bad, len(ref)


def oracle_driver(ctx):
    n = ctx.size(220, 3000)
    root = tempfile.mkdtemp(prefix="pv-c15d-")
    try:
        for j in range(n):
            h = gen_driver_history(ctx)
            wd = os.path.join(root, "d%05d" % j)
            os.makedirs(wd)
            bad, nrows = check_driver_history(h, wd)
            shutil.rmtree(wd, ignore_errors=True)
            ctx.count("eval_oracle_driver_histories")
            ctx.bump("driver_runs", len(h["runs"]))
            for run in h["runs"]:
                ctx.bump("driver_downloader_order", ">".join(k[0].replace("read_", "").replace("fetch_", "")[:5] for k in run["downloaders"]))
            ctx.bump("driver_rows_at_end", min(nrows, 9))
            if nrows:
                ctx.distinct(json.dumps(h, sort_keys=True))
            for (kind, obs, req, site) in bad[:1]:
                ctx.violation(kind, h, obs, req, site=site)
    finally:
        shutil.rmtree(root, ignore_errors=True)


def oracle(ctx):
    n = ctx.size(300, 4000)
    root = tempfile.mkdtemp(prefix="pv-c15o-")
    try:
        for j in range(n):
            h = gen_history(ctx)
            wd = os.path.join(root, "o%05d" % j)
            os.makedirs(wd)
            bad = check_history(h, wd)
            shutil.rmtree(wd, ignore_errors=True)
            ctx.count("eval_oracle_histories")
            for (kind, obs, req, site) in bad[:1]:
                ctx.violation(kind, h, obs, req, site=site)
    finally:
        shutil.rmtree(root, ignore_errors=True)
    oracle_driver(ctx)


def match_known(entry, v):
    return False


def replay(ctx, case):
    hist = case.get("input")
    if hist is None and case.get("first_disagreements"):
        hist = case["first_disagreements"][0]["case"]
    if hist is None:
        print("no history recorded in this replay file")
        return 1
    if hist.get("driver"):
        print("platforms:", hist["platforms"])
        for ri, run in enumerate(hist["runs"]):
            print("  run %d: write_always=%s write_name=%s" % (ri, run["write_always"], run["write_name"]))
            for kind, spec in run["downloaders"]:
                print("    %s: %s" % (kind, json.dumps(spec, ensure_ascii=False)[:400]))
        wd = tempfile.mkdtemp(prefix="pv-c15r-")
        try:
            bad, _ = check_driver_history(hist, wd)
        finally:
            shutil.rmtree(wd, ignore_errors=True)
        for (kind, obs, req, site) in bad:
            print("VIOLATES %s at %s\n  observed: %s\n  required: %s" % (kind, site, json.dumps(lib.jsonable(obs), ensure_ascii=False)[:900],
                                                                          json.dumps(lib.jsonable(req), ensure_ascii=False)[:900]))
        print("statement holds on this driver history" if not bad else "statement violated on this driver history")
        return 1 if bad else 0
    print("platforms:", hist["platforms"])
    for i, op in enumerate(hist["ops"]):
        print("  op %2d: %s" % (i, op))
    wd = tempfile.mkdtemp(prefix="pv-c15r-")
    try:
        bad = check_history(hist, wd)
    finally:
        shutil.rmtree(wd, ignore_errors=True)
    for (kind, obs, req, site) in bad:
        print("VIOLATES %s at %s\n  observed: %s\n  required: %s" % (kind, site, json.dumps(lib.jsonable(obs))[:600],
                                                                      json.dumps(lib.jsonable(req))[:600]))
    rc = 1 if bad else 0
    try:
        wd = tempfile.mkdtemp(prefix="pv-c15r-")
        cands = model_candidates(ctx.driver(), [hist])[0]
        impl = run_impl(hist, wd)
        agree = any(_canon(m) == _canon(impl) for m in cands)
        print("model agrees with the implementation:", agree)
        if not agree:
            rc = 1
    except (lib.DriverError, AssertionError) as e:
        print("model driver unavailable:", e)
    finally:
        shutil.rmtree(wd, ignore_errors=True)
    print("statement holds on this history" if rc == 0 else "statement violated on this history")
    return rc
